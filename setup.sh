#!/bin/bash
# Offline setup: nothing to build -- the checks use python3-vt (z3, cvc5) and /venv/bin/python as installed.
set -e
cd "$(dirname "$0")"
python3-vt -c "import z3; print('z3', z3.get_version_string())"
/venv/bin/python -c "import pandas, numpy; print('pandas', pandas.__version__)"
chmod +x check
echo setup ok
