#!/bin/bash
# usage: selftest/mut.sh <prop> <file-relative-to-src/elexmodel> <python-regex> <replacement> [check args]
# applies one textual mutation to a scratch copy of /repo and runs the check against it
set -u
prop=$1; file=$2; pat=$3; rep=$4; shift 4
T=$(mktemp -d ${TMPDIR:-/tmp}/mut.XXXXXX)
mkdir -p $T/repo && cp -r /repo/src /repo/tests $T/repo/ 2>/dev/null
python3 - "$T/repo/src/elexmodel/$file" "$pat" "$rep" <<'PY'
import re,sys
p,pat,rep=sys.argv[1:4]
s=open(p).read()
n=len(re.findall(pat,s,flags=re.S))
if n!=1: print(f"MUTATION PATTERN MATCHES {n} TIMES"); sys.exit(7)
open(p,'w').write(re.sub(pat,rep,s,count=1,flags=re.S))
PY
[ $? -eq 7 ] && { rm -rf $T; exit 7; }
VERIF_REPO=$T/repo VERIF_NO_EVIDENCE=1 ./check $prop "$@" 2>&1 | grep -E "^\[|VIOLATION|UNDECIDED|CHECKER|refuted" | head -12
echo "exit=${PIPESTATUS[0]}"
rm -rf $T
