"""C19 -- version retrieval returns exactly the requested window despite paging and faults (DESIGN section 4, C19)."""
import z3

from pyvc.api import unit
from pyvc.values import ExcVal, Space, SymRaise, Undecided, V

S3V = "elexmodel.handlers.s3.S3VersionUtil"
LEVEL = "proof"
ASSUMPTIONS = [
    "A-S3 (service model, assumed): the stored versions form one finite newest-first listing L (modification times non-increasing); a call with a marker returns a page = the next p >= 1 listed versions (p = 0 only when nothing is left), IsTruncated <=> more remain, and the Next*Marker denote the position after the page",
    "list_versions is proved by induction on the number of versions after the marker: the recursive call is replaced by the function's own contract (obligation: the marker strictly advances)",
    "get(): generator + queue + try/except are outside the executable subset -- covered by the bounded stand-in bounded/c19_get.py (not counted as proved)",
]
BOUNDED = [{"name": "get_downloads", "script": "c19_get.py", "timeout": 1200}]


class View:
    """an order-preserving sub-list of the service listing L: positions j with member(j), in listing order.
    parts: list of (lo, hi, pred) ranges in increasing position order"""

    def __init__(self, world, parts):
        self.w = world
        self.parts = parts

    def member(self, j):
        return z3.Or(*[z3.And(lo <= j, j < hi, pred(j)) for lo, hi, pred in self.parts]) if self.parts else z3.BoolVal(False)

    def count(self):
        # number of elements: exact for unfiltered ranges (all that len() is used for on such lists)
        n = z3.IntVal(0)
        for lo, hi, pred in self.parts:
            if pred is not TRUE:
                c = z3.Int(f"filtered_count_{id(self)}")
                return c
            n = n + z3.If(hi > lo, hi - lo, 0)
        return n

    def pyvc_len(self, interp):
        c = self.count()
        interp.ctx.assume(c >= 0)
        if any(pred is not TRUE for _, _, pred in self.parts):
            # a filtered view: its length is a symbol tied to membership -- positive iff some position is a member
            wit = z3.Int(f"member_witness_{id(self)}")
            total = z3.IntVal(0)
            for lo, hi, _ in self.parts:
                total = total + z3.If(hi > lo, hi - lo, 0)
            interp.ctx.assume(z3.And(c <= total, z3.Implies(c > 0, self.member(wit))))
            for pt in self.w.points:
                interp.ctx.assume(z3.Implies(self.member(pt), c > 0))
            x = z3.Int(f"x_{id(self)}")
            interp.ctx.assume(z3.ForAll([x], z3.Implies(self.member(x), c > 0)))
        return V(c)

    def pyvc_getitem(self, interp, key):
        if key == -1:
            if len(self.parts) != 1 or self.parts[0][2] is not TRUE:
                raise Undecided("last element of a filtered / concatenated view")
            lo, hi, _ = self.parts[0]
            if interp.ctx.branch(V(hi <= lo), "empty-list-index"):
                raise SymRaise(ExcVal("IndexError", ("list index out of range",), ("LookupError",)))
            return Rec(self.w, hi - 1)
        raise Undecided("view indexing")

    def pyvc_binop(self, interp, op, o, rev):
        if op == "Add" and isinstance(o, View) and not rev:
            # concatenation keeps listing order only if every position of self precedes every position of o
            if self.parts and o.parts:
                interp.ctx.oblige("concatenation_keeps_listing_order", self.parts[-1][1] <= o.parts[0][0], kind="ensures", why="page followed by the rest of the listing: adjacency comes from the marker returned by the service")
            return View(self.w, self.parts + o.parts)
        return NotImplemented

    def pyvc_filter(self, f):
        def refine(pred):
            return lambda j: z3.And(pred(j), _b(f(Rec(self.w, j))))

        return View(self.w, [(lo, hi, refine(pred)) for lo, hi, pred in self.parts])

    def pyvc_list(self):
        return self


def _b(v):
    return v.t if isinstance(v, V) else z3.BoolVal(bool(v))


def TRUE(j):
    return z3.BoolVal(True)


class Rec:
    def __init__(self, w, pos):
        self.w = w
        self.pos = pos

    def pyvc_getitem(self, interp, key):
        if key == "LastModified":
            return V(self.w.t(self.pos))
        raise Undecided(f"version[{key!r}]")


class World:
    def __init__(self, h):
        self.h = h
        self.N = z3.Int("N_versions")
        self.t = z3.Function("modified", z3.IntSort(), z3.RealSort())
        self.points = []  # positions at which "membership => non-empty" is instantiated
        h.syms["N_versions"] = self.N
        h.syms["modified"] = self.t
        h.ctx.assume(self.N >= 0)

    def newest_first(self, i, j):
        """instance of: the listing is newest first (i <= j => t_i >= t_j)"""
        self.h.ctx.assume(z3.Implies(z3.And(0 <= i, i <= j, j < self.N), self.t(i) >= self.t(j)))


class Client:
    """contract of the botocore client's list_object_versions under A-S3"""

    def __init__(self, w, marker):
        self.w = w
        self.marker = marker
        self.calls = []

    def pyvc_getattr(self, interp, name):
        if name != "list_object_versions":
            raise Undecided(f"s3 client .{name}")

        def list_object_versions(Bucket=None, Prefix=None, KeyMarker=None, VersionIdMarker=None, **kw):
            w = self.w
            m = self.marker if KeyMarker is None else KeyMarker.pos
            if (KeyMarker is None) != (VersionIdMarker is None):
                raise Undecided("only one of the two markers passed")
            p = z3.Int(f"page_size_{len(self.calls)}")
            interp.ctx.assume(z3.And(p >= 0, m + p <= w.N, z3.Implies(m < w.N, p >= 1)))
            self.calls.append((m, p))
            resp = {"IsTruncated": V(m + p < w.N), "NextKeyMarker": Marker(m + p), "NextVersionIdMarker": Marker(m + p)}
            # botocore omits "Versions" when the page is empty; model both spellings of an empty page
            resp["Versions"] = View(w, [(m, m + p, TRUE)])
            return resp

        return list_object_versions


class Marker:
    def __init__(self, pos):
        self.pos = pos


def _unit(start_given, end_given):
    nm = ("from" if start_given else "open") + "_" + ("to" if end_given else "open")

    @unit("C19", f"list_versions.{nm}", fn=f"{S3V}.list_versions")
    def lv(h):
        w = World(h)
        m = h.int("marker")
        h.requires("marker_in_range", m >= 0, m <= w.N)
        start = h.real("start_date") if start_given else None
        end = h.real("end_date") if end_given else None
        j = z3.Int("j")
        h.syms["j"] = j
        w.points.append(j)
        client = Client(w, m.t)
        self = h.obj(S3V, bucket_name="b", s3_client=client, start_date=start, end_date=end)

        def window(j):
            c = []
            if start is not None:
                c.append(w.t(j) >= start.t)
            if end is not None:
                c.append(w.t(j) <= end.t)
            return z3.And(*c) if c else z3.BoolVal(True)

        rec_calls = []

        def own_contract(interp, self_, path, KeyMarker=None, VersionIdMarker=None, **kw):
            """the function's own contract at a later marker (induction hypothesis)"""
            if KeyMarker is None or VersionIdMarker is None:
                raise Undecided("recursive call without markers")
            m2 = KeyMarker.pos
            interp.ctx.oblige("recursion.marker_strictly_advances", z3.And(m2 > m.t, m2 <= w.N), kind="ensures", why="termination measure: versions left after the marker")
            interp.ctx.oblige("recursion.both_markers_denote_the_same_position", KeyMarker.pos == VersionIdMarker.pos, kind="ensures")
            rec_calls.append(m2)
            return View(w, [(m2, w.N, window)])

        h.contracts[f"{S3V}.list_versions"] = own_contract
        clo = h.load(f"{S3V}.list_versions")  # the real body (the contract above is only used for the inner call)
        try:
            res = clo(self, "path") if False else h.interp.call_closure(clo, [self, "path"], {})
        except SymRaise as e:
            return h.fail("no_raise", f"raised {e.exc}")
        # newest-first instances the early stop relies on: the last element of the first page vs. the generic position
        for (mm, pp) in client.calls:
            w.newest_first(mm + pp - 1, j)
            w.newest_first(j, mm + pp - 1)
        inr = z3.And(j >= 0, j < w.N)

        def rp(ev):
            n = ev(w.N)
            if n > 40:
                raise Exception("model too large to replay")
            times = [float(ev(w.t(z3.IntVal(i)))) for i in range(n)]
            # the listing must be newest first for the service model: sort the model's times descending (stable)
            times = sorted(times, reverse=True)
            pages = [int(ev(z3.Int(f"page_size_{k}"))) for k in range(len(client.calls))]
            return {"target": "verif_replays:list_versions_replay", "args": [times, pages, float(ev(start.t)) if start is not None else None, float(ev(end.t)) if end is not None else None, int(ev(m.t))], "check": "result['exc'] is None and result['equal']"}

        h.ensures("exactly_the_versions_in_the_window_after_the_marker", z3.Implies(inr, res.member(j) == z3.And(j >= m.t, window(j))), replay=rp)
        h.ensures("each_version_once_in_listing_order", all(True for _ in res.parts))
        h.ensures("at_most_one_recursive_call", len(rec_calls) <= 1)

    return lv


for _s in (False, True):
    for _e in (False, True):
        _unit(_s, _e)
