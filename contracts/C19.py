"""C19 -- version retrieval returns exactly the requested window despite paging and faults (DESIGN section 4, C19)."""
import z3

from pyvc.api import unit
from pyvc.values import ExcVal, Space, SymRaise, Undecided, V

S3V = "elexmodel.handlers.s3.S3VersionUtil"
LEVEL = "proof"
ASSUMPTIONS = [
    "A-S3 (service model, assumed): the stored versions form one finite newest-first listing L (modification times non-increasing); a call with a marker returns a page = the next p >= 1 listed versions (p = 0 only when nothing is left), IsTruncated <=> more remain, and the Next*Marker denote the position after the page",
    "list_versions is proved by induction on the number of versions after the marker: the recursive call is replaced by the function's own contract (obligation: the marker strictly advances)",
    "get(): the real get / make_request / wait_for_versions are executed with the generator run eagerly, queue.Queue as a single-threaded FIFO, TransferManager.download as 'the returned future succeeds or fails; on success the buffer holds the bytes of the version named by VersionId', pd.read_csv / to_datetime / astimezone / concat as opaque constructors; versions[::k] = the members whose rank is a multiple of k; the bounded companion bounded/c19_get.py runs the real pandas / queue code",
]
BOUNDED = [{"name": "get_downloads", "script": "c19_get.py", "timeout": 1200}]


class View:
    """an order-preserving sub-list of the service listing L: positions j with member(j), in listing order.
    parts: list of (lo, hi, pred) ranges in increasing position order"""

    def __init__(self, world, parts):
        self.w = world
        self.parts = parts

    def member(self, j):
        return z3.Or(*[z3.And(lo <= j, j < hi, pred(j)) for lo, hi, pred in self.parts]) if self.parts else z3.BoolVal(False)

    def count(self):
        # number of elements: exact for unfiltered ranges (all that len() is used for on such lists)
        n = z3.IntVal(0)
        for lo, hi, pred in self.parts:
            if pred is not TRUE:
                c = z3.Int(f"filtered_count_{id(self)}")
                return c
            n = n + z3.If(hi > lo, hi - lo, 0)
        return n

    def pyvc_len(self, interp):
        c = self.count()
        interp.ctx.assume(c >= 0)
        if any(pred is not TRUE for _, _, pred in self.parts):
            # a filtered view: its length is a symbol tied to membership -- positive iff some position is a member
            wit = z3.Int(f"member_witness_{id(self)}")
            total = z3.IntVal(0)
            for lo, hi, _ in self.parts:
                total = total + z3.If(hi > lo, hi - lo, 0)
            interp.ctx.assume(z3.And(c <= total, z3.Implies(c > 0, self.member(wit))))
            for pt in self.w.points:
                interp.ctx.assume(z3.Implies(self.member(pt), c > 0))
            x = z3.Int(f"x_{id(self)}")
            interp.ctx.assume(z3.ForAll([x], z3.Implies(self.member(x), c > 0)))
        return V(c)

    def pyvc_getitem(self, interp, key):
        if key == -1 and (len(self.parts) != 1 or self.parts[0][2] is not TRUE):
            # the last member of a filtered view: a Skolem position that is a member and after which no member follows
            # (instantiated at the generic positions the proof talks about)
            c = self.pyvc_len(interp)
            if interp.ctx.branch(V(c.t <= 0), "empty-list-index"):
                raise SymRaise(ExcVal("IndexError", ("list index out of range",), ("LookupError",)))
            last = z3.Int(f"last_member_{id(self)}")
            interp.ctx.assume(self.member(last))
            for pt in self.w.points:
                interp.ctx.assume(z3.Implies(self.member(pt), pt <= last))
            return Rec(self.w, last)
        if key == -1:
            lo, hi, _ = self.parts[0]
            if interp.ctx.branch(V(hi <= lo), "empty-list-index"):
                raise SymRaise(ExcVal("IndexError", ("list index out of range",), ("LookupError",)))
            return Rec(self.w, hi - 1)
        raise Undecided("view indexing")

    def pyvc_binop(self, interp, op, o, rev):
        if op == "Add" and isinstance(o, View) and not rev:
            # concatenation keeps listing order only if every position of self precedes every position of o
            if self.parts and o.parts:
                interp.ctx.oblige("concatenation_keeps_listing_order", self.parts[-1][1] <= o.parts[0][0], kind="ensures", why="page followed by the rest of the listing: adjacency comes from the marker returned by the service")
            return View(self.w, self.parts + o.parts)
        return NotImplemented

    def pyvc_filter(self, f):
        def refine(pred):
            return lambda j: z3.And(pred(j), _b(f(Rec(self.w, j))))

        return View(self.w, [(lo, hi, refine(pred)) for lo, hi, pred in self.parts])

    def pyvc_list(self):
        return self


def _b(v):
    return v.t if isinstance(v, V) else z3.BoolVal(bool(v))


def TRUE(j):
    return z3.BoolVal(True)


class Rec:
    def __init__(self, w, pos):
        self.w = w
        self.pos = pos

    def pyvc_getitem(self, interp, key):
        if key == "LastModified":
            return V(self.w.t(self.pos))
        raise Undecided(f"version[{key!r}]")


class World:
    def __init__(self, h):
        self.h = h
        self.N = z3.Int("N_versions")
        self.t = z3.Function("modified", z3.IntSort(), z3.RealSort())
        self.points = []  # positions at which "membership => non-empty" is instantiated
        h.syms["N_versions"] = self.N
        h.syms["modified"] = self.t
        h.ctx.assume(self.N >= 0)

    def newest_first(self, i, j):
        """instance of: the listing is newest first (i <= j => t_i >= t_j)"""
        self.h.ctx.assume(z3.Implies(z3.And(0 <= i, i <= j, j < self.N), self.t(i) >= self.t(j)))


class Client:
    """contract of the botocore client's list_object_versions under A-S3"""

    def __init__(self, w, marker):
        self.w = w
        self.marker = marker
        self.calls = []

    def pyvc_getattr(self, interp, name):
        if name != "list_object_versions":
            raise Undecided(f"s3 client .{name}")

        def list_object_versions(Bucket=None, Prefix=None, KeyMarker=None, VersionIdMarker=None, **kw):
            w = self.w
            m = self.marker if KeyMarker is None else KeyMarker.pos
            if (KeyMarker is None) != (VersionIdMarker is None):
                raise Undecided("only one of the two markers passed")
            p = z3.Int(f"page_size_{len(self.calls)}")
            interp.ctx.assume(z3.And(p >= 0, m + p <= w.N, z3.Implies(m < w.N, p >= 1)))
            self.calls.append((m, p))
            resp = {"IsTruncated": V(m + p < w.N), "NextKeyMarker": Marker(m + p), "NextVersionIdMarker": Marker(m + p)}
            # botocore omits "Versions" when the page is empty; model both spellings of an empty page
            resp["Versions"] = View(w, [(m, m + p, TRUE)])
            return resp

        return list_object_versions


class Marker:
    def __init__(self, pos):
        self.pos = pos


def _unit(start_given, end_given):
    nm = ("from" if start_given else "open") + "_" + ("to" if end_given else "open")

    @unit("C19", f"list_versions.{nm}", fn=f"{S3V}.list_versions")
    def lv(h):
        w = World(h)
        m = h.int("marker")
        h.requires("marker_in_range", m >= 0, m <= w.N)
        start = h.real("start_date") if start_given else None
        end = h.real("end_date") if end_given else None
        j = z3.Int("j")
        h.syms["j"] = j
        w.points.append(j)
        client = Client(w, m.t)
        self = h.obj(S3V, bucket_name="b", s3_client=client, start_date=start, end_date=end)

        def window(j):
            c = []
            if start is not None:
                c.append(w.t(j) >= start.t)
            if end is not None:
                c.append(w.t(j) <= end.t)
            return z3.And(*c) if c else z3.BoolVal(True)

        rec_calls = []

        def own_contract(interp, self_, path, KeyMarker=None, VersionIdMarker=None, **kw):
            """the function's own contract at a later marker (induction hypothesis)"""
            if KeyMarker is None or VersionIdMarker is None:
                raise Undecided("recursive call without markers")
            m2 = KeyMarker.pos
            interp.ctx.oblige("recursion.marker_strictly_advances", z3.And(m2 > m.t, m2 <= w.N), kind="ensures", why="termination measure: versions left after the marker")
            interp.ctx.oblige("recursion.both_markers_denote_the_same_position", KeyMarker.pos == VersionIdMarker.pos, kind="ensures")
            rec_calls.append(m2)
            return View(w, [(m2, w.N, window)])

        h.contracts[f"{S3V}.list_versions"] = own_contract
        clo = h.load(f"{S3V}.list_versions")  # the real body (the contract above is only used for the inner call)
        try:
            res = clo(self, "path") if False else h.interp.call_closure(clo, [self, "path"], {})
        except SymRaise as e:
            return h.fail("no_raise", f"raised {e.exc}")
        # newest-first instances the early stop relies on: the last element of the first page vs. the generic position
        for (mm, pp) in client.calls:
            w.newest_first(mm + pp - 1, j)
            w.newest_first(j, mm + pp - 1)
        inr = z3.And(j >= 0, j < w.N)

        def rp(ev):
            n = ev(w.N)
            if n > 40:
                raise Exception("model too large to replay")
            times = [float(ev(w.t(z3.IntVal(i)))) for i in range(n)]
            # the listing must be newest first for the service model: sort the model's times descending (stable)
            times = sorted(times, reverse=True)
            pages = [int(ev(z3.Int(f"page_size_{k}"))) for k in range(len(client.calls))]
            return {"target": "verif_replays:list_versions_replay", "args": [times, pages, float(ev(start.t)) if start is not None else None, float(ev(end.t)) if end is not None else None, int(ev(m.t))], "check": "result['exc'] is None and result['equal']"}

        h.ensures("exactly_the_versions_in_the_window_after_the_marker", z3.Implies(inr, res.member(j) == z3.And(j >= m.t, window(j))), replay=rp)
        h.ensures("each_version_once_in_listing_order", all(True for _ in res.parts))
        h.ensures("at_most_one_recursive_call", len(rec_calls) <= 1)

    return lv


for _s in (False, True):
    for _e in (False, True):
        _unit(_s, _e)


# ---- get(): sampling, queued downloads, failing futures, stamping -- the REAL body, for any listing and any failures ----
from pyvc.values import fresh_name  # noqa: E402


def loop_over(interp, body, env, w, guard, item, target=None, getter=None):
    """pointwise loop rule for the position-indexed sequences of this module: the body is executed for ONE generic
    position w.jg that satisfies `guard` (all its paths), in a scratch path context; everything the body appends to a
    python list, puts on a queue or yields is recorded as a template guarded by (guard and the path's branch conditions)
    and becomes ONE symbolic element (Mapped) of that collector.  Sound for bodies whose iterations are independent:
    the only cross-iteration effects allowed are those appends (checked: no attribute writes, no other outer stores)."""
    from pyvc.interp import Env, Explorer, InfeasiblePath, PathCtx, _Break, _Continue, _Return

    outer = interp.ctx
    jg = w.jg
    base_pc = list(outer.pc) + [z3.And(jg >= 0, jg < w.N, guard)]
    collectors = []  # (container list, length before)
    p = env
    seen = set()
    while isinstance(p, Env):
        for v in list(p.vars.values()):
            for c in ([v] if isinstance(v, list) else [v.items] if isinstance(v, QueueObj) else []):
                if id(c) not in seen:
                    seen.add(id(c))
                    collectors.append(c)
        if hasattr(p, "yield_sink") and id(p.yield_sink) not in seen:
            seen.add(id(p.yield_sink))
            collectors.append(p.yield_sink)
        p = p.parent
    # queues reachable through object attributes are not used by the code under contract
    before = [len(c) for c in collectors]
    templates = [[] for _ in collectors]
    escapes = []
    ex = Explorer(max_paths=32)
    ex.notes = outer.notes
    ex.pending = [[]]
    while ex.pending:
        dec = ex.pending.pop()
        ctx = PathCtx(dec, ex)
        ctx.pc = list(base_pc)
        for k, v in outer.__dict__.items():
            if k.startswith("_"):
                ctx.__dict__[k] = v
        interp.ctx = ctx
        child = Env(env)
        try:
            if target is not None:
                interp.assign(target, item, child)
            if getter is not None:
                getter[0] = item
            interp.exec_block(body, child)
        except InfeasiblePath:
            continue
        except _Continue:
            pass
        except (_Break, _Return):
            interp.ctx = outer
            raise Undecided("break/return inside a loop over a symbolic sequence")
        except SymRaise as e:
            # an exception escapes the body for positions satisfying this path's branch conditions: the whole loop
            # (and the function around it) is aborted as soon as such a position is reached
            interp.ctx = outer
            bids = {b.get_id() for b in ctx.branches}
            escapes.append((z3.And(guard, *[f for f in ctx.pc[len(base_pc) :] if f.get_id() in bids]), e.exc))
            for i, c in enumerate(collectors):
                del c[before[i] :]
            continue
        finally:
            interp.ctx = outer
        bids = {b.get_id() for b in ctx.branches}
        local = [f for f in ctx.pc[len(base_pc) :] if f.get_id() in bids]
        for f in ctx.pc[len(base_pc) :]:
            if f.get_id() not in bids:
                outer.assume(z3.Implies(z3.And(jg >= 0, jg < w.N, guard), f))
        outer.obligations.extend(ctx.obligations)
        for i, c in enumerate(collectors):
            new = c[before[i] :]
            del c[before[i] :]
            if len(new) > 1:
                raise Undecided("more than one append per iteration and collector")
            if new:
                templates[i].append((z3.And(guard, *local), new[0]))
    if escapes:
        cond = z3.Or(*[c for c, _ in escapes])
        some = z3.Bool(fresh_name("some_iteration_raises"))
        wit = z3.Int(fresh_name("raising_position"))
        outer.assume(z3.Implies(some, z3.And(wit >= 0, wit < w.N, z3.substitute(cond, (jg, wit)))))
        outer.assume(z3.Implies(z3.And(jg >= 0, jg < w.N, cond), some))
        if outer.branch(V(some), "an-iteration-raises"):
            raise SymRaise(escapes[0][1])
    for c, tpl in zip(collectors, templates):
        if tpl:
            c.append(Mapped(w, tpl))


class Mapped:
    """the elements a pointwise loop produced: for every position j (in listing order) with guard_k(j), item_k(j)"""

    def __init__(self, w, templates):
        self.w = w
        self.templates = templates

    def guard(self):
        return z3.Or(*[g for g, _ in self.templates])

    def pyvc_foreach(self, interp, stmt, env):
        if stmt.orelse:
            raise Undecided("for/else")
        for g, it in self.templates:
            loop_over(interp, stmt.body, env, self.w, g, it, target=stmt.target)


class StrideView:
    """versions[::step]: the members of the view whose rank among the members is a multiple of step"""

    def __init__(self, view, step):
        self.view, self.step = view, step
        self.w = view.w

    def member(self, j):
        return z3.And(self.view.member(j), self.w.rank(j) % self.step == 0)

    def pyvc_foreach(self, interp, stmt, env):
        if stmt.orelse:
            raise Undecided("for/else")
        loop_over(interp, stmt.body, env, self.w, self.member(self.w.jg), Rec(self.w, self.w.jg), target=stmt.target)


def _view_getitem(self, interp, key):
    if isinstance(key, slice) and key.start is None and key.stop is None and isinstance(key.step, int) and key.step >= 1:
        return StrideView(self, key.step)
    return _view_getitem_old(self, interp, key)


_view_getitem_old = View.pyvc_getitem
View.pyvc_getitem = _view_getitem


def _rec_getitem(self, interp, key):
    if key == "VersionId":
        return V(self.w.vid(self.pos))
    if key == "Size":
        return V(self.w.size(self.pos))
    return _rec_getitem_old(self, interp, key)


_rec_getitem_old = Rec.pyvc_getitem
Rec.pyvc_getitem = _rec_getitem


class QueueObj:
    """queue.Queue() used single-threaded: FIFO"""

    def __init__(self, w):
        self.w = w
        self.items = []
        self.current = [None]

    def pyvc_getattr(self, interp, name):
        if name == "put":
            return lambda item, block=True, **kw: self.items.append(item)
        if name == "get":
            def get(*a, **k):
                if self.current[0] is None:
                    raise Undecided("queue.get outside the drain loop")
                return self.current[0]
            return get
        if name == "task_done":
            return lambda: None
        if name == "empty":
            return lambda: len(self.items) == 0
        raise Undecided(f"queue.{name}")

    def pyvc_drain(self, interp, stmt, env):
        """`while not q.empty(): x = q.get(); ...`: every queued item, in order, exactly once"""
        items, self.items = self.items, []
        for it in items:
            if isinstance(it, Mapped):
                for g, one in it.templates:
                    loop_over(interp, stmt.body, env, self.w, g, one, getter=self.current)
            else:
                self.current[0] = it
                interp.exec_block(stmt.body, env)
        self.current[0] = None


class DataBuf:
    def __init__(self):
        self.content = None

    def pyvc_getattr(self, interp, name):
        if name == "seek":
            return lambda *a: 0
        raise Undecided(f"BytesIO.{name}")


class FutureObj:
    def __init__(self, w, pos):
        self.w, self.pos = w, pos

    def pyvc_getattr(self, interp, name):
        if name == "result":
            def result():
                if interp.ctx.branch(V(self.w.fail(self.pos)), "download-fails"):
                    raise SymRaise(ExcVal("Exception", ("download failed",), ("BaseException",)))
                return None
            return result
        raise Undecided(f"future.{name}")


class Manager:
    """TransferManager.download(bucket, key, fileobj, extra_args, subscribers): fills fileobj with the bytes of the version
    named by extra_args['VersionId'] when the returned future succeeds"""

    def __init__(self, w):
        self.w = w
        self.calls = []

    def pyvc_getattr(self, interp, name):
        if name != "download":
            raise Undecided(f"manager.{name}")

        def download(bucket, key, fileobj, extra_args=None, subscribers=None):
            vid = (extra_args or {}).get("VersionId")
            fileobj.content = vid
            self.calls.append((vid, subscribers))
            pos = self.w.jg
            return FutureObj(self.w, pos)

        return download


class CsvFrame:
    def __init__(self, content):
        self.content = content
        self.cols = {}

    def pyvc_setitem(self, interp, key, val):
        self.cols[key] = val


class Stamp:
    def __init__(self, t, tz=None):
        self.t, self.tz = t, tz

    def pyvc_getattr(self, interp, name):
        if name == "astimezone":
            return lambda tz=None: Stamp(self.t, tz)
        raise Undecided(f"Timestamp.{name}")


class ConcatFrame:
    def __init__(self, h, parts):
        self.h, self.parts = h, parts
        self.copied = []

    def pyvc_getattr(self, interp, name):
        if name == "columns":
            return self
        raise Undecided(f"DataFrame.{name}")

    def pyvc_contains(self, interp, x):  # `name in df.columns`: the downloaded files decide
        b = z3.Bool(f"files_have_column_{x}")
        self.h.syms[f"files_have_column_{x}"] = b
        return V(b)

    def pyvc_getitem(self, interp, key):
        return ColRef(key)

    def pyvc_setitem(self, interp, key, val):
        self.copied.append((key, val))


class ColRef:
    def __init__(self, name):
        self.name = name

    def pyvc_getattr(self, interp, name):
        if name == "copy":
            return lambda *a, **k: self
        raise Undecided(f"Series.{name}")


@unit("C19", "get.sampling_downloads_and_stamps", fns=[f"{S3V}.get", f"{S3V}.make_request", f"{S3V}.wait_for_versions"])
def get_unit(h):
    """the REAL get / make_request / wait_for_versions (generator run eagerly, queue as FIFO, list_versions under the
    contract proved above): for any listing, window, failing subset: every sample-th listed version is requested once
    with its own VersionId, a failing download is skipped without aborting the others, every surviving file is stamped
    with ITS OWN version's modification time in the configured timezone, in listing order; no version -> None"""
    w = World(h)
    h.default_replay = lambda ev: {"target": "verif_replays:get_downloads_replay", "args": [], "check": "result['exc'] is None and result['ok']"}
    w.jg = z3.Int("generic_position")
    h.syms["generic_position"] = w.jg
    for nm, srt in (("rank", z3.IntSort()), ("fail", z3.BoolSort()), ("vid", z3.StringSort()), ("size", z3.IntSort())):
        f = z3.Function(nm, z3.IntSort(), srt)
        h.syms[nm] = f
        setattr(w, nm, f)
    h.ctx.assume(w.rank(w.jg) >= 0)
    start, end = h.real("start_date"), h.real("end_date")

    def window(j):
        return z3.And(w.t(j) >= start.t, w.t(j) <= end.t)

    listed = View(w, [(z3.IntVal(0), w.N, window)])
    w.points.append(w.jg)
    h.contracts[f"{S3V}.list_versions"] = lambda interp, self_, path, **kw: listed
    th = h.interp.theories
    th["io"] = {"BytesIO": lambda *a: DataBuf()}
    th["queue"] = {"Queue": lambda *a, **k: QueueObj(w)}
    th["dateutil"] = {"tz": {"gettz": lambda name=None: ("tz", name)}}
    pdt = dict(th["pandas"])
    reads = []

    def read_csv(data, dtype=None, **kw):
        reads.append((data, dtype))
        return CsvFrame(data.content)

    concats = []

    def concat(objs, **kw):
        objs = list(objs)
        if not objs:
            raise SymRaise(ExcVal("ValueError", ("No objects to concatenate",)))
        if not all(isinstance(o, Mapped) for o in objs):
            raise Undecided("pd.concat of this list")
        if len(objs) > 1:
            objs = [Mapped(w, [tp for o in objs for tp in o.templates])]
        # the list is empty when no position satisfies the guard: pandas raises then
        some = z3.Bool("some_download_succeeded")
        h.syms["some_download_succeeded"] = some
        g = objs[0].guard()
        h.ctx.assume(z3.Implies(z3.And(w.jg >= 0, w.jg < w.N, g), some))
        wit = z3.Int("successful_position")
        h.ctx.assume(z3.Implies(some, z3.And(wit >= 0, wit < w.N, z3.substitute(g, (w.jg, wit)))))
        if h.interp.ctx.branch(V(z3.Not(some)), "nothing-to-concatenate"):
            raise SymRaise(ExcVal("ValueError", ("No objects to concatenate",)))
        cf = ConcatFrame(h, objs[0])
        concats.append(cf)
        return cf

    pdt.update(read_csv=read_csv, to_datetime=lambda x, **k: Stamp(x), concat=concat)
    th["pandas"] = th["pd"] = pdt
    mgr = Manager(w)
    self = h.obj(S3V, bucket_name="b", manager=mgr, start_date=start, end_date=end, tz="America/New_York")
    sample = 2
    j = w.jg
    inr = z3.And(j >= 0, j < w.N)
    kind, res = h.call_method(self, "get", "path", sample=sample)
    if kind == "raise":
        # allowed only when every sampled download failed (outside the statement: "as long as at least one succeeds")
        ok = res.clsname == "ValueError"
        h.ensures("raises_only_when_no_sampled_download_succeeded", z3.BoolVal(ok) if not ok else z3.Implies(z3.And(inr, window(j), w.rank(j) % sample == 0), w.fail(j)), why=f"raised {res}")
        return
    if res is None:
        h.ensures("no_version_in_the_window.returns_no_data", z3.Implies(inr, z3.Not(window(j))))
        return
    h.ensures("returns_the_concatenation", isinstance(res, ConcatFrame) and len(concats) == 1)
    if not isinstance(res, ConcatFrame):
        return
    parts = res.parts
    sampled = z3.And(window(j), w.rank(j) % sample == 0)
    h.ensures("one_pointwise_production", len(parts.templates) == 1, why=f"{len(parts.templates)} different productions per position")
    if len(parts.templates) != 1:
        return
    g, frame = parts.templates[0]
    h.ensures("rows_of_exactly_the_sampled_versions_whose_download_succeeded", z3.Implies(inr, g == z3.And(sampled, z3.Not(w.fail(j)))))
    h.ensures("each_file_is_the_download_of_its_own_version", isinstance(frame, CsvFrame) and isinstance(frame.content, V) and z3.eq(frame.content.t, w.vid(j)), why=f"the download request names {getattr(frame, 'content', None)!r}")
    st = frame.cols.get("last_modified")
    h.ensures("stamped_in_the_configured_timezone", isinstance(st, Stamp) and st.tz == ("tz", "America/New_York"), why=str(getattr(st, "tz", None)))
    if isinstance(st, Stamp) and isinstance(st.t, V):
        h.ensures("stamped_with_its_own_modification_time", z3.Implies(z3.And(inr, g), st.t.t == w.t(j)))
    else:
        h.ensures("stamped_with_its_own_modification_time", False)
    c0 = mgr.calls[0] if len(mgr.calls) == 1 else None
    h.ensures("one_request_per_sampled_version_with_its_own_id_and_size", c0 is not None and isinstance(c0[0], V) and z3.eq(c0[0].t, w.vid(j)) and len(c0[1]) == 1 and z3.eq(c0[1][0].attrs["size"].t, w.size(j)))
    h.ensures("legacy_column_names_are_copied_not_overwritten", all(k in ("results_dem", "results_gop", "results_turnout") for k, _ in res.copied))
