"""C12 -- estimates are a deterministic function of the arguments (DESIGN section 4, C12).

Effect contracts derived from the real ASTs of everything reachable from the two entry points:
  * every source of randomness is seeded from the model's seed setting;
  * no value that reaches a table depends on set iteration order, the clock, or the environment at call time;
  * parameters with mutable default values and the client's own fields carry no state from one call to the next.
The bounded companion (bounded/c12_runs.py) runs the REAL client twice per scenario (same / fresh client, other
requests in between, different PYTHONHASHSEED) and compares the tables bit for bit."""
import ast

import z3

from pyvc import effects, source
from pyvc.api import unit

LEVEL = "proof"
CL = "elexmodel.client.ModelClient"
ENTRIES = [f"{CL}.get_estimates", f"{CL}.get_national_summary_votes_estimates"]
ASSUMPTIONS = [
    "derivation over the package call graph (by-name resolution with receiver classes: over-approximation); library calls are classified by the table in this file (RNG constructors / draws, set constructors, clock, environment); everything else in numpy/pandas/scipy/elexsolver is assumed to be a function of its arguments",
    "numpy Generator(seed) / DataFrame.sample(random_state=s) / scipy bootstrap(random_state=rng): value is a function of the seed and of the sequence of draws so far",
    "floating point reductions are assumed to be evaluated in the same order on equal inputs (same process, same library build)",
]
BOUNDED = [{"name": "repeat_runs", "script": "c12_runs.py", "timeout": 1500}]

RNG_DRAWS = {"shuffle", "choice", "uniform", "multivariate_normal", "normal", "integers", "permutation", "random", "standard_normal", "binomial", "poisson"}


def effect_sites(fi):
    out = []
    for n in ast.walk(fi.node):
        if isinstance(n, ast.Call):
            t = ast.unparse(n.func)
            kws = {k.arg: k.value for k in n.keywords if k.arg}
            if t.endswith("default_rng") or t.endswith("RandomState") or t.endswith("Generator"):
                out.append((n, "rng_ctor", t))
            elif t.startswith("np.random.") or t.startswith("numpy.random.") or t.startswith("random."):
                out.append((n, "global_rng", t))
            elif t.split(".")[-1] == "sample" and ("frac" in kws or "n" in kws or n.args):
                out.append((n, "df_sample", t))
            elif t.split(".")[-1] == "bootstrap" or t == "bootstrap":
                out.append((n, "scipy_bootstrap", t))
            elif t.split(".")[-1] in ("rvs", "resample") or (t.split(".")[-1] in ("permutation_test", "monte_carlo_test")):
                # scipy.stats distributions / resampling helpers: draw from numpy's GLOBAL generator unless random_state is given
                out.append((n, "scipy_rvs", t))
            elif t.split(".")[-1] in ("train_test_split", "KFold", "ShuffleSplit", "shuffle") and "rng" not in t:
                out.append((n, "scipy_rvs", t))
            elif t.split(".")[-1] in RNG_DRAWS and isinstance(n.func, ast.Attribute) and "rng" in ast.unparse(n.func.value):
                out.append((n, "rng_draw", t))
            elif t in ("time.time", "datetime.now", "datetime.datetime.now", "datetime.utcnow", "uuid.uuid4", "os.getenv", "os.environ.get", "id", "hash"):
                out.append((n, "ambient", t))
            elif t in ("set", "frozenset") or isinstance(n.func, ast.Name) and n.func.id == "set":
                out.append((n, "set_ctor", t))
        elif isinstance(n, (ast.Set, ast.SetComp)):
            out.append((n, "set_ctor", "set-literal"))
    return out


def _parents(fn_node):
    par = {}
    for n in ast.walk(fn_node):
        for c in ast.iter_child_nodes(n):
            par[c] = n
    return par


ORDER_FREE = {"sorted", "len", "min", "max", "sum", "any", "all", "set", "frozenset"}
SET_METHODS = {"difference", "union", "intersection", "issubset", "issuperset", "symmetric_difference", "isdisjoint"}


def set_use_is_order_free(fi, node):
    """is the set built at `node` consumed only by order-insensitive operations (possibly after list())?"""
    par = _parents(fi.node)
    cur = node
    while True:
        p = par.get(cur)
        if p is None:
            return False, "no consumer"
        if isinstance(p, ast.Call):
            f = p.func
            name = f.id if isinstance(f, ast.Name) else f.attr if isinstance(f, ast.Attribute) else ""
            if name in ORDER_FREE and cur in p.args:
                return True, name
            if isinstance(f, ast.Attribute) and f.value is cur and f.attr in SET_METHODS:
                cur = p
                continue
            if cur in p.args and name in SET_METHODS:
                return True, name
            if name in ("list", "tuple") and cur in p.args:
                cur = p  # a list made from a set: still unordered, keep following
                continue
            return False, f"passed to {ast.unparse(f)}"
        if isinstance(p, (ast.BinOp,)) and isinstance(p.op, (ast.BitAnd, ast.BitOr, ast.Sub, ast.BitXor)):
            cur = p
            continue
        if isinstance(p, ast.Compare):
            return True, "membership/comparison"
        if isinstance(p, ast.Assign) and len(p.targets) == 1 and isinstance(p.targets[0], ast.Name):
            # follow the variable: every later use must be order free
            var = p.targets[0].id
            for u in ast.walk(fi.node):
                if isinstance(u, ast.Name) and u.id == var and isinstance(u.ctx, ast.Load):
                    ok, why = _use_ok(fi, u, par)
                    if not ok:
                        return False, f"{var}: {why}"
            return True, f"variable {var} used order-free"
        if isinstance(p, (ast.For, ast.comprehension)) and p.iter is cur:
            return False, "iterated"
        if isinstance(p, ast.keyword) or isinstance(p, ast.Starred):
            cur = p
            continue
        return False, f"flows into {type(p).__name__}"


def _use_ok(fi, u, par):
    p = par.get(u)
    if isinstance(p, ast.Subscript) and p.slice is u:
        # frame[list_of_names]: selection / assignment by LABEL -- values are aligned by name, not by position
        return True, "label-based column selection"
    if isinstance(p, ast.Call):
        name = p.func.id if isinstance(p.func, ast.Name) else p.func.attr if isinstance(p.func, ast.Attribute) else ""
        if name in ORDER_FREE or name in ("info", "debug", "warning"):
            return True, name
        return False, f"passed to {name}"
    if isinstance(p, ast.Compare):
        return True, "comparison"
    if isinstance(p, ast.FormattedValue):
        # only acceptable inside a raise or a log call (messages are not estimates)
        q = p
        while q is not None and not isinstance(q, (ast.Raise, ast.Call, ast.stmt)):
            q = par.get(q)
        while q is not None and not isinstance(q, ast.stmt):
            q = par.get(q)
        if isinstance(q, ast.Raise) or (isinstance(q, ast.Expr) and ast.unparse(q.value).startswith("LOG.")):
            return True, "message"
        return False, "formatted into a value"
    if isinstance(p, (ast.For, ast.comprehension)):
        return False, "iterated"
    return False, f"used in {type(p).__name__}"


def seed_expr_ok(fi, idx, expr):
    """does the seed expression derive from the seed setting (self.seed / model_settings['seed'] / a literal)?"""
    if expr is None:
        return False, "no seed given"
    t = ast.unparse(expr)
    if isinstance(expr, ast.Constant) and expr.value is not None:
        return True, "literal seed"
    if t in ("self.seed", "seed"):
        # self.seed must be assigned from the settings only
        if t == "self.seed" and fi.cls is not None:
            names = {fi.cls.name} | {c.name for m, c in source.mro(fi.mod, fi.cls)}
            vals = []
            for cn in names:
                vals += [ast.unparse(v) for f2, v in effects._attr_single_assign(idx, cn, "seed")]
            ok = bool(vals) and all(v.startswith("model_settings.get('seed'") for v in vals)
            return ok, f"self.seed := {vals}"
        return True, t
    if t.startswith("np.random.default_rng(") and "seed" in t:
        return True, t
    if "self.rng" in t or "rng" == t:
        return True, t
    return False, t


@unit("C12", "effects", fns=ENTRIES)
def effects_unit(h):
    idx = effects.Index()
    n_sites = 0
    seen = set()
    for entry in ENTRIES:
        for p in effects.find_paths(idx, entry, effect_sites):
            fi = idx.fns[p.chain[-1]]
            key = (fi.qual, p.site.lineno, p.kind)
            if key in seen:
                continue
            seen.add(key)
            n_sites += 1
            where = f"{'.'.join(fi.qual.split('.')[-2:])}:{p.detail}@{fi.node.name}"
            tag = f"{where}#{len([k for k in seen if k[0] == fi.qual and k[2] == p.kind])}"
            call = p.site
            kws = {k.arg: k.value for k in call.keywords} if isinstance(call, ast.Call) else {}
            if p.kind == "rng_ctor":
                seed = kws.get("seed") or (call.args[0] if call.args else None)
                ok, why = seed_expr_ok(fi, idx, seed)
                h.ensures(f"seeded[{tag}]", ok, why=f"generator constructed with seed expression: {why}")
            elif p.kind == "df_sample":
                ok, why = seed_expr_ok(fi, idx, kws.get("random_state"))
                h.ensures(f"seeded[{tag}]", ok, why=f"DataFrame.sample random_state: {why}")
            elif p.kind == "scipy_bootstrap":
                rs = kws.get("random_state") or kws.get("rng")
                ok, why = seed_expr_ok(fi, idx, rs)
                h.ensures(f"seeded[{tag}]", ok, why=f"scipy.stats.bootstrap draws from numpy's GLOBAL generator unless random_state/rng is given: {why}", replay=lambda ev: {"target": "verif_replays:gaussian_twice", "args": [], "check": "result['identical']"})
            elif p.kind == "scipy_rvs":
                rs = kws.get("random_state") or kws.get("rng") or kws.get("seed")
                ok, why = seed_expr_ok(fi, idx, rs)
                h.ensures(f"seeded[{tag}]", ok, why=f"{p.detail} draws from numpy's GLOBAL generator unless random_state is given: {why}", replay=lambda ev: {"target": "verif_replays:repeat_bootstrap_run_replay", "args": [], "check": "result['exc'] is None and result['ok']"})
            elif p.kind == "global_rng":
                h.ensures(f"no_global_rng[{tag}]", False, why="call into the process-global random generator")
            elif p.kind == "rng_draw":
                recv = ast.unparse(call.func.value)
                h.ensures(f"draw_from_model_generator[{tag}]", recv == "self.rng", why=recv)
            elif p.kind == "ambient":
                h.ensures(f"no_ambient_input[{tag}]", False, why=f"{p.detail} read at call time")
            elif p.kind == "set_ctor":
                ok, why = set_use_is_order_free(fi, p.site)
                h.ensures(f"set_order_not_observable[{tag}]", ok, why=why, replay=lambda ev: {"target": "verif_replays:hash_seed_replay", "args": [], "check": "result['exc'] is None and result['ok']"})
    h.ensures("effect_inventory_not_empty", n_sites >= 5, why=f"{n_sites} effect sites reachable")
    # the bootstrap generator restarts from the seed on every run: self.rng is created in __init__ only, and
    # get_estimates creates a fresh model object on every call
    rng_assign = [(fi.qual.split(".")[-1], ast.unparse(v)) for fi, v in effects._attr_single_assign(idx, "BootstrapElectionModel", "rng")]
    h.ensures("model_generator_created_once_per_model_from_seed", rng_assign == [("__init__", "np.random.default_rng(seed=self.seed)")], why=str(rng_assign))


@unit("C12", "history_independence", fns=ENTRIES)
def history(h):
    idx = effects.Index()
    fs = source.load(ENTRIES[0])
    # (1) parameters with a mutable default are never mutated (a mutated default leaks into later calls)
    for q, fi in idx.fns.items():
        for p, d in fi.defaults.items():
            if isinstance(d, (ast.Dict, ast.List, ast.Set)) or (isinstance(d, ast.Call) and ast.unparse(d.func) in ("dict", "list", "set", "defaultdict")):
                muts = []
                for n in ast.walk(fi.node):
                    if isinstance(n, ast.Call) and isinstance(n.func, ast.Attribute) and isinstance(n.func.value, ast.Name) and n.func.value.id == p and n.func.attr in ("setdefault", "update", "append", "extend", "pop", "clear", "insert", "remove", "popitem", "add", "sort", "reverse"):
                        muts.append(f"{p}.{n.func.attr}@{n.lineno}")
                    if isinstance(n, (ast.Assign, ast.AugAssign)):
                        tg = n.targets if isinstance(n, ast.Assign) else [n.target]
                        for t in tg:
                            if isinstance(t, ast.Subscript) and isinstance(t.value, ast.Name) and t.value.id == p:
                                muts.append(f"{p}[...]=@{n.lineno}")
                            if isinstance(n, ast.AugAssign) and isinstance(t, ast.Name) and t.id == p:
                                muts.append(f"{p} op= @{n.lineno}")
                    if isinstance(n, ast.Delete):
                        for t in n.targets:
                            if isinstance(t, ast.Subscript) and isinstance(t.value, ast.Name) and t.value.id == p:
                                muts.append(f"del {p}[...]@{n.lineno}")
                h.ensures(f"mutable_default_not_mutated[{'.'.join(q.split('.')[-2:])}({p})]", not muts, why=str(muts), replay=lambda ev: {"target": "verif_replays:mutable_defaults_replay", "args": [], "check": "result['exc'] is None and result['ok']"})
    # (1b) no function of the package writes into a MODULE-LEVEL object (a cache, a registry, a counter): such state
    # survives the run and makes the next run with equal arguments depend on the previous one
    reach, todo = set(), [idx.fns[e] for e in ENTRIES if e in idx.fns]
    while todo:
        f0 = todo.pop()
        if f0.qual in reach:
            continue
        reach.add(f0.qual)
        for call in [n for n in ast.walk(f0.node) if isinstance(n, ast.Call)]:
            for callee in idx.resolve(call, f0):
                if callee.qual not in reach:
                    todo.append(callee)
    h.ensures("call_graph_from_the_entry_points_not_empty", len(reach) >= 40, why=f"{len(reach)} functions reachable (by-name resolution, over-approximate)")
    for q, fi in sorted(idx.fns.items()):
        if q not in reach:
            continue  # e.g. logger.initialize_logging (command line set-up) configures module-level state by design
        mod_names = set(getattr(fi.mod, "assigns", {}).keys())
        local = set(fi.params)
        for n in ast.walk(fi.node):
            if isinstance(n, (ast.Assign, ast.AnnAssign, ast.AugAssign, ast.For, ast.With, ast.comprehension)):
                tg = n.targets if isinstance(n, ast.Assign) else [getattr(n, "target", None)] if not isinstance(n, ast.With) else [i.optional_vars for i in n.items]
                for t in tg:
                    for m_ in ast.walk(t) if t is not None else []:
                        if isinstance(m_, ast.Name) and isinstance(m_.ctx, ast.Store):
                            local.add(m_.id)
        declared_global = {g for n in ast.walk(fi.node) if isinstance(n, ast.Global) for g in n.names}
        writes = []
        for n in ast.walk(fi.node):
            if isinstance(n, (ast.Assign, ast.AugAssign)):
                tg = n.targets if isinstance(n, ast.Assign) else [n.target]
                for t in tg:
                    base = t
                    while isinstance(base, (ast.Subscript, ast.Attribute)):
                        base = base.value
                    if isinstance(base, ast.Name) and base.id in mod_names and (base is not t or base.id in declared_global) and (base.id not in local or base.id in declared_global):
                        writes.append(f"{ast.unparse(t)} = ... @{n.lineno}")
            if isinstance(n, ast.Call) and isinstance(n.func, ast.Attribute) and isinstance(n.func.value, ast.Name) and n.func.value.id in mod_names and n.func.value.id not in local and n.func.attr in ("setdefault", "update", "append", "extend", "pop", "clear", "insert", "remove", "popitem", "add", "sort", "reverse"):
                writes.append(f"{n.func.value.id}.{n.func.attr}(...) @{n.lineno}")
        if writes or declared_global:
            h.ensures(f"no_module_level_state_written[{'.'.join(q.split('.')[-2:])}]", not writes and not declared_global, why=str(writes or sorted(declared_global)), replay=lambda ev: {"target": "verif_replays:repeat_bootstrap_run_replay", "args": [], "check": "result['exc'] is None and result['ok']"})
    h.ensures("module_level_state_scan_covers_the_package", len(idx.fns) >= 100, why=f"{len(idx.fns)} functions in the package")
    # (2) the client's fields: in get_estimates every field is written before it is read
    loads, stores = {}, {}
    for n in ast.walk(fs.node):
        if isinstance(n, ast.Attribute) and isinstance(n.value, ast.Name) and n.value.id == "self":
            d = stores if isinstance(n.ctx, ast.Store) else loads
            d.setdefault(n.attr, []).append((n.lineno, n.col_offset))
    methods = {m.name for m in fs.cls.body if isinstance(m, ast.FunctionDef)}
    for attr, ls in sorted(loads.items()):
        if attr in methods:
            continue
        first_load = min(ls)
        first_store = min(stores[attr]) if attr in stores else None
        write_only_dict = attr.startswith("all_conformalization_data_")
        ok = (first_store is not None and first_store < first_load) or write_only_dict
        h.ensures(f"client_field_written_before_read[{attr}]", ok, why=f"first read {first_load}, first write {first_store}")
    # (3) a fresh model (and results handler) per run
    h.ensures("fresh_model_and_results_handler_per_run", "model" in stores and "results_handler" in stores)
    # (4) neither entry point ACCUMULATES into a field of the client: a field that is updated in place (item store, augmented
    # assignment, mutating method) must have been assigned afresh earlier in the same call -- otherwise what a call returns
    # depends on the calls made before it on the same client
    MUT = ("setdefault", "update", "append", "extend", "pop", "clear", "insert", "remove", "popitem", "add", "sort", "reverse")
    rp_hist = lambda ev: {"target": "verif_replays:national_summary_history_replay", "args": [], "check": "result['exc'] is None and result['ok']"}  # noqa: E731
    for q in ENTRIES:
        fe = source.load(q)
        fresh = {}
        for n in ast.walk(fe.node):
            if isinstance(n, ast.Attribute) and isinstance(n.value, ast.Name) and n.value.id == "self" and isinstance(n.ctx, ast.Store):
                fresh.setdefault(n.attr, []).append(n.lineno)
        acc = []
        for n in ast.walk(fe.node):
            tgt = None
            if isinstance(n, ast.Subscript) and isinstance(n.ctx, ast.Store):
                tgt = n.value
            elif isinstance(n, ast.AugAssign):
                tgt = n.target.value if isinstance(n.target, ast.Subscript) else n.target
            elif isinstance(n, ast.Call) and isinstance(n.func, ast.Attribute) and n.func.attr in MUT:
                tgt = n.func.value
            while isinstance(tgt, ast.Subscript):
                tgt = tgt.value
            if isinstance(tgt, ast.Attribute) and isinstance(tgt.value, ast.Name) and tgt.value.id == "self":
                attr = tgt.attr
                if attr.startswith("all_conformalization_data_"):
                    continue  # (write-only collections of the conformalization data, never read back by an estimate)
                if not any(l_ < n.lineno for l_ in fresh.get(attr, [])):
                    acc.append(f"self.{attr} updated in place at line {n.lineno} without a fresh assignment earlier in {q.split('.')[-1]}")
        h.ensures(f"client_fields_are_not_accumulated_across_calls[{q.split('.')[-1]}]", not acc, why=str(acc), replay=rp_hist)

# "before or after other runs": a run must not modify the tables its caller passed in (the next run would see them changed) --
# the frame condition of CombinedDataHandler.__init__ (contracts/C09.py)
import contracts.C09 as _c09  # noqa: E402,F401
from pyvc.api import UNITS as _UNITS  # noqa: E402

for _u in list(_UNITS.get("C09", [])):
    if _u["name"].startswith("init.") and not any(x["name"] == "inputs_not_modified." + _u["name"] for x in _UNITS.get("C12", [])):
        _UNITS.setdefault("C12", []).append(dict(_u, prop="C12", name="inputs_not_modified." + _u["name"]))
