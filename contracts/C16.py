"""C16 -- fitting and prediction design matrices are aligned and identifiable (DESIGN section 0.4 / 4, C16).

Proved (units `featurizer.<configuration>`): the REAL Featurizer (prepare_data with _expand_fixed_effects, _sort_features,
_get_categories_for_fe; filter_to_active_features; generate_holdout_data) executed symbolically on ONE frame of
ARBITRARILY MANY units with an arbitrary assignment of level names, reporting flags, categories and feature values.
The column set of the matrices depends on the data; it becomes concrete on every path because the level names range
over a finite universe declared by the harness (3 names for the first fixed effect, 2 for the second, plus 'other') and
the interpreter branches on "does level v occur / is it observed in the fitting rows" (an obligation checks that the
universe covers the column).  Per path every clause of the statement is an obligation: same columns in the same order
in both matrices (intercept first, baseline margin terms next), exactly one observed level per effect absorbed, every
fitted dummy non-constant on the fitting rows, fitted-or-absorbed <=> observed in fitting, level indicator for seen
levels and the equal share 1/(k+1) for unseen ones, centring over all units, 'other' pooling, per-state copies exactly
for the states with reporting units.  The bound of this proof is the NUMBER OF DISTINCT LEVEL NAMES per effect (a
configuration bound, like the list of aggregates elsewhere), not the number of units.
Also proved (units re-used from C03/C05): the call sites hand the right rows to the right matrix, and the no-covariate
configuration.  Bounded companion (kept, not counted as proved): bounded/c16_featurizer.py runs the real class on real
pandas over an exhaustively enumerated small scope, including name-prefix collisions of _get_categories_for_fe."""
import contracts.C03 as C03
from pyvc.api import UNITS

LEVEL = "proof"
EXPLANATION = "the real Featurizer executed symbolically for any number of units (level names from a finite universe: branching makes the data-dependent column set concrete per path); call-site alignment; a bounded companion on real pandas is kept"
ASSUMPTIONS = [
    "configuration bound of the proof: <= 2 fixed effects, 3 + 2 distinct level names (plus 'other'), the listed selected-level lists / feature lists / two separate-model states; the number of units and the assignment are arbitrary",
    "pandas contracts used: get_dummies(frame, columns, prefix) = one 0/1 column per occurring value, sorted; DataFrame.mean/sum(axis) column-wise; .loc[mask, cols] = c; astype(float); precondition: at least one fitting row (reporting & expected) -- the reporting-unit gate of C14",
    "scale_features=True (division by the standard deviation) is not used by any estimator and is not covered",
    "the call-site obligations (slicing) use the Featurizer contract 'row- and order-preserving', which the featurizer units prove (rows.both_matrices_keep_the_rows_and_their_order)",
    "bounded companion: <= 2 fixed effects x 3 levels, <= 4 (quick) / 5 (thorough) units, all assignments",
]
BOUNDED = [
    {"name": "design_matrices", "script": "c16_featurizer.py", "timeout": 3000},
    # differential test of the theory entries the featurizer proof rests on (symbolic result evaluated on concrete frames
    # vs. the real pandas run): a test of assumptions, not a proof
    {"name": "theory_conformance_featurizer", "script": "conformance_featurizer.py", "python": "vt", "tiers": ["quick"], "args": ["--n", "4"], "timeout": 1200},
    {"name": "theory_conformance_featurizer", "script": "conformance_featurizer.py", "python": "vt", "tiers": ["thorough"], "args": ["--n", "40"], "timeout": 3000},
]

for _u in list(UNITS.get("C03", [])):
    if _u["name"] in ("nonparametric.unit_intervals", "unit_predictions.floor"):
        UNITS.setdefault("C16", []).append(dict(_u, prop="C16", name="call_sites." + _u["name"]))
for _u in list(UNITS.get("C05", [])):
    UNITS.setdefault("C16", []).append(dict(_u, prop="C16", name="no_covariates." + _u["name"]))


# ---- the REAL Featurizer executed symbolically: any number of units, a finite universe of level names ------------------
import itertools  # noqa: E402

import z3  # noqa: E402

from pyvc import frames  # noqa: E402
from pyvc.api import unit  # noqa: E402
from pyvc.values import V, real  # noqa: E402

FEATQ = "elexmodel.handlers.data.Featurizer.Featurizer"
LEVELS = {"fe1": ["a", "b", "c"], "fe2": ["x", "y"]}


def _world(h, fes, features, states=()):
    """ONE frame of arbitrarily many units: postal_code, reporting (0/1), unit_category, continuous features, and one
    column per fixed effect whose values range over a FINITE set of level names (any assignment of levels to units)"""
    root, fips = frames.unit_universe("units")
    h.syms["fips_units"] = fips
    h.ctx.assume(z3.And(*root.facts()))
    u = root.u
    I, R_, S = z3.IntSort(), z3.RealSort(), z3.StringSort()

    def fn(name, sort):
        f = z3.Function(name, I, sort)
        h.syms[name] = f
        return f

    cols = {"postal_code": fn("postal_code", S)(u), "geographic_unit_fips": fips(u), "reporting": fn("reporting", I)(u), "unit_category": fn("unit_category", S)(u)}
    h.forall_rows(root, z3.Or(cols["reporting"] == 0, cols["reporting"] == 1))
    for f_ in features:
        cols[f_] = fn(f_, R_)(u)
    universe = {}
    for fe in fes:
        cols[fe] = fn(fe, S)(u)
        h.forall_rows(root, z3.Or(*[cols[fe] == z3.StringVal(v) for v in LEVELS[fe]]))
        universe[fe] = list(LEVELS[fe])
    df = frames.base_frame(root, z3.BoolVal(True), cols, "geographic_unit_fips")
    h.interp.level_universe = universe
    # the reporting-unit gate (C14) guarantees fitting rows: some unit is reporting and expected
    f0 = z3.Int("some_fitting_row")
    h.syms["some_fitting_row"] = f0
    at = lambda t_: z3.substitute(t_, (u, f0))  # noqa: E731
    h.interp.ghost_rows = [f0]
    h.requires("some_fitting_row", z3.And(f0 >= 0, f0 < root.n, at(cols["reporting"]) == 1, at(cols["unit_category"]) == z3.StringVal("expected")))
    return root, df, cols


def _featurizer_unit(name, fes, params, features, states=(), add_intercept=True, center=True, present=None):
    fixed_effects = {fe: params[fe] for fe in fes} if params else list(fes)

    @unit("C16", f"featurizer.{name}", fns=[f"{FEATQ}.prepare_data", f"{FEATQ}._expand_fixed_effects", f"{FEATQ}._sort_features", f"{FEATQ}._get_categories_for_fe", f"{FEATQ}.filter_to_active_features", f"{FEATQ}.generate_holdout_data"])
    def feat(h):
        """the real Featurizer on a frame of ANY number of units (levels range over a finite universe of names)"""
        from pyvc import source
        from pyvc.interp import ClassRef

        root, df, cols = _world(h, fes, features, states)
        if present is not None:
            # case split (for parallelism only): exactly the level names in `present` occur in the first fixed effect; the
            # cases are registered for EVERY non-empty subset of its universe, so together they cover every frame
            fe0 = fes[0]
            for v in LEVELS[fe0]:
                if v in present:
                    w = z3.Int(f"row_with_{fe0}_{v}")
                    h.requires(f"present.{v}", z3.And(w >= 0, w < root.n, z3.substitute(cols[fe0], (root.u, w)) == z3.StringVal(v)))
                    h.interp.ghost_rows = list(h.interp.ghost_rows) + [w]
                else:
                    h.forall_rows(root, cols[fe0] != z3.StringVal(v))
        h.default_replay = lambda ev: {"target": "verif_replays:featurizer_battery_replay", "args": [list(fes), params, list(features), list(states)], "check": "result['exc'] is None and result['ok']"}
        parts = FEATQ.split(".")
        mod = source.module(".".join(parts[:-1]))
        fz = ClassRef(mod, mod.classes[parts[-1]]).instantiate(h.interp, [list(features), fixed_effects], {"states_for_separate_model": list(states)})
        kind, x_all = h.call_method(fz, "prepare_data", df, center_features=center, scale_features=False, add_intercept=add_intercept)
        if kind == "raise":
            return h.fail("prepare_data.no_raise", f"raised {x_all}")
        A = fz.attrs
        complete, active = list(A["complete_features"]), list(A["active_features"])
        expanded, active_fe = list(A["expanded_fixed_effects"]), list(A["active_fixed_effects"])
        dropped = list(A.get("intercept_column", [])) if fes and add_intercept else []
        u = root.u
        facts = z3.And(*root.facts())
        fitting = z3.And(cols["reporting"] == 1, cols["unit_category"] == z3.StringVal("expected"))

        def pooled(fe):  # the level after pooling the non-selected ones
            if params and "all" not in params[fe] and params[fe] != "all":
                return z3.If(z3.Or(*[cols[fe] == z3.StringVal(v) for v in params[fe]]), cols[fe], z3.StringVal("other"))
            return cols[fe]

        def rank(name):
            return 0 if name.startswith("intercept") else 1 if name.startswith("baseline_normalized_margin") else 2

        # ---- A/B: column order, identical in the fitting and the prediction matrix
        h.ensures("columns.prepared_matrix_has_exactly_the_complete_features", list(x_all.cols) == complete)
        h.ensures("columns.intercept_first_then_baseline_margin_terms", all(rank(a) <= rank(b) for a, b in zip(complete, complete[1:])) and all(rank(a) <= rank(b) for a, b in zip(active, active[1:])) and (not add_intercept or (complete[:1] == ["intercept"] and active[:1] == ["intercept"])), why=str(complete))
        h.ensures("columns.active_is_a_subsequence_of_complete", [c for c in complete if c in active] == active)
        kind, fit = h.call_method(fz, "filter_to_active_features", x_all)
        kind2, hold = h.call_method(fz, "generate_holdout_data", x_all)
        if kind == "raise" or kind2 == "raise":
            return h.fail("matrices.no_raise", f"raised {fit if kind == 'raise' else hold}")
        h.ensures("columns.fit_and_prediction_matrices_have_the_same_columns_in_the_same_order", list(fit.cols) == active and list(hold.cols) == active, why=f"{list(fit.cols)} / {list(hold.cols)} / {active}")
        h.ensures("rows.both_matrices_keep_the_rows_and_their_order", frames.same_rows(fit.axis, df.axis) and frames.same_rows(hold.axis, df.axis))
        # ---- per fixed effect
        wit = h.interp.__dict__.get("sum_witnesses", {})
        for fe in fes:
            cands = sorted(set(LEVELS[fe]) | {"other"})
            lv = pooled(fe)
            mine = [c for c in active_fe if c.startswith(fe + "_")]
            mine_dropped = [c for c in dropped if c.startswith(fe + "_")]
            k = len(mine)
            if add_intercept:
                h.ensures(f"{fe}.exactly_one_level_absorbed_by_the_intercept", len(mine_dropped) == 1 and mine_dropped[0] not in mine and mine_dropped[0] not in complete)
            seen = set(mine) | set(mine_dropped)
            h.ensures(f"{fe}.dummy_columns_only_for_selected_levels_or_other", all(c[len(fe) + 1 :] in cands and (not params or "all" in params[fe] or c[len(fe) + 1 :] in list(params[fe]) + ["other"]) for c in expanded if c.startswith(fe + "_")))
            for v in cands:
                name = f"{fe}_{v}"
                is_v = lv == z3.StringVal(v)
                # observed in the fitting rows  <=>  fitted column or the absorbed one
                h.ensures(f"{fe}.{v}.a_level_observed_in_fitting_is_fitted_or_absorbed", z3.Implies(z3.And(facts, fitting, is_v), z3.BoolVal(name in seen)))
                if name in seen:
                    ws = [w for (axn, cn), (w, d) in wit.items() if cn == name]
                    some = z3.Or(*[z3.And(w >= 0, w < root.n, z3.substitute(z3.And(fitting, is_v), (u, w))) for w in ws]) if ws else z3.BoolVal(False)
                    h.ensures(f"{fe}.{v}.a_fitted_or_absorbed_level_is_observed_in_fitting", some)
                if name in mine:
                    # non-constant on the fitting rows: a fitting row with 1 (above) and one with 0 (a row of the absorbed level)
                    d0 = mine_dropped[0][len(fe) + 1 :] if mine_dropped else None
                    if d0 is not None:
                        ws0 = [w for (axn, cn), (w, d) in wit.items() if cn == mine_dropped[0]]
                        zero_row = z3.Or(*[z3.And(w >= 0, w < root.n, z3.substitute(z3.And(fitting, z3.Not(is_v)), (u, w))) for w in ws0]) if ws0 else z3.BoolVal(False)
                        h.ensures(f"{fe}.{v}.fitted_column_is_not_constant_on_the_fitting_rows", zero_row)
                    fc, hc = fit.col(name), hold.col(name)
                    h.ensures(f"{fe}.{v}.fit_matrix_holds_the_level_indicator", z3.Implies(facts, real(fc.t) == z3.If(is_v, z3.RealVal(1), z3.RealVal(0))))
                    seen_level = z3.Or(*[lv == z3.StringVal(c[len(fe) + 1 :]) for c in seen])
                    want = z3.If(seen_level, z3.If(is_v, z3.RealVal(1), z3.RealVal(0)), z3.RealVal(1) / (k + 1))
                    h.ensures(f"{fe}.{v}.prediction_matrix_indicator_or_equal_share", z3.Implies(facts, z3.And(real(hc.t) == want, z3.Not(hc.nan) if hc.nan is not None else z3.BoolVal(True))))
        # ---- continuous features and the intercept
        from pyvc import sums

        for f_ in features:
            tot, _d = sums.formal_sum_dom(h.ctx, root, z3.BoolVal(True), cols[f_])
            want = cols[f_] - tot / z3.ToReal(root.n) if center and not states else None
            if want is not None:
                for nm, m in (("fit", fit), ("prediction", hold)):
                    h.ensures(f"{f_}.{nm}_matrix_holds_the_feature_centred_over_all_units", z3.Implies(facts, real(m.col(f_).t) == want))
        # ---- what the matrices depend on: only the columns the Featurizer is entitled to read (C10 relies on this)
        allowed = {"postal_code", "reporting", "unit_category"} | set(features) | set(fes)
        inputs = {f_.name() for f_ in (c_.decl() for c_ in [cols[k] for k in cols])}
        defs_ = {}
        for d_ in h.ctx.__dict__.get("_sums", []):
            hd = d_.sym.decl().name() if z3.is_app(d_.sym) and d_.sym.decl().kind() == z3.Z3_OP_UNINTERPRETED else None
            if hd:
                defs_.setdefault(hd, []).extend([d_.dom, d_.summand])
        for rec in h.ctx.__dict__.get("_anyall", []):
            defs_.setdefault(rec["b"].decl().name(), []).append(rec["body"](root.u))
        read, todo, seen_ = set(), [m_.col(c_).t for m_ in (fit, hold) for c_ in m_.cols], set()
        while todo:
            x = todo.pop()
            if x.get_id() in seen_:
                continue
            seen_.add(x.get_id())
            if z3.is_app(x):
                if x.decl().kind() == z3.Z3_OP_UNINTERPRETED:
                    nm_ = x.decl().name()
                    if nm_ in inputs:
                        read.add(nm_)
                    todo.extend(defs_.get(nm_, []))
                todo.extend(x.children())
        h.ensures("matrices_depend_only_on_feature_fixed_effect_state_reporting_and_category_columns", read <= allowed, why=str(sorted(read - allowed)))
        # ---- per-state feature copies: only (and exactly) for the states that have reporting units
        tests = h.interp.__dict__.get("unique_tests", [])
        for st in states:
            rep_in_state = z3.And(cols["reporting"] == 1, cols["postal_code"] == z3.StringVal(st))
            for f_ in features:
                name = f"{f_}_{st}"
                made = name in complete
                h.ensures(f"{name}.a_state_with_a_reporting_unit_gets_its_copy", z3.Implies(z3.And(facts, rep_in_state), z3.BoolVal(made)))
                if made:
                    ws = [r.meta[1]["witness"] for (x, r) in tests if x == st]
                    some = z3.Or(*[z3.And(w >= 0, w < root.n, z3.substitute(rep_in_state, (u, w))) for w in ws]) if ws else z3.BoolVal(False)
                    h.ensures(f"{name}.a_copy_exists_only_for_a_state_with_a_reporting_unit", some)
                    want = z3.If(cols["postal_code"] == z3.StringVal(st), cols[f_], z3.RealVal(0))
                    h.ensures(f"{name}.copy_holds_the_feature_inside_the_state_and_zero_outside", z3.Implies(facts, z3.And(real(fit.col(name).t) == want, real(hold.col(name).t) == want)), replay=h.default_replay)
        if add_intercept and not states:
            h.ensures("intercept.is_one_everywhere", z3.Implies(facts, z3.And(real(fit.col("intercept").t) == 1, real(hold.col("intercept").t) == 1)))

    return feat


_featurizer_unit("one_effect", ["fe1"], None, ["f1"])
_featurizer_unit("one_effect.no_features", ["fe1"], None, [])
_featurizer_unit("one_effect.selected_levels", ["fe1"], {"fe1": ["a"]}, ["f1"])
_featurizer_unit("one_effect.selected_levels_2", ["fe1"], {"fe1": ["b", "c"]}, [])
for _r in range(1, len(LEVELS["fe1"]) + 1):
    for _sub in itertools.combinations(LEVELS["fe1"], _r):
        _featurizer_unit("two_effects.first_effect_levels_" + "".join(_sub), ["fe1", "fe2"], None, ["baseline_normalized_margin", "f1"], present=_sub)
_featurizer_unit("no_effects", [], None, ["f1", "baseline_normalized_margin"])
_featurizer_unit("separate_states", [], None, ["f1"], states=("AA", "BB"))
# the bootstrap estimator's use: per-state copies of the baseline margin term must sort with the margin terms (the solver is
# told not to regularise the first 1 + #states columns), ahead of the other covariates and their copies
_featurizer_unit("separate_states.with_the_margin_term", [], None, ["baseline_normalized_margin", "f1"], states=("AA",))
