"""C16 -- fitting and prediction design matrices are aligned and identifiable (DESIGN section 4, C16).

prepare_data computes its column set from the data (get_dummies names, comprehensions over df.columns): the set of
program variables depends on the input, which puts the function outside pyvc's executable subset; re-modelling it
would be a hand-written look-alike.  The clauses about the CONTENT of the matrices are therefore checked by an
exhaustive-small-scope bounded stand-in on the real class and are NOT counted as proved.  What IS proved (units
re-used from C03/C05): the call sites hand the right rows to the right matrix (training / calibration /
non-reporting slices are aligned with responses and weights), and in the no-covariate configuration the real
Featurizer body is executed symbolically (design = intercept only)."""
import contracts.C03 as C03
from pyvc.api import UNITS

LEVEL = "exploration"
EXPLANATION = "bounded stand-in (exploration) for the matrix contents + proved call-site alignment obligations"
ASSUMPTIONS = [
    "bounded scope: <= 2 fixed effects x 3 levels, <= 4 (quick) / 5 (thorough) units, all assignments; one continuous feature pair; states_for_separate_model with 2 states",
    "the proved obligations (call-site slicing) use the Featurizer contract 'row- and order-preserving'",
]
BOUNDED = [{"name": "design_matrices", "script": "c16_featurizer.py", "timeout": 3000}]

for _u in list(UNITS.get("C03", [])):
    if _u["name"] in ("nonparametric.unit_intervals", "unit_predictions.floor"):
        UNITS.setdefault("C16", []).append(dict(_u, prop="C16", name="call_sites." + _u["name"]))
for _u in list(UNITS.get("C05", [])):
    UNITS.setdefault("C16", []).append(dict(_u, prop="C16", name="no_covariates." + _u["name"]))
