"""C11 -- an unexpected unit only adds its own votes (DESIGN section 4, C11).

Two-state verification (self-composition): the REAL functions are executed twice on two feeds that differ by one
unit x that is not in the baseline; postconditions relate the two results."""
import z3

import contracts.C06 as C06  # noqa: F401  (bootstrap totality clause C11.* lives with the aggregate units)
import contracts.C09 as C09
from contracts.common import AGGS, CATS, CDH, Three, World, symlist
from pyvc import frames, sums, theory_np
from pyvc.api import UNITS, unit
from pyvc.values import V, tid

LEVEL = "proof"
BASE = "elexmodel.models.BaseElectionModel.BaseElectionModel"
NP = "elexmodel.models.NonparametricElectionModel.NonparametricElectionModel"
ASSUMPTIONS = [
    "A-REAL; V1 (unique ids); V8: unit ids have the shape their geographic_unit_type implies (<county>[_...] or <district>_<county>[_...], components free of '_')",
    "two-state reasoning: both executions share every input symbol except the membership of the added unit in the feed",
    "bootstrap estimator: the new-level residual case (an unexpected unit from a state absent from the baseline changes the number of contests) is a recorded known finding checked by the bounded companion, not proved",
]
BOUNDED = [{"name": "bootstrap_new_state", "script": "c11_bootstrap.py", "timeout": 1200}]

for _u in list(UNITS.get("C06", [])):
    if _u["name"].startswith("aggregate_predictions."):
        UNITS.setdefault("C11", []).append(dict(_u, prop="C11", name="bootstrap_totality." + _u["name"]))


def _id_parts(h, n_parts, district):
    parts = []
    for i in range(n_parts):
        p = z3.String(f"id_part{i}")
        theory_np.SEPFREE[tid(p)] = {"_"}
        parts.append(p)
    pieces = []
    for i, p in enumerate(parts):
        if i:
            pieces.append(z3.StringVal("_"))
        pieces.append(p)
    return parts, (pieces[0] if len(pieces) == 1 else z3.Concat(*pieces))


def _shape_unit(n_parts, district):
    @unit("C11", f"unexpected_units.county_and_district_from_id[{n_parts}parts,{'district' if district else 'county'}]", fns=[f"{CDH}._get_unexpected_units", f"{CDH}._get_county_fips_from_geographic_unit_fips", f"{CDH}._get_district_from_geographic_unit_fips"])
    def shape(h):
        parts, idterm = _id_parts(h, n_parts, district)
        w = World(h, ["turnout"])
        u = w.root.u
        # every feed row outside the baseline has an id of the given shape (V8); the generic one is `idterm`
        h.ctx.assume(z3.Implies(z3.And(w.inFeed(u), z3.Not(w.inData(u))), w.fips(u) == idterm))
        theory_np.ALIAS[tid(w.fips(u))] = idterm  # (apply() is only reached for rows of the unexpected frame)
        # apply() sees one id at a time: hand it the shaped term
        ut = "precinct-district" if district else "precinct"
        self = w.handler(geographic_unit_type=ut)
        aggs = ["postal_code", "county_fips", "district", "unit"] if district else ["postal_code", "county_fips", "unit"]

        # Series.apply(f): f on the generic element; the id column of unexpected rows IS idterm
        class Col:
            pass

        rp = lambda ev: {"target": "verif_replays:unexpected_id_replay", "args": [[str(ev(p)) for p in parts], bool(district)], "check": "result['exc'] is None and result['ok']"}  # noqa: E731
        h.default_replay = rp
        kind, res = h.call_method(self, "_get_unexpected_units", aggs)
        if kind == "raise":
            return h.fail("no_raise", f"raised {res}", replay=rp)
        rows = z3.And(*res.axis.facts())
        want_county = parts[1] if district else parts[0]
        c = res.col("county_fips")
        h.ensures("county_is_the_county_component_of_the_id", z3.Implies(rows, z3.And(c.t == want_county, z3.Not(c.nan) if c.nan is not None else True)))
        if district:
            d = res.col("district")
            h.ensures("district_is_the_first_component_of_the_id", z3.Implies(rows, z3.And(d.t == parts[0], z3.Not(d.nan) if d.nan is not None else True)))
        h.ensures("category_unexpected", z3.Implies(rows, res.col("unit_category").t == z3.StringVal("unexpected")))
        h.ensures("rows_are_feed_units_outside_the_baseline", z3.Implies(z3.And(*w.root.facts()), res.axis.present() == z3.And(w.inFeed(u), z3.Not(w.inData(u)))), replay=rp)

    return shape


for _n, _d in ((1, False), (2, False), (2, True), (3, True)):
    _shape_unit(_n, _d)


@unit("C11", "get_units.delta", fns=[f"{CDH}.get_units"])
def get_units_delta(h):
    """feed' = feed + {x}, x not in the baseline: the modelled frames are unchanged, the third frame gains exactly x"""
    w = World(h, ["turnout"])
    u = w.root.u
    x0 = z3.Int("x_new_unit")
    h.syms["x_new_unit"] = x0
    h.requires("x_is_new", x0 >= 0, x0 < w.root.n, z3.Not(w.inData(x0)), z3.Not(w.inFeed(x0)))
    w2 = World.__new__(World)
    w2.__dict__.update(w.__dict__)
    inFeed2 = z3.Or(w.inFeed(u), u == x0)
    w2.current = frames.base_frame(w.root, inFeed2, {k: c.t for k, c in w.current.cols.items()}, "geographic_unit_fips")
    thr, lo, hi, zt = h.real("thr"), h.real("tf_lower"), h.real("tf_upper"), h.real("z_threshold")
    fit_m, fit_t = h.bool("fit_margin_outlier_model"), h.bool("fit_turnout_outlier_model")
    ublk, pblk = symlist(h, "unit_blocklist"), symlist(h, "postal_code_blocklist")
    flagT = z3.Function("flag_turnout", z3.IntSort(), z3.BoolSort())
    flagM = z3.Function("flag_margin", z3.IntSort(), z3.BoolSort())
    h.contracts[f"{CDH}._fit_outlier_detection_model"] = C09.outlier_contract({"turnout_factor": flagT, "results_normalized_margin": flagM})
    outs = []
    for ww in (w, w2):
        self = ww.handler()
        kind, res = h.call_method(self, "get_units", thr, lo, hi, ublk, pblk, fit_m, fit_t, zt, ["postal_code", "unit"])
        if kind == "raise":
            return h.fail("no_raise", f"raised {res}")
        outs.append(res)
    (r1, n1, t1), (r2, n2, t2) = outs
    facts = z3.And(*w.root.facts())
    h.ensures("reporting_frame_unchanged", z3.Implies(facts, r1.axis.present() == r2.axis.present()))
    h.ensures("nonreporting_frame_unchanged", z3.Implies(facts, n1.axis.present() == n2.axis.present()))
    h.ensures("third_frame_gains_exactly_the_new_unit", z3.Implies(facts, t2.axis.multiplicity() == t1.axis.multiplicity() + z3.If(u == x0, 1, 0)))
    rows2 = z3.And(*t2.axis.facts())
    h.ensures("new_unit_is_categorised_unexpected", z3.Implies(z3.And(rows2, u == x0), t2.col("unit_category").t == z3.StringVal("unexpected")))
    for nm, a, b in (("reporting", r1, r2), ("nonreporting", n1, n2)):
        for c in ("results_turnout", "unit_category", "reporting"):
            h.ensures(f"{nm}.{c}_unchanged", z3.Implies(z3.And(*b.axis.facts()), a.col(c).t == b.col(c).t) if a.axis.sel is None and b.axis.sel is None else True)


def _agg_delta(aggname, keys):
    @unit("C11", f"aggregate.delta.{aggname}", fns=[f"{BASE}.get_aggregate_predictions", f"{NP}.get_aggregate_prediction_intervals"])
    def delta(h):
        """third' = third + {x}: counted votes, prediction and both bounds of the group x is attributed to grow by
        exactly its votes; every other group is unchanged; a group that did not exist is created"""
        alpha = 0.9
        lo_s, up_s = f"lower_{alpha}_turnout", f"upper_{alpha}_turnout"
        t = Three(h, "turnout", int_extra=("pred_turnout", lo_s, up_s))
        u = t.root.u
        x0 = z3.Int("x_new_unit")
        h.syms["x_new_unit"] = x0
        h.requires("x_is_new", x0 >= 0, x0 < t.root.n, z3.Not(z3.substitute(z3.Or(t.R, t.N, t.T), (u, x0))))
        for f_ in (t.rep, t.third):
            for c in ("pred_turnout", lo_s, up_s):
                f_.cols[c] = f_.cols["results_turnout"]
        T2 = z3.Or(t.T, u == x0)
        third2 = frames.base_frame(t.root, T2, {k: c for k, c in t.third.cols.items()}, "geographic_unit_fips")
        import contracts.C03 as C03
        from pyvc.values import NamedTuple

        upi = NamedTuple("PredictionIntervals", ["lower", "upper", "conformalization"], [None, None, "conf"])
        res = []
        for third in (t.third, third2):
            self = C03.model(h, NP)
            k1, est = h.call_method(self, "get_aggregate_predictions", t.rep, t.nonrep, third, list(keys), "turnout")
            k2, pi = h.call_method(self, "get_aggregate_prediction_intervals", t.rep, t.nonrep, third, list(keys), alpha, upi, "turnout")
            if k1 == "raise" or k2 == "raise":
                return h.fail("no_raise", "raised")
            res.append((est, pi))
        (e1, p1), (e2, p2) = res
        gs = frames.keyspace(list(keys), {k: z3.StringSort() for k in keys})
        at = lambda term: z3.substitute(term, (u, x0))  # noqa: E731
        classification = "county_classification" in keys
        attributed = z3.And(*[z3.And(at(t.keys[k]) == gs.keyvars[k], z3.Not(at(t.knullT[k])) if k != "postal_code" else True) for k in keys])
        v = at(t.res)
        # lemma instances: Σ over T ∪ {x} = Σ over T + Σ over {x};  Σ over {x} = its value if attributed, else 0
        regs = list(h.ctx.__dict__.get("_sums", []))
        for d in regs:
            if d.space is t.root and "x_new_unit" in str(d.dom):
                # find the matching sum over T alone and the singleton
                for d1 in regs:
                    if d1.space is t.root and "x_new_unit" not in str(d1.dom) and z3.eq(d1.summand, d.summand) and "inThird" in str(d1.dom):
                        single_dom = z3.simplify(z3.And(u == x0, z3.substitute(d1.dom, (t.T, z3.BoolVal(True)))))
                        s_sym, s_def = sums.formal_sum_dom(h.ctx, t.root, single_dom, d.summand)
                        sums.lemma_sum_split(h.ctx, d, d1, s_def, name=f"lemma.sum_split#{d.sym}")
                        sums.lemma_sum_singleton(h.ctx, s_def, x0, name=f"lemma.sum_singleton#{d.sym}")
                        break
        inc = z3.If(z3.And(attributed, z3.BoolVal(not classification)), v, 0)
        both = z3.And(*e2.axis.facts(), e1.axis.present())
        for name, a, b in (("counted_votes", e1.col("results_turnout"), e2.col("results_turnout")), ("prediction", e1.col("pred_turnout"), e2.col("pred_turnout")), ("lower", p1.lower, p2.lower), ("upper", p1.upper, p2.upper)):
            h.ensures(f"{name}_grows_by_exactly_its_votes_in_its_own_group_only", z3.Implies(both, b.t == a.t + inc))
        newgroup = z3.And(*e2.axis.facts(), z3.Not(e1.axis.present()))
        h.ensures("a_new_group_holds_exactly_its_votes", z3.Implies(newgroup, z3.And(attributed, e2.col("results_turnout").t == v, e2.col("pred_turnout").t == v, p2.lower.t == v, p2.upper.t == v)) if not classification else z3.Implies(newgroup, False))
        h.ensures("no_group_disappears", z3.Implies(z3.And(*e1.axis.facts()), e2.axis.present()))
        h.ensures("reporting_count_unchanged", z3.Implies(both, e1.col("reporting").t == e2.col("reporting").t))

    return delta


for _n, _k in AGGS.items():
    _agg_delta(_n, _k)

# "leaves every other number in every table unchanged" also across RUNS of a poller that keeps its feed frame: the handler must
# not modify the tables its caller passed in (frame condition of CombinedDataHandler.__init__, contracts/C09.py)
import contracts.C09 as _c09  # noqa: E402,F401
from pyvc.api import UNITS as _UNITS  # noqa: E402

for _u in list(_UNITS.get("C09", [])):
    if _u["name"].startswith("init.") and not any(x["name"] == "inputs_not_modified." + _u["name"] for x in _UNITS.get("C11", [])):
        _UNITS.setdefault("C11", []).append(dict(_u, prop="C11", name="inputs_not_modified." + _u["name"]))
