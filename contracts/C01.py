"""C01 -- counted votes conserved, every unit exactly once (DESIGN section 4, C01).

The partition half (every unit in exactly one frame with exactly one category) is C09.get_units.* and is
re-run here; this module adds the conservation half: at every aggregate level the counted-votes column is
the sum of the live counts of the attributable units, and `reporting` counts the modelled reporting units.
"""
import z3

import contracts.C09 as C09  # noqa: F401  (partition obligations)
from contracts.common import AGGS, Three
from pyvc import frames, sums
from pyvc.api import UNITS, unit
from pyvc.values import NamedTuple, V

LEVEL = "proof"
# differential test of the individual pandas / numpy contract entries and of the interpreter (NaN handling, masks, in-place
# updates and aliasing, group sums, merges, dtype casts): 58 snippets of ordinary library code, symbolic result evaluated on
# random concrete frames vs the real run -- a test of the trusted base shared by all frame proofs, not a proof
BOUNDED = [
    {"name": "theory_conformance_library_entries", "script": "conformance_entries.py", "python": "vt", "tiers": ["quick"], "args": ["--n", "5"], "timeout": 1200},
    {"name": "theory_conformance_library_entries", "script": "conformance_entries.py", "python": "vt", "tiers": ["thorough"], "args": ["--n", "40"], "timeout": 3000},
]
BASE = "elexmodel.models.BaseElectionModel.BaseElectionModel"
MRH = "elexmodel.handlers.data.ModelResults.ModelResultsHandler"
ASSUMPTIONS = [
    "A-REAL; V1 unique unit ids per table; V2 non-negative integer counts; V4 modelled units carry non-null aggregate keys",
    "A-OBJSUM: groupby().sum() is modelled on numeric columns only (object columns are poisoned, never read by the verified code)",
    "'attributable': third-frame units are attributed to state/county/district groups when their key is non-null, and to no classification group (the code's documented choice)",
    "under handle_unreporting='drop' a baseline unit absent from the feed is by design in no frame: 'every unit' = feed units plus (policy zero) baseline units",
]

# re-register the C09 partition units under C01 as well (same obligations, renamed)
for _u in list(UNITS.get("C09", [])):
    if _u["name"].startswith("get_units."):
        UNITS.setdefault("C01", []).append(dict(_u, prop="C01", name="partition." + _u["name"][len("get_units."):]))


def _base_model(h):
    """a model object built by the real __init__ chain (the base class methods are exercised through a concrete estimator)"""
    import contracts.C03 as C03

    return C03.model(h, C03.NP)


def _agg_replay(keys):
    return lambda ev: {"target": "verif_replays:aggregate_replay", "args": [list(keys)], "check": "result['exc'] is None and result['ok']"}


def _agg_unit(aggname, keys):
    rp = _agg_replay(keys)

    @unit("C01", f"aggregate_votes.{aggname}", fns=[f"{BASE}._get_reporting_aggregate_votes"])
    def votes(h):
        t = Three(h, "turnout")
        h.default_replay = rp
        self = _base_model(h)
        kind, res = h.call_method(self, "_get_reporting_aggregate_votes", t.rep, t.third, list(keys), "turnout")
        if kind == "raise":
            return h.fail("no_raise", f"raised {res}")
        classification = "county_classification" in keys
        sR, _ = t.gsum("R", keys, t.res)
        cR, _ = t.gsum("R", keys, z3.IntVal(1))
        sT, _ = t.gsum("T", keys, t.res)
        rows = z3.And(*res.axis.facts())
        want_res = sR if classification else sR + sT
        c = res.col("results_turnout")
        h.ensures("counted_votes", z3.Implies(rows, z3.And(c.t == want_res, z3.Not(c.nan) if c.nan is not None else True)), replay=rp)
        r = res.col("reporting")
        h.ensures("reporting_count", z3.Implies(rows, z3.And(r.t == cR, z3.Not(r.nan) if r.nan is not None else True)), replay=rp)
        # group domain: exactly the groups that have a reporting unit or (unless classification) an attributable third-frame unit
        mR, mT = t.member("R", keys), t.member("T", keys)
        pres = res.axis.present()
        h.ensures("group_domain.contains_every_contributing_unit", z3.Implies(z3.And(*t.root.facts()), z3.Implies(mR if classification else z3.Or(mR, mT), pres)), replay=rp)
        h.ensures("once_per_group", len(res.axis.doms) == 1 and isinstance(res.axis.root, frames.KeySpace))
        h.ensures("columns", list(res.cols) == list(keys) + ["results_turnout", "reporting"])

    @unit("C01", f"aggregate_predictions.{aggname}", fns=[f"{BASE}.get_aggregate_predictions", f"{BASE}._get_reporting_aggregate_votes", f"{BASE}._get_nonreporting_aggregate_votes"])
    def preds(h):
        t = Three(h, "turnout", extra=("pred_turnout",))
        pred = t.nonrep.col("pred_turnout").t
        # the columns add_unit_predictions writes on the other two frames
        t.rep.cols["pred_turnout"] = t.rep.cols["results_turnout"]
        t.third.cols["pred_turnout"] = t.third.cols["results_turnout"]
        h.default_replay = rp
        self = _base_model(h)
        kind, res = h.call_method(self, "get_aggregate_predictions", t.rep, t.nonrep, t.third, list(keys), "turnout")
        if kind == "raise":
            return h.fail("no_raise", f"raised {res}")
        classification = "county_classification" in keys
        sR, _ = t.gsum("R", keys, t.res)
        cR, _ = t.gsum("R", keys, z3.IntVal(1))
        sT, _ = t.gsum("T", keys, t.res)
        sN, _ = t.gsum("N", keys, t.res)
        pN, _ = t.gsum("N", keys, pred)
        counted = sR if classification else sR + sT
        rows = z3.And(*res.axis.facts())

        def nn(c):
            return z3.Not(c.nan) if c.nan is not None else z3.BoolVal(True)

        c = res.col("results_turnout")
        h.ensures("counted_votes", z3.Implies(rows, z3.And(c.t == counted + sN, nn(c))), replay=rp)
        p = res.col("pred_turnout")
        h.ensures("C02.pred_identity", z3.Implies(rows, z3.And(p.t == counted + pN, nn(p))), replay=rp)
        r = res.col("reporting")
        h.ensures("reporting_count", z3.Implies(rows, z3.And(r.t == cR, nn(r))), replay=rp)
        mR, mT, mN = t.member("R", keys), t.member("T", keys), t.member("N", keys)
        h.ensures("group_domain.contains_every_contributing_unit", z3.Implies(z3.And(*t.root.facts()), z3.Implies(z3.Or(mR, mN) if classification else z3.Or(mR, mT, mN), res.axis.present())), replay=rp)
        h.ensures("sorted_by_group_key", res.axis.order == ("sorted", tuple(keys)))
        h.ensures("columns", list(res.cols) == list(keys) + ["pred_turnout", "results_turnout", "reporting"])

    return votes, preds


for _n, _k in AGGS.items():
    _agg_unit(_n, _k)


def _e2e(policy, estimands, name):
    @unit("C01", f"partition.end_to_end.{name}.{policy}", fns=[f"{C09.CDH}.__init__", f"{C09.CDH}.get_units"])
    def e2e(h):
        """__init__ then get_units on the real code: every feed unit (and, under 'zero', every baseline unit)
        is in exactly one of the three frames, exactly once, with its live count."""
        root, base, feed, s = C09._feed_and_baseline(h, estimands, nullable_results=True)
        h.default_replay = lambda ev: {"target": "verif_replays:get_units_scenario_replay", "args": [], "check": "result['exc'] is None and result['ok']"}
        est = h.obj(f"{C09.EST}.Estimandizer")
        kind, pre = h.call_method(est, "add_estimand_baselines", base, {e: e for e in estimands}, False)
        if kind == "raise":
            return h.fail("baselines.no_raise", f"raised {pre}")
        obj = h.obj(C09.CDH)
        kind, r = h.call_method(obj, "__init__", pre, feed, list(estimands), "county", handle_unreporting=policy)
        if kind == "raise":
            return h.fail("init.no_raise", f"raised {r}")
        if policy == "zero":
            # V7 (key consistency), needed under 'zero' only: a feed row whose id is in the baseline carries the
            # baseline's postal code (otherwise the zero-filled baseline row shadows the feed row)
            h.requires("V7", z3.Implies(z3.And(s["inFeed"], s["inBase"]), s["pc_b"] == s["pc_f"]))
        thr, lo, hi, zt = h.real("thr"), h.real("tf_lower"), h.real("tf_upper"), h.real("z_threshold")
        fit_m, fit_t = h.bool("fit_margin_outlier_model"), h.bool("fit_turnout_outlier_model")
        from contracts.common import symlist

        ublk, pblk = symlist(h, "unit_blocklist"), symlist(h, "postal_code_blocklist")
        flagT = z3.Function("flag_turnout", z3.IntSort(), z3.BoolSort())
        flagM = z3.Function("flag_margin", z3.IntSort(), z3.BoolSort())
        h.contracts[f"{C09.CDH}._fit_outlier_detection_model"] = C09.outlier_contract({"turnout_factor": flagT, "results_normalized_margin": flagM})
        kind, res = h.call_method(obj, "get_units", thr, lo, hi, ublk, pblk, fit_m, fit_t, zt, ["postal_code", "unit"])
        if kind == "raise":
            return h.fail("get_units.no_raise", f"raised {res}")
        rep, nonrep, third = res
        facts = z3.And(*root.facts())
        universe = s["inFeed"] if policy == "drop" else z3.Or(s["inFeed"], s["inBase"])
        total = rep.axis.multiplicity() + nonrep.axis.multiplicity() + third.axis.multiplicity()
        def rp(ev):
            def val(k):
                nl = s["nulls"].get(k)
                if nl is not None and ev(nl):
                    return None
                return float(ev(s[k]))

            unit_ = {"inBase": ev(s["inBase"]), "inFeed": ev(s["inFeed"]), "pc_b": ev(s["pc_b"]) or "AA", "pc_f": ev(s["pc_f"]) or "AA", "pev": float(ev(s["percent_expected_vote"]))}
            if ev(s["pc_b"]) != ev(s["pc_f"]) and unit_["pc_b"] == unit_["pc_f"]:
                unit_["pc_f"] = "BB"
            for k in ("baseline_turnout", "baseline_dem", "baseline_gop"):
                unit_[k] = float(ev(s[k]))
            for k in ("results_turnout", "results_dem", "results_gop"):
                unit_[k] = val(k)
            want = 1 if (unit_["inFeed"] or (policy == "zero" and unit_["inBase"])) else 0
            return {"target": "verif_replays:partition_replay", "args": [unit_, policy, list(estimands)], "kwargs": {"thr": float(ev(thr)), "lo": float(ev(lo)), "hi": float(ev(hi))}, "check": f"result['exc'] is None and result['count'] == {want}"}

        h.ensures("every_unit_exactly_once", z3.Implies(z3.And(facts, universe), total == 1), replay=rp)
        h.ensures("no_unit_from_nowhere", z3.Implies(z3.And(facts, z3.Not(z3.Or(s["inFeed"], s["inBase"]))), total == 0))
        # the live count travels with the unit
        for e in estimands:
            src = {"turnout": s["results_turnout"], "dem": s["results_dem"], "gop": s["results_gop"]}[e]
            for f_, nm in ((rep, "rep"), (nonrep, "nonrep"), (third, "third")):
                c = f_.col(f"results_{e}")
                isnull = s["nulls"].get(f"results_{e}", z3.BoolVal(False))
                h.ensures(f"live_count_kept.{nm}.{e}", z3.Implies(z3.And(*f_.axis.facts(), s["inFeed"], z3.Not(isnull)), z3.And(c.t == src, z3.Not(c.nan) if c.nan is not None else True)))

    return e2e


for _p in ("drop", "zero"):
    _e2e(_p, ["turnout"], "turnout")
    _e2e(_p, ["dem", "turnout"], "dem_turnout")


# ---- the unit table (ModelResultsHandler): every unit once, reported units final, own bounds, column schema ---------------
def _handler(h, t, aggregates, alphas):
    from pyvc import source
    from pyvc.interp import ClassRef

    mod = source.module("elexmodel.handlers.data.ModelResults")
    return ClassRef(mod, mod.classes["ModelResultsHandler"]).instantiate(h.interp, [list(aggregates), list(alphas), t.rep, t.nonrep, t.third], {})


@unit("C01", "model_results.unit_table", fns=[f"{MRH}.__init__", f"{MRH}.add_unit_predictions", f"{MRH}.add_unit_intervals"])
def unit_table(h):
    alphas = [0.7, 0.9]
    t = Three(h, "turnout")
    mr = _handler(h, t, ["postal_code", "unit"], alphas)
    u = t.root.u
    pred = V(z3.Function("unit_pred", z3.IntSort(), z3.IntSort())(u), (t.nonrep.axis,), t.nonrep.index)
    kind, _ = h.call_method(mr, "add_unit_predictions", "turnout", pred)
    if kind == "raise":
        return h.fail("add_unit_predictions.no_raise", f"raised {_}")
    pis = {}
    bounds = {}
    for a in alphas:
        lo = V(z3.Function(f"unit_lower_{a}", z3.IntSort(), z3.IntSort())(u), (t.nonrep.axis,), None)
        up = V(z3.Function(f"unit_upper_{a}", z3.IntSort(), z3.IntSort())(u), (t.nonrep.axis,), None)
        pis[a] = NamedTuple("PredictionIntervals", ["lower", "upper", "conformalization"], [lo, up, None])
        bounds[a] = (lo, up)
    kind, _ = h.call_method(mr, "add_unit_intervals", "turnout", pis)
    if kind == "raise":
        return h.fail("add_unit_intervals.no_raise", f"raised {_}")
    ud = mr.attrs["unit_data"]["turnout"]
    facts = z3.And(*t.root.facts())
    h.ensures("C01.every_unit_exactly_once", z3.Implies(facts, ud.axis.multiplicity() == z3.If(z3.Or(t.R, t.N, t.T), 1, 0)))
    rows = z3.And(*ud.axis.facts())
    final = z3.Or(t.R, t.T)
    for a in alphas:
        lo_c, up_c = ud.col(f"lower_{a}_turnout"), ud.col(f"upper_{a}_turnout")
        h.ensures(f"C03.reported_units_are_final[{a}]", z3.Implies(z3.And(rows, final), z3.And(ud.col("pred_turnout").t == t.res, lo_c.t == t.res, up_c.t == t.res)))
        h.ensures(f"nonreporting_rows_carry_their_own_bounds[{a}]", z3.Implies(z3.And(rows, t.N), z3.And(lo_c.t == bounds[a][0].t, up_c.t == bounds[a][1].t, ud.col("pred_turnout").t == pred.t)), replay=lambda ev: {"target": "verif_replays:unit_table_prediction_replay", "args": [], "check": "result['exc'] is None and result['ok']"})
    h.ensures("results_column_is_the_live_count", z3.Implies(rows, ud.col("results_turnout").t == t.res))
    h.ensures("C13.columns", list(ud.cols) == ["postal_code", "geographic_unit_fips", "pred_turnout", "reporting", "unit_category"] + [f"{s}_{a}_turnout" for a in alphas for s in ("lower", "upper")] + ["results_turnout"])
    h.ensures("sorted_by_unit_id", ud.axis.order == ("sorted", ("geographic_unit_fips",)))



@unit("C01", "model_results.final_tables_carry_the_aggregate_values", fns=[f"{MRH}.add_agg_predictions", f"{MRH}.process_final_results"])
def final_tables(h):
    """what an estimate run RETURNS: the aggregate table handed to the results handler (counted votes -- for the margin
    estimand a fraction --, prediction, reporting count, interval columns) comes out of process_final_results cell by cell as
    it went in, one row per group.  (The handler is generic in the estimand: the group values are REAL-valued here, as the
    bootstrap estimator's margin columns are, under the column names of a vote count.)"""
    from pyvc import frames as _fr

    alphas = [0.7, 0.9]
    t = Three(h, "turnout")
    mr = _handler(h, t, ["postal_code", "unit"], alphas)
    u = t.root.u
    pred = V(z3.Function("unit_pred", z3.IntSort(), z3.IntSort())(u), (t.nonrep.axis,), t.nonrep.index)
    k, r_ = h.call_method(mr, "add_unit_predictions", "turnout", pred)
    if k == "raise":
        return h.fail("add_unit_predictions.no_raise", f"raised {r_}")
    pis = {a: NamedTuple("PredictionIntervals", ["lower", "upper", "conformalization"], [V(z3.Function(f"unit_lower_{a}", z3.IntSort(), z3.IntSort())(u), (t.nonrep.axis,), None), V(z3.Function(f"unit_upper_{a}", z3.IntSort(), z3.IntSort())(u), (t.nonrep.axis,), None), None]) for a in alphas}
    k, r_ = h.call_method(mr, "add_unit_intervals", "turnout", pis)
    if k == "raise":
        return h.fail("add_unit_intervals.no_raise", f"raised {r_}")
    gs = _fr.keyspace(["postal_code"], {"postal_code": z3.StringSort()})
    g = gs.keyvars["postal_code"]
    pres = z3.Function("state_present", z3.StringSort(), z3.BoolSort())(g)
    ax = _fr.RowAxis(gs, [pres], ("sorted", ("postal_code",)))
    est = _fr.Frame(ax, {}, ("range", ax.name), None)
    est.cols["postal_code"] = V(g, (ax,), est.index)
    given = {}
    for c, srt in (("pred_turnout", z3.RealSort()), ("results_turnout", z3.RealSort()), ("reporting", z3.IntSort())):
        given[c] = z3.Function(f"state_{c}", z3.StringSort(), srt)(g)
        est.cols[c] = V(given[c], (ax,), est.index)
    ints = {}
    for a in alphas:
        lo, up = z3.Function(f"state_lower_{a}", z3.StringSort(), z3.RealSort())(g), z3.Function(f"state_upper_{a}", z3.StringSort(), z3.RealSort())(g)
        given[f"lower_{a}_turnout"], given[f"upper_{a}_turnout"] = lo, up
        ints[a] = NamedTuple("PredictionIntervals", ["lower", "upper"], [V(lo, (ax,), est.index), V(up, (ax,), est.index)])
    k, r_ = h.call_method(mr, "add_agg_predictions", "turnout", "postal_code", est, ints)
    if k == "raise":
        return h.fail("add_agg_predictions.no_raise", f"raised {r_}")
    rp = lambda ev: {"target": "verif_replays:final_tables_replay", "args": [], "check": "result['exc'] is None and result['ok']"}  # noqa: E731
    h.default_replay = rp
    k, r_ = h.call_method(mr, "process_final_results")
    if k == "raise":
        return h.fail("process_final_results.no_raise", f"raised {r_}", replay=rp)
    sd = mr.attrs["final_results"]["state_data"]
    h.ensures("one_row_per_group", sd.axis.root is gs and len(sd.axis.doms) == 1 and z3.eq(z3.simplify(sd.axis.doms[0]), z3.simplify(pres)), replay=rp)
    rows = z3.And(*sd.axis.facts())
    for c, term in given.items():
        h.ensures(f"{c}.comes_out_as_it_went_in", c in sd.cols and z3.Implies(rows, z3.And(_fr.real(sd.col(c).t) == _fr.real(term), z3.Not(sd.col(c).nan) if sd.col(c).nan is not None else z3.BoolVal(True))) if c in sd.cols else False, replay=rp)


# "whichever estimator ... bootstrap": the bootstrap estimator's aggregate table (counted margin of a group = live margin
# of its attributable units over the predicted two-party turnout of the SAME units) is the C06 unit of the real
# BootstrapElectionModel.get_aggregate_predictions, registered here as well
import contracts.C06 as _c06  # noqa: E402,F401

for _u in list(UNITS.get("C06", [])):
    if _u["name"].startswith("aggregate_predictions."):
        UNITS.setdefault("C01", []).append(dict(_u, prop="C01", name="bootstrap." + _u["name"]))
