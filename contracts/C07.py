"""C07 -- race calls and call-stops honoured; contradictory calls rejected (DESIGN section 4, C07)."""
import z3

from pyvc.api import unit
from pyvc.seq import SymSeq
from pyvc.values import V

BEM = "elexmodel.models.BootstrapElectionModel.BootstrapElectionModel"
LEVEL = "proof"
ASSUMPTIONS = ["A-REAL: floats as reals", "np.isclose(x, c) modelled exactly as |x-c| <= 1e-8 + 1e-5|c|"]


def _seq(h, name):
    sp = h.space(name)
    f = z3.Function(f"elem_{name}", z3.IntSort(), z3.StringSort())
    h.syms[f"elem_{name}"] = f
    return SymSeq(sp, f(sp.u), name)


@unit("C07", "format", fn=f"{BEM}._format_called_contests")
def format_called(h):
    lhs = _seq(h, "lhs")
    rhs = _seq(h, "rhs")
    contests = _seq(h, "contests")
    self = h.obj(BEM)
    x = z3.String("x")
    L, R, C = lhs.mem(), rhs.mem(), contests.mem()
    # membership predicates are exactly "occurs at some index" (definition of `in` on a list)
    for s in (lhs, rhs, contests):
        i = z3.Int("i")
        e = z3.substitute(s.elem, (s.space.u, i))
        h.requires("mem_def", z3.ForAll([x], z3.Implies(s.mem()(x), z3.Exists([i], z3.And(i >= 0, i < s.space.n, e == x)))))
    spec_raise = z3.Exists([x], z3.Or(z3.And(L(x), R(x)), z3.And(L(x), z3.Not(C(x))), z3.And(R(x), z3.Not(C(x)))))
    rp = lambda ev: {"target": "verif_replays:format_called_contests_replay", "args": [], "check": "result['exc'] is None and result['ok']"}  # noqa: E731
    h.default_replay = rp
    kind, res = h.call_method(self, "_format_called_contests", lhs, rhs, contests, 1, 0, -1)
    if kind == "raise":
        h.ensures("raises_only_dedicated_error", res.clsname == "BootstrapElectionModelException", replay=rp)
        h.ensures("raises_only_if_contradictory_or_unknown", spec_raise, replay=rp)
        return
    h.ensures("returns_only_if_consistent", z3.Not(spec_raise), replay=rp)
    c = contests.elem
    want = z3.If(L(c), 1, z3.If(R(c), 0, -1))
    h.ensures("entry_values", res.t == want, replay=rp)
    h.ensures("one_entry_per_contest", len(res.axes) == 1 and res.axes[0] is contests.space)


@unit("C07", "adjust", fn=f"{BEM}._adjust_called_contests")
def adjust(h):
    sp = h.space("contests")
    pred = h.column("pred", sp)
    called = h.column("called", sp, "int")
    h.requires("called_values", (called == 1) | (called == 0) | (called == -1))
    self = h.obj(BEM, lhs_called_threshold=0.005, rhs_called_threshold=-0.005)
    kind, res = h.call_method(self, "_adjust_called_contests", pred, called)
    if kind == "raise":
        return h.fail("no_raise", f"raised {res}")

    def rp(ev):
        return {
            "target": "elexmodel.models.BootstrapElectionModel:BootstrapElectionModel._adjust_called_contests",
            "self": {"class": "elexmodel.models.BootstrapElectionModel:BootstrapElectionModel", "init": None, "attrs": {"lhs_called_threshold": 0.005, "rhs_called_threshold": -0.005}},
            "args": [{"__nd__": [ev(pred)], "dtype": "float"}, {"__nd__": [ev(called)]}],
            "check": "(args[1][0] != 1 or result[0] >= 0.005) and (args[1][0] != 0 or result[0] <= -0.005) and (args[1][0] != -1 or result[0] == args[0][0])",
        }

    h.ensures("lhs_pred_at_least_threshold", z3.Implies(called.t == 1, res.t >= z3.RealVal("0.005")), replay=rp)
    h.ensures("rhs_pred_at_most_threshold", z3.Implies(called.t == 0, res.t <= z3.RealVal("-0.005")), replay=rp)
    h.ensures("uncalled_unchanged", z3.Implies(called.t == -1, res.t == pred.t), replay=rp)
    h.ensures("called_never_weakened", z3.And(z3.Implies(called.t == 1, res.t >= pred.t), z3.Implies(called.t == 0, res.t <= pred.t)), replay=rp)
    h.ensures("same_rows", len(res.axes) == 1 and res.axes[0] is sp)


# the decision table on the real aggregate functions lives with the bootstrap aggregate units (contracts/C06.py):
import contracts.C06 as _c06  # noqa: E402
from pyvc.api import UNITS  # noqa: E402

for _u in list(UNITS.get("C06", [])):
    if _u["name"] in ("aggregate_intervals.state", "aggregate_intervals.district", "aggregate_predictions.state", "aggregate_predictions.district"):
        UNITS.setdefault("C07", []).append(dict(_u, prop="C07"))
