"""C03 -- counted votes are a floor; reported units are final (DESIGN section 4, C03).
Also hosts C05 (uniform swing) and the C02 unit/aggregate identities of the nonparametric estimator, which
are postconditions of the same functions."""
import z3

from contracts.common import AGGS, Three
from pyvc import frames, sums, theory_ext
from pyvc.api import unit
from pyvc.theory_np import round_half_even_t
from pyvc.values import NamedTuple, V, real

LEVEL = "proof"
BOUNDED = [{"name": "gaussian_aggregate_floors_and_alignment", "script": "c15_gaussian.py", "timeout": 2400}]
CO = "elexmodel.models.ConformalElectionModel.ConformalElectionModel"
NP = "elexmodel.models.NonparametricElectionModel.NonparametricElectionModel"
GA = "elexmodel.models.GaussianElectionModel.GaussianElectionModel"
BASE = "elexmodel.models.BaseElectionModel.BaseElectionModel"
MRH = "elexmodel.handlers.data.ModelResults.ModelResultsHandler"
FEAT = "elexmodel.handlers.data.Featurizer.Featurizer"
ASSUMPTIONS = [
    "A-REAL; V2 (counts are non-negative whole numbers, previous result + 1 >= 1)",
    "A-QR: the solver returns finite coefficients; predict is linear in the design-matrix columns",
    "Featurizer is used through its contract (row- and order-preserving design matrices) except in the no-covariate configuration, where its real body is executed",
    "A-SIGMA (gaussian): the bootstrapped scale returned by math_utils.boot_sigma is finite and positive; gaussian aggregate floors / finiteness: units gaussian.aggregate_intervals.* (contracts/C15.py)",
]


def model(h, cls, **settings):
    """the model object as the client creates it: the REAL __init__ chain is executed on the settings dict"""
    from pyvc import source
    from pyvc.interp import ClassRef

    st = dict(features=[], fixed_effects={}, lambda_=h.real("lambda_"))
    st.update(settings)
    parts = cls.split(".")
    mod = source.module(".".join(parts[:-1]))
    return ClassRef(mod, mod.classes[parts[-1]]).instantiate(h.interp, [], {"model_settings": st})


def _isint(t):
    return z3.IsInt(real(t)) if not z3.is_int(t) else z3.BoolVal(True)


@unit("C03", "unit_predictions.floor", fns=[f"{CO}.get_unit_predictions", f"{CO}.fit_model"])
def unit_predictions(h):
    t = Three(h, "turnout", extra=("residuals_turnout", "f1"))
    h.contracts[FEAT] = theory_ext.featurizer_contract
    self = model(h, NP, features=["f1"])
    h.requires("gate", t.rep.axis.n >= 1)
    kind, res = h.call_method(self, "get_unit_predictions", t.rep, t.nonrep, "turnout")
    if kind == "raise":
        return h.fail("no_raise", f"raised {res}")
    preds, _none = res
    rows = z3.And(*t.nonrep.axis.facts())
    h.ensures("rows_are_nonreporting_units", len(preds.axes) == 1 and frames.same_rows(preds.axes[0], t.nonrep.axis))
    h.ensures("pred_floor", z3.Implies(rows, preds.t >= t.res))
    h.ensures("pred_whole_number", z3.Implies(rows, _isint(preds.t)))
    h.ensures("pred_finite", preds.nan is None and preds.inf is None)
    # the request sent to the solver: fit on the reporting rows only, weights = previous results (+1), median
    qr = h.interp.qr_models[0]
    c = qr.calls[0]
    X = c["x"].frame
    h.ensures("C10.fit_reads_reporting_rows_only", frames.same_rows(X.axis, t.rep.axis) and frames.same_rows(c["y"].axes[0], t.rep.axis) and frames.same_rows(c["weights"].axes[0], t.rep.axis))
    h.ensures("C05.fit_weights_are_previous_results", z3.eq(c["weights"].t, t.rep.col("last_election_results_turnout").t) and z3.eq(c["y"].t, t.rep.col("residuals_turnout").t))
    h.ensures("C05.fit_is_median", c["taus"] == 0.5 and c["fit_intercept"] is True and c["normalize_weights"] is True)
    h.ensures("C16.design_matrix_built_from_rep_then_nonrep", len(self.attrs) > 0)


def _us_rp(ev):
    return {"target": "verif_replays:uniform_swing_request_replay", "args": [], "check": "result['exc'] is None and result['ok']"}


@unit("C05", "uniform_swing", fns=[f"{CO}.get_unit_predictions", f"{CO}.fit_model", f"{FEAT}.__init__", f"{FEAT}.prepare_data", f"{FEAT}.filter_to_active_features", f"{FEAT}.generate_holdout_data", f"{FEAT}._sort_features"])
def uniform_swing(h):
    """no features, no fixed effects: the REAL Featurizer is executed; every prediction is the baseline scaled by
    one common factor 1+m (m = the single fitted coefficient), rounded, floored at the partial count."""
    t = Three(h, "turnout", extra=("residuals_turnout",))
    self = model(h, NP, features=[], fixed_effects={})
    h.requires("gate", t.rep.axis.n >= 1)
    kind, res = h.call_method(self, "get_unit_predictions", t.rep, t.nonrep, "turnout")
    if kind == "raise":
        return h.fail("no_raise", f"raised {res}")
    preds, _ = res
    qr = h.interp.qr_models[0]
    c = qr.calls[0]
    X = c["x"].frame
    h.ensures("design_is_intercept_only", list(X.cols) == ["intercept"] and z3.is_true(z3.simplify(real(X.cols["intercept"].t) == 1)))
    h.ensures("fit_rows_weights_response", frames.same_rows(X.axis, t.rep.axis) and z3.eq(c["weights"].t, t.rep.col("last_election_results_turnout").t) and z3.eq(c["y"].t, t.rep.col("residuals_turnout").t) and c["taus"] == 0.5, replay=_us_rp)
    h.ensures("fit_is_the_unregularised_weighted_median_problem", c["regularize_intercept"] is False and c["fit_intercept"] is True and c["n_feat_ignore_reg"] == 0, why=f"request: regularize_intercept={c['regularize_intercept']!r} fit_intercept={c['fit_intercept']!r}", replay=_us_rp)
    m = qr.coefs["intercept"]
    h.syms["m"] = m
    rows = z3.And(*t.nonrep.axis.facts())
    x = (1 + m) * t.last
    mx = z3.If(x >= t.res, x, t.res)
    h.ensures("one_common_factor", z3.Implies(rows, preds.t == z3.ToReal(round_half_even_t(mx))), replay=_us_rp)
    # rounding commutes with the floor because the partial count is a whole number
    # "rounded, then floored" (statement) vs "floored, then rounded" (code): equal because the partial count is a
    # whole number -- lemma over an arbitrary real X and integer r, instantiated at X = (1+m)*last, r = results
    X = z3.Real("X_any")
    h.lemma("lemma.round_and_floor_commute", round_half_even_t(z3.If(X >= t.res, X, z3.ToReal(t.res))) == z3.If(round_half_even_t(X) >= t.res, round_half_even_t(X), t.res))


def popcorr_contract(interp, self, conformalization_data, scores, correction_quantile, estimand):
    """contract of NonparametricElectionModel._compute_population_correction used by its caller: SOME real
    number (negative corrections included).  Its own postcondition (C04) is proved in contracts/C04.py."""
    interp.call_log.append(("popcorr", dict(conf=conformalization_data, scores=scores, q=correction_quantile)))
    return V(z3.Real("population_correction"))


def run_np_intervals(h, robust=False, extra_requires=True):
    t = Three(h, "turnout", extra=("residuals_turnout", "f1"))
    h.contracts[FEAT] = theory_ext.featurizer_contract
    h.contracts[f"{NP}._compute_population_correction"] = popcorr_contract
    alpha = h.real("alpha")
    h.requires("alpha_open", 0 < alpha, alpha < 1)
    self = model(h, NP, features=["f1"], robust=robust)
    from pyvc.theory_np import SeqLen

    self.attrs["n_train"] = SeqLen(t.rep.axis)  # written by get_unit_predictions (same frame object, see client loop)
    n = t.rep.axis.n
    # the gate of get_estimates (C14): at least minimum(alpha) modelled reporting units
    kind, m = h.call_method(self, "get_minimum_reporting_units", alpha)
    h.requires("gate", n >= m.t)
    kind, res = h.call_method(self, "get_unit_prediction_intervals", t.rep, t.nonrep, alpha, "turnout")
    return t, self, alpha, kind, res


@unit("C03", "nonparametric.unit_intervals", fns=[f"{NP}.get_unit_prediction_intervals", f"{CO}.get_unit_prediction_interval_bounds", f"{CO}.fit_model", f"{NP}._compute_conf_frac"])
def np_unit_intervals(h):
    t, self, alpha, kind, res = run_np_intervals(h)
    if kind == "raise":
        return h.fail("C14.totality_above_the_gate", f"raised {res}", budget_factor=3)
    h.ensures("C14.totality_above_the_gate", True)
    lower, upper, conf = res.lower, res.upper, res.conformalization
    rows = z3.And(*t.nonrep.axis.facts())
    h.ensures("rows_are_nonreporting_units", frames.same_rows(lower.axes[0], t.nonrep.axis) or frames.provably_same_rows(lower.axes[0], t.nonrep.axis))
    rp_floor = lambda ev: {"target": "verif_replays:unit_interval_floor_replay", "args": ["nonparametric"], "check": "result['exc'] is None and result['ok']"}  # noqa: E731
    h.ensures("lower_floor", z3.Implies(rows, lower.t >= t.res), replay=rp_floor)
    h.ensures("upper_floor", z3.Implies(rows, upper.t >= t.res), replay=rp_floor)
    h.ensures("whole_numbers", z3.Implies(rows, z3.And(_isint(lower.t), _isint(upper.t))))
    h.ensures("finite", lower.nan is None and lower.inf is None and upper.nan is None and upper.inf is None)
    # C04.5: one correction, applied symmetrically, then un-normalised, floored, rounded
    qs = h.interp.qr_models
    h.ensures("two_interval_fits", len(qs) == 2 and all(len(q.calls) == 1 for q in qs))
    lo_call, up_call = qs[0].calls[0], qs[1].calls[0]
    h.ensures("C04.fit_levels", V(real(lo_call["taus"].t) == (1 - alpha.t) / 2) & V(real(up_call["taus"].t) == (1 + alpha.t) / 2))
    # C16.2 / C10: training rows = the first train_rows shuffled reporting rows, for design matrix, response and weights alike
    Xa = lo_call["x"].frame.axis
    h.ensures("C16.fit_rows_aligned", all(frames.same_rows(v.axes[0], Xa) or frames.provably_same_rows(v.axes[0], Xa) for v in (lo_call["y"], lo_call["weights"], up_call["y"], up_call["weights"])) and frames.same_rows(up_call["x"].frame.axis, Xa))
    facts = z3.And(*t.root.facts())
    h.ensures("C10.fit_rows_are_reporting_units", z3.Implies(facts, z3.Implies(Xa.present(), t.R)))
    # calibration rows: reporting, disjoint from the training rows, together all reporting rows
    ca = conf.axis
    h.ensures("C04.split_disjoint_exhaustive", z3.Implies(facts, z3.And(z3.Not(z3.And(Xa.present(), ca.present())), z3.Or(Xa.present(), ca.present()) == t.R)), replay=lambda ev: {"target": "verif_replays:calibration_split_replay", "args": [], "check": "result['exc'] is None and result['ok']"})
    pc = [c for c in h.interp.call_log if c[0] == "popcorr"]
    h.ensures("one_population_correction", len(pc) == 1)
    sc = pc[0][1]["scores"]
    lb, ub = conf.col("lower_bounds"), conf.col("upper_bounds")
    h.ensures("C04.scores_are_max_of_both_sides", z3.Implies(z3.And(*ca.facts()), sc.t == z3.If(lb.t >= ub.t, lb.t, ub.t)))
    h.ensures("C04.quantile_level", pc[0][1]["q"].t == alpha.t * (1 + 1 / z3.ToReal(ca.n)), why="the level of the correction quantile is alpha * (1 + 1 / number of calibration units) -- the units actually held out (one training row at least)", replay=lambda ev: {"target": "verif_replays:robust_correction_replay", "args": [], "check": "result['exc'] is None and result['ok']"})
    # the reported interval is the raw pair of bounds widened by the SAME correction on both sides
    c = z3.Real("population_correction")
    lraw = qs[0].predict(_holdout(h, t))
    uraw = qs[1].predict(_holdout(h, t))
    want_l = z3.If((lraw.t - c) * t.last + t.last >= t.res, (lraw.t - c) * t.last + t.last, t.res)
    want_u = z3.If((uraw.t + c) * t.last + t.last >= t.res, (uraw.t + c) * t.last + t.last, t.res)
    h.ensures("C04.single_symmetric_correction", z3.Implies(rows, z3.And(lower.t == z3.ToReal(round_half_even_t(want_l)), upper.t == z3.ToReal(round_half_even_t(want_u)))))


def _holdout(h, t):
    """the design matrix rows of the non-reporting units as the Featurizer contract produced them"""
    for name, rec in reversed(h.interp.call_log):
        pass
    # predict() on an opaque design matrix is an uninterpreted function of the row: re-applying it to any
    # matrix over the non-reporting rows yields the same term
    fr = theory_ext.XFrame(t.nonrep.axis, {"<design>": V(z3.RealVal(0), (t.nonrep.axis,))}, t.nonrep.index, None)
    return theory_ext.FrameMatrix(fr)


def nonparametric_aggregate_run(h, keys, alpha=0.9):
    """world + the client's sequence on ONE nonparametric model object: aggregate predictions first, then the aggregate
    intervals (shared by the proof units and the conformance driver bounded/conformance_aggregates.py)"""
    lo_s, up_s = f"lower_{alpha}_turnout", f"upper_{alpha}_turnout"
    t = Three(h, "turnout", int_extra=(lo_s, up_s, "pred_turnout"))
    lo_u, up_u = t.nonrep.col(lo_s).t, t.nonrep.col(up_s).t
    # what add_unit_intervals wrote on the other two frames (proved in unit `model_results`)
    for f_ in (t.rep, t.third):
        f_.cols[lo_s] = f_.cols["results_turnout"]
        f_.cols[up_s] = f_.cols["results_turnout"]
        f_.cols["pred_turnout"] = f_.cols["results_turnout"]
    # unit-level postconditions of get_unit_prediction_intervals (C03.nonparametric.unit_intervals)
    h.requires("unit_bounds", z3.Implies(t.N, z3.And(lo_u >= t.res, up_u >= t.res)))
    self = model(h, NP)
    upi = NamedTuple("PredictionIntervals", ["lower", "upper", "conformalization"], [None, None, "conformalization-data"])
    k1, est = h.call_method(self, "get_aggregate_predictions", t.rep, t.nonrep, t.third, list(keys), "turnout")
    if k1 == "raise":
        return t, lo_u, up_u, self, k1, est, None, None
    kind, res = h.call_method(self, "get_aggregate_prediction_intervals", t.rep, t.nonrep, t.third, list(keys), alpha, upi, "turnout")
    return t, lo_u, up_u, self, k1, est, kind, res


def _np_agg(aggname, keys):
    rp = lambda ev: {"target": "verif_replays:aggregate_replay", "args": [list(keys)], "check": "result['exc'] is None and result['ok']"}  # noqa: E731

    @unit("C03", f"nonparametric.aggregate_intervals.{aggname}", fns=[f"{NP}.get_aggregate_prediction_intervals", f"{BASE}._get_reporting_aggregate_votes"])
    def agg(h):
        h.default_replay = rp
        t, lo_u, up_u, self, k1, est, kind, res = nonparametric_aggregate_run(h, keys)
        if k1 == "raise":
            return h.fail("predictions.no_raise", f"raised {est}")
        if kind == "raise":
            return h.fail("no_raise", f"raised {res}")
        lower, upper = res.lower, res.upper
        classification = "county_classification" in keys
        sR, dR = t.gsum("R", keys, t.res)
        sT, dT = t.gsum("T", keys, t.res)
        sN, dN = t.gsum("N", keys, t.res)
        lN, dl = t.gsum("N", keys, lo_u)
        uN, du = t.gsum("N", keys, up_u)
        counted = sR if classification else sR + sT
        ax = lower.axes[0]
        rows = z3.And(*ax.facts())
        # lemma instances (lean/FrameSums.lean): sums of whole numbers are whole, pointwise floors lift to sums
        for d in (dR, dT, dN, dl, du):
            sums.lemma_sum_int(h.ctx, d, name="lemma.sum_int")
        sums.lemma_sum_mono(h.ctx, dN, dl, name="lemma.sum_mono.lower")
        sums.lemma_sum_mono(h.ctx, dN, du, name="lemma.sum_mono.upper")
        h.ensures("C02.lower_is_counted_plus_unit_lowers", z3.Implies(rows, lower.t == counted + lN), replay=rp)
        h.ensures("C02.upper_is_counted_plus_unit_uppers", z3.Implies(rows, upper.t == counted + uN), replay=rp)
        h.ensures("floor", z3.Implies(rows, z3.And(lower.t >= counted + sN, upper.t >= counted + sN)), replay=rp)
        h.ensures("whole_numbers", z3.Implies(rows, z3.And(_isint(lower.t), _isint(upper.t))))
        h.ensures("finite", lower.nan is None and upper.nan is None and lower.inf is None and upper.inf is None)
        mR, mT, mN = t.member("R", keys), t.member("T", keys), t.member("N", keys)
        want_dom = z3.Or(mR, mN) if classification else z3.Or(mR, mT, mN)
        # C02: the interval columns sit on the row of their own group when add_agg_predictions assigns them positionally
        h.ensures("C02.interval_rows_align_with_estimates_table", frames.same_rows(ax, est.axis) or frames.provably_same_rows(ax, est.axis), replay=rp)
        h.ensures("C02.rows_sorted_by_group_covering_every_group", z3.And(z3.Implies(z3.And(*t.root.facts()), z3.Implies(want_dom, ax.present())), ax.order == ("sorted", tuple(keys))))
        # zero width where nothing is outstanding
        sums.lemma_sum_empty  # (documented: used below through the group-presence definition)
        h.ensures("zero_width_without_nonreporting_units", z3.Implies(z3.And(rows, z3.Not(_present_N(h, t, keys))), z3.And(lower.t == counted, upper.t == counted)))

    return agg


def _present_N(h, t, keys):
    """'group g has a non-reporting unit' as the presence predicate the code's groupby introduced"""
    defs = h.ctx.__dict__.get("_present_defs", {})
    mN = z3.simplify(t.member("N", keys))
    for name, (p, member, root) in defs.items():
        if z3.eq(z3.simplify(member), mN):
            return p
    raise Exception("presence predicate of the non-reporting groupby not found")


for _n, _k in AGGS.items():
    _np_agg(_n, _k)


def _np_agg_two_levels(aggname, keys):
    @unit("C13", f"nonparametric.aggregate_intervals_of_a_second_level.{aggname}", fns=[f"{NP}.get_aggregate_prediction_intervals"])
    def agg2(h):
        """the client calls get_aggregate_prediction_intervals once per requested level on ONE model object: the bounds of
        the SECOND level must be the counted votes plus the sums of that level's own unit bounds (nothing carried over
        from the first call)"""
        a1, a2 = 0.7, 0.9
        cols = tuple(f"{s_}_{a}_turnout" for a in (a1, a2) for s_ in ("lower", "upper")) + ("pred_turnout",)
        t = Three(h, "turnout", int_extra=cols)
        for f_ in (t.rep, t.third):
            for c in cols:
                f_.cols[c] = f_.cols["results_turnout"]
        self = model(h, NP)
        upi = NamedTuple("PredictionIntervals", ["lower", "upper", "conformalization"], [None, None, "conformalization-data"])
        rp = lambda ev: {"target": "verif_replays:level_independence_replay", "args": ["nonparametric"], "check": "result['exc'] is None and result['ok']"}  # noqa: E731
        h.default_replay = rp
        k1, est = h.call_method(self, "get_aggregate_predictions", t.rep, t.nonrep, t.third, list(keys), "turnout")
        if k1 == "raise":
            return h.fail("predictions.no_raise", f"raised {est}")
        out = {}
        for a in (a1, a2):
            kind, res = h.call_method(self, "get_aggregate_prediction_intervals", t.rep, t.nonrep, t.third, list(keys), a, upi, "turnout")
            if kind == "raise":
                return h.fail("no_raise", f"raised {res}")
            out[a] = res
        classification = "county_classification" in keys
        sR, _ = t.gsum("R", keys, t.res)
        sT, _ = t.gsum("T", keys, t.res)
        counted = sR if classification else sR + sT
        for a in (a1, a2):
            lN, _ = t.gsum("N", keys, t.nonrep.col(f"lower_{a}_turnout").t)
            uN, _ = t.gsum("N", keys, t.nonrep.col(f"upper_{a}_turnout").t)
            rows = z3.And(*out[a].lower.axes[0].facts())
            h.ensures(f"level_{a}.bounds_are_counted_votes_plus_this_levels_unit_bounds", z3.Implies(rows, z3.And(out[a].lower.t == counted + lN, out[a].upper.t == counted + uN)), replay=rp)

    return agg2


for _n, _k in AGGS.items():
    _np_agg_two_levels(_n, _k)


@unit("C13", "nonparametric.two_estimands_one_model", fns=[f"{NP}.get_unit_prediction_intervals", f"{CO}.get_unit_prediction_interval_bounds"])
def two_estimands(h):
    """the client calls get_unit_prediction_intervals for every estimand on ONE model object: the interval of the
    second estimand must be built from ITS OWN correction (no state carried over from the first call)"""
    t = Three(h, "turnout", extra=("residuals_turnout", "residuals_dem", "f1"), int_extra=("results_dem", "last_election_results_dem"))
    h.contracts[FEAT] = theory_ext.featurizer_contract
    from pyvc import theory_np

    theory_np.OPAQUE_ROUND[0] = True  # only "same argument, same rounded value" is needed here
    corr = []

    def popcorr(interp, self, conformalization_data, scores, correction_quantile, estimand):
        c = z3.Real(f"population_correction_{estimand}")
        corr.append((estimand, c))
        return V(c)

    h.contracts[f"{NP}._compute_population_correction"] = popcorr
    # (a concrete level keeps the split arithmetic linear; the general arithmetic is C14.nonparam.split / C03.nonparametric.unit_intervals)
    alpha = h.real("alpha")
    h.requires("alpha_is_0.9", alpha == z3.RealVal("9/10"))
    self = model(h, NP, features=["f1"])
    from pyvc.theory_np import SeqLen

    self.attrs["n_train"] = SeqLen(t.rep.axis)
    kind, m = h.call_method(self, "get_minimum_reporting_units", alpha)
    h.requires("gate", t.rep.axis.n >= m.t)
    h.forall_rows(t.root, z3.And(t.nonrep.col("last_election_results_dem").t >= 1, t.nonrep.col("results_dem").t >= 0))
    out = {}
    for e in ("turnout", "dem"):
        n0 = len(getattr(h.interp, "qr_models", []))
        kind, res = h.call_method(self, "get_unit_prediction_intervals", t.rep, t.nonrep, alpha, e)
        if kind == "raise":
            return h.fail(f"no_raise.{e}", f"raised {res}")
        out[e] = (res, h.interp.qr_models[n0:])
    rows = z3.And(*t.nonrep.axis.facts())
    for e in ("turnout", "dem"):
        res, qs = out[e]
        c = dict(corr)[e]
        last = t.nonrep.col(f"last_election_results_{e}").t
        rs = t.nonrep.col(f"results_{e}").t
        lraw, uraw = qs[0].predict(_holdout(h, t)), qs[1].predict(_holdout(h, t))
        want_l = z3.If((lraw.t - c) * last + last >= rs, (lraw.t - c) * last + last, rs)
        want_u = z3.If((uraw.t + c) * last + last >= rs, (uraw.t + c) * last + last, rs)
        h.ensures(f"own_correction.{e}", z3.Implies(rows, z3.And(res.lower.t == theory_np.RND(want_l, z3.IntVal(0)), res.upper.t == theory_np.RND(want_u, z3.IntVal(0)))), replay=lambda ev: {"target": "verif_replays:two_estimands_replay", "args": [], "check": "result['exc'] is None and result['ok']"})


# the gaussian aggregate units live in C15 (which imports this module): loading it registers them under C03 / C02 as well
import contracts.C15  # noqa: E402,F401

# the unit table (reporting / unexpected / non-modelled units carry their counted votes as prediction and both bounds): the
# ModelResultsHandler unit of contracts/C01.py, registered here as well
import contracts.C01 as _c01  # noqa: E402,F401
from pyvc.api import UNITS as _UNITS  # noqa: E402

for _u in list(_UNITS.get("C01", [])):
    if _u["name"] == "model_results.unit_table" and not any(x["name"] == "model_results.unit_table" for x in _UNITS.get("C03", [])):
        _UNITS.setdefault("C03", []).append(dict(_u, prop="C03"))
