"""C14 -- enough reporting units => an estimate; too few => the dedicated error (DESIGN section 4, C14)."""
import z3

from pyvc.api import unit
from pyvc.values import NamedTuple, Obj, Undecided, V

NP = "elexmodel.models.NonparametricElectionModel.NonparametricElectionModel"
GA = "elexmodel.models.GaussianElectionModel.GaussianElectionModel"
BO = "elexmodel.models.BootstrapElectionModel.BootstrapElectionModel"
CO = "elexmodel.models.ConformalElectionModel.ConformalElectionModel"
CL = "elexmodel.client.ModelClient"
LEVEL = "proof"
BOUNDED = [{"name": "float_grid", "script": "c14_float_grid.py", "timeout": 1800}]
ASSUMPTIONS = [
    "A-REAL: floats as reals; round(x,2) is exact round-half-even of 100x (the float evaluation is cross-checked by the bounded companion for alpha in k/1000, n <= 5000)",
    "the solver needs a positive total weight: at least one training row with last_election_results >= 1 (V2: baseline counts are non-negative, +1 added)",
]

class _Shape:
    def __init__(self, n):
        self.shape = (n,)


def _np_replay(alpha, n, check):
    def rp(ev):
        return {"target": "verif_replays:nonparam_split", "args": [ev(alpha), ev(n)], "check": check}

    return rp


@unit("C14", "nonparam.minimum", fn=f"{NP}.get_minimum_reporting_units")
def np_minimum(h):
    alpha = h.real("alpha")
    h.requires("alpha_open", 0 < alpha, alpha < 1)
    self = h.obj(NP)
    kind, m = h.call_method(self, "get_minimum_reporting_units", alpha)
    if kind == "raise":
        return h.fail("no_raise", f"raised {m}")
    c = (1 + alpha) / (1 - alpha)
    h.ensures("is_ceiling_of_ratio", (m >= c) & (m - 1 < c))
    h.ensures("at_least_two", m >= 2)


@unit("C14", "nonparam.split", fns=[f"{NP}._compute_conf_frac", f"{NP}.get_minimum_reporting_units", f"{CO}.get_unit_prediction_interval_bounds", f"{NP}.get_unit_prediction_intervals"])
def np_split(h):
    """for all alpha, all n >= minimum(alpha): the split computed by the real expressions leaves >=1 training
    row, >=1 calibration row, and a correction quantile < 1."""
    alpha = h.real("alpha")
    n = h.int("n")
    h.requires("alpha_open", 0 < alpha, alpha < 1)
    self = h.obj(NP)
    kind, m = h.call_method(self, "get_minimum_reporting_units", alpha)
    if kind == "raise":
        return h.fail("minimum.no_raise", f"raised {m}")
    h.requires("at_or_above_minimum", n >= m)
    kind, conf = h.call_method(self, "_compute_conf_frac", n, alpha)
    if kind == "raise":
        return h.fail("conf_frac.no_raise", f"raised {conf}", replay=_np_replay(alpha, n, "result['completed']"))
    self.attrs["n_train"] = n
    # the real statement `train_rows = math.floor(self.n_train * conf_frac)` of get_unit_prediction_interval_bounds
    kind, env = h.slice(f"{CO}.get_unit_prediction_interval_bounds", first_assign="train_rows", last_assign="train_rows", env={"self": self, "conf_frac": conf})
    if kind == "raise":
        return h.fail("train_rows.no_raise", f"raised {env}")
    train = env["train_rows"]
    rp = _np_replay(alpha, n, "result['completed']")
    h.ensures("train_rows_ge_1", train >= 1, replay=rp)
    h.ensures("train_rows_lt_n", train <= n - 1, replay=rp)
    ncal = n - train
    # the real statement `correction_quantile = alpha * (1 + 1 / prediction_intervals.conformalization.shape[0])`
    pi = NamedTuple("PredictionIntervals", ["lower", "upper", "conformalization"], [None, None, _Shape(ncal)])
    kind, env = h.slice(f"{NP}.get_unit_prediction_intervals", first_assign="correction_quantile", last_assign="correction_quantile", env={"self": self, "alpha": alpha, "prediction_intervals": pi})
    if kind == "raise":
        return h.ensures("quantile.no_raise", False, replay=rp)
    q = env["correction_quantile"]
    h.ensures("quantile_lt_1", q < 1, replay=rp)
    h.ensures("quantile_gt_0", q > 0, replay=rp)


@unit("C14", "gaussian.split", fns=[f"{GA}._compute_conf_frac", f"{GA}.get_minimum_reporting_units", f"{CO}.get_unit_prediction_interval_bounds"])
def ga_split(h):
    alpha = h.real("alpha")
    n = h.int("n")
    h.requires("alpha_open", 0 < alpha, alpha < 1)
    self = h.obj(GA)
    kind, m = h.call_method(self, "get_minimum_reporting_units", alpha)
    if kind == "raise":
        return h.fail("minimum.no_raise", f"raised {m}")
    h.requires("at_or_above_minimum", n >= m)
    kind, conf = h.call_method(self, "_compute_conf_frac")
    self.attrs["n_train"] = n
    kind, env = h.slice(f"{CO}.get_unit_prediction_interval_bounds", first_assign="train_rows", last_assign="train_rows", env={"self": self, "conf_frac": conf})
    if kind == "raise":
        return h.fail("train_rows.no_raise", f"raised {env}")
    train = env["train_rows"]
    h.ensures("train_rows_ge_1", train >= 1)
    h.ensures("calibration_rows_ge_1", n - train >= 1)
    # the gaussian model bootstraps the scale of the calibration scores (scipy.stats.bootstrap: >= 2 observations, ValueError
    # otherwise); exported to C15 (fit_cascade_step.*, group_statistics.*: every fitted group then holds >= 3 of them)
    h.ensures("calibration_rows_ge_3", n - train >= 3)


@unit("C14", "bootstrap.minimum", fn=f"{BO}.get_minimum_reporting_units")
def bo_minimum(h):
    alpha = h.real("alpha")
    h.requires("alpha_open", 0 < alpha, alpha < 1)
    self = h.obj(BO)
    kind, m = h.call_method(self, "get_minimum_reporting_units", alpha)
    h.ensures("positive_constant", kind == "return" and not isinstance(m, V) and m >= 1)


def _gate(h, k, model_cls):
    """the gate statements of ModelClient.get_estimates, executed from the real AST, for k requested levels"""
    alphas = [h.real(f"alpha{i}") for i in range(k)]
    for a in alphas:
        h.requires("alpha_open", 0 < a, a < 1)
    n = h.int("n_reporting")
    h.requires("n_nonneg", n >= 0)
    model = h.obj(model_cls)
    mins = []
    for a in alphas:
        kind, m = h.call_method(model, "get_minimum_reporting_units", a)
        if kind == "raise":
            return h.fail("minimum.no_raise", "raised")
        mins.append(m)
    self = h.obj(CL, model=model)
    # statements between the max-loop and the raise that do not touch the gate variables are skipped by
    # executing two slices: (1) the max loop, (2) the `if ... raise ModelNotEnoughSubunitsException`
    kind, env = h.slice(f"{CL}.get_estimates", first_assign="minimum_reporting_units_max", last_assign="minimum_reporting_units_max", env={"self": self, "prediction_intervals": alphas})
    if kind == "raise":
        return h.fail("maxloop.no_raise", f"raised {env}")
    mx = env["minimum_reporting_units_max"]
    import z3 as _z

    spec_max = mins[0]
    from pyvc.theory_np import py_max

    spec_max = py_max(*mins) if k > 1 else mins[0]
    nm_ = {NP: "nonparametric", GA: "gaussian"}.get(model_cls)

    def rp(ev):
        if nm_ is None:
            raise Exception("no end-to-end replay for this estimator")
        return {"target": "verif_replays:gate_replay", "args": [[float(ev(a_)) for a_ in alphas], int(ev(n))], "kwargs": {"pi_method": nm_}, "check": "result['ok']"}

    h.ensures(f"max_over_levels[k={k}]", mx == spec_max, replay=rp)
    # (every local the first slice left behind is visible to the second one -- e.g. the loop variable of the max loop, which
    # holds the minimum of the LAST requested level)
    kind, env2 = h.slice(f"{CL}.get_estimates", first_assign="n_reporting_expected_units", until_raise="ModelNotEnoughSubunitsException", env={**{k_: v_ for k_, v_ in env.items() if k_ not in ("self",)}, "self": self, "minimum_reporting_units_max": mx, "reporting_units": _Frame0(n), "unexpected_units": _Opaque(), "nonreporting_units": _Frame0(h.int("n_nonrep")), "non_modeled_units": []})
    too_few = n < spec_max
    if kind == "raise":
        h.ensures(f"raises_dedicated_error[k={k}]", env2.clsname == "ModelNotEnoughSubunitsException")
        h.ensures(f"raises_only_if_too_few[k={k}]", too_few, replay=rp)
    else:
        h.ensures(f"passes_only_if_enough[k={k}]", ~too_few if isinstance(too_few, V) else not too_few, replay=rp)


class _Frame0:
    """a frame of which only the number of rows is used"""

    def __init__(self, n):
        self.shape = (n, 0)

    def pyvc_len(self, interp):
        return self.shape[0]


class _Opaque:
    def pyvc_getitem(self, interp, key):
        return _Opaque()

    def pyvc_getattr(self, interp, name):
        if name == "str":
            return _Opaque()
        return lambda *a, **k: _Opaque()

    def pyvc_compare(self, interp, op, o, rev):
        return _Opaque()

    def pyvc_len(self, interp):
        return 0


for _k in (1, 2, 3):
    for _cls, _nm in ((NP, "nonparametric"), (GA, "gaussian"), (BO, "bootstrap")):
        unit("C14", f"gate.{_nm}.k{_k}", fns=[f"{CL}.get_estimates", f"{_cls}.get_minimum_reporting_units"])(lambda h, _k=_k, _cls=_cls: _gate(h, _k, _cls))


def _gate_any_number_of_levels(h, model_cls):
    """the gate for an ARBITRARY number of requested levels: the max-loop of get_estimates is verified with a loop
    invariant (initially / preserved / used after the loop) instead of being unrolled"""
    from contracts.common import symlist

    levels = symlist(h, "prediction_intervals", z3.RealSort())
    A = levels.space
    x = z3.Int("x!lvl")
    h.ctx.assume(z3.ForAll([x], z3.Implies(z3.And(x >= 0, x < A.n), z3.And(z3.substitute(levels.elem, (A.u, x)) > 0, z3.substitute(levels.elem, (A.u, x)) < 1))))
    h.requires("levels_open", levels.elem > 0, levels.elem < 1)
    n = h.int("n_reporting")
    h.requires("n_nonneg", n >= 0)
    model = h.obj(model_cls)
    kind, mg = h.call_method(model, "get_minimum_reporting_units", V(levels.elem))
    if kind == "raise":
        return h.fail("minimum.no_raise", "raised")
    mterm = real(to_term(mg))
    minf = lambda j: z3.substitute(mterm, (A.u, j))  # noqa: E731

    def inv(get, i, seq):
        M = real(to_term(get("minimum_reporting_units_max")))
        j = z3.Int("j!inv")
        return z3.And(i >= 0, i <= A.n, M >= 0, z3.ForAll([j], z3.Implies(z3.And(j >= 0, j < i), M >= minf(j))), z3.Or(M == 0, z3.Exists([j], z3.And(j >= 0, j < i, M == minf(j)))))

    h.interp.loop_invariants = {"*": inv}
    self = h.obj(CL, model=model)
    kind, env = h.slice(f"{CL}.get_estimates", first_assign="minimum_reporting_units_max", last_assign="minimum_reporting_units_max", env={"self": self, "prediction_intervals": levels})
    if kind == "raise":
        return h.fail("maxloop.no_raise", f"raised {env}")
    mx = env["minimum_reporting_units_max"]
    M = real(to_term(mx))
    j = z3.Int("j!post")
    is_max = z3.And(z3.ForAll([j], z3.Implies(z3.And(j >= 0, j < A.n), M >= minf(j))), z3.Or(z3.And(A.n == 0, M == 0), z3.Exists([j], z3.And(j >= 0, j < A.n, M == minf(j)))), M >= 0)
    h.ensures("after_the_loop_it_is_the_largest_minimum", is_max)
    kind, env2 = h.slice(f"{CL}.get_estimates", first_assign="n_reporting_expected_units", until_raise="ModelNotEnoughSubunitsException", env={**{k_: v_ for k_, v_ in env.items() if k_ not in ("self",)}, "self": self, "minimum_reporting_units_max": mx, "reporting_units": _Frame0(n), "unexpected_units": _Opaque(), "nonreporting_units": _Frame0(h.int("n_nonrep")), "non_modeled_units": []})
    too_few = z3.ToReal(n.t) < M
    if kind == "raise":
        h.ensures("raises_dedicated_error", env2.clsname == "ModelNotEnoughSubunitsException")
        h.ensures("raises_only_if_too_few", too_few)
    else:
        h.ensures("passes_only_if_enough", z3.Not(too_few))


from pyvc.values import real, to_term  # noqa: E402

for _cls, _nm in ((NP, "nonparametric"), (GA, "gaussian"), (BO, "bootstrap")):
    unit("C14", f"gate.{_nm}.any_number_of_levels", fns=[f"{CL}.get_estimates", f"{_cls}.get_minimum_reporting_units"])(lambda h, _cls=_cls: _gate_any_number_of_levels(h, _cls))


# ---- "Duplicate reporting unit ids are rejected with a client error" --------------------------------------------------------
class _IdRows:
    """reporting_units of which only the unit-id column matters here: n rows, ids NOT assumed unique"""

    def __init__(self, h):
        from pyvc.values import Space

        self.h = h
        self.rows = Space("reporting_rows")
        h.syms["n_reporting_rows"] = self.rows.n
        h.ctx.assume(z3.And(*self.rows.facts()))
        self.fips = z3.Function("reporting_unit_id", z3.IntSort(), z3.StringSort())
        h.syms["reporting_unit_id"] = self.fips
        self.cnt = z3.Function("occurrences_of_id", z3.StringSort(), z3.IntSort())  # value_counts(): id -> how many rows
        self.w1 = z3.Function("first_row_with_id", z3.StringSort(), z3.IntSort())
        self.w2 = z3.Function("second_row_with_id", z3.StringSort(), z3.IntSort())
        self.ids_done, self.pairs_done = [], []

    def inr(self, i):
        return z3.And(i >= 0, i < self.rows.n)

    def at_id(self, k):
        """lemma count_gt_one_iff (=>) at the id k: more than one occurrence -> two different rows carry it"""
        c = self.h.ctx
        if any(z3.eq(k, x) for x in self.ids_done):
            return
        self.ids_done.append(k)
        a, b = self.w1(k), self.w2(k)
        c.assume(self.cnt(k) >= 0)
        c.assume(z3.Implies(self.cnt(k) > 1, z3.And(self.inr(a), self.inr(b), a != b, self.fips(a) == k, self.fips(b) == k)))

    def at_pair(self, i, j):
        """lemma count_gt_one_iff (<=) at the rows i, j: two different rows with one id -> the id occurs more than once"""
        c = self.h.ctx
        self.pairs_done.append((i, j))
        c.assume(z3.Implies(z3.And(self.inr(i), self.inr(j), i != j, self.fips(i) == self.fips(j)), self.cnt(self.fips(i)) > 1))

    def pyvc_getitem(self, interp, key):
        if key == "geographic_unit_fips":
            return _IdSeries(self)
        raise Undecided(f"reporting_units[{key!r}] in the duplicate check")


class _IdSeries:
    def __init__(self, w):
        self.w = w

    def pyvc_getattr(self, interp, name):
        if name == "value_counts":
            from pyvc import theory_np

            theory_np._use("A-VALUECOUNTS: Series.value_counts() maps each value to its number of occurrences; s[s > c] keeps the entries above c; .to_dict() has one item per kept entry")
            return lambda: _Counts(self.w, None)
        raise Undecided(f"Series.{name} in the duplicate check")


class _Counts:
    """value_counts() (keep is None) or its selection by a threshold mask (keep = lambda count: Bool)"""

    def __init__(self, w, keep):
        self.w, self.keep = w, keep

    def pyvc_compare(self, interp, op, other, swapped):
        if self.keep is not None or swapped or not isinstance(other, int):
            return NotImplemented
        import operator

        ops = {"Gt": operator.gt, "GtE": operator.ge, "Lt": operator.lt, "LtE": operator.le, "Eq": operator.eq, "NotEq": operator.ne}
        if op not in ops:
            return NotImplemented
        return _CountMask(self.w, lambda c, f=ops[op], o=other: f(c, o))

    def pyvc_getitem(self, interp, key):
        if isinstance(key, _CountMask) and self.keep is None and key.w is self.w:
            return _Counts(self.w, key.pred)
        raise Undecided("indexing value_counts() with something that is not a mask of it")

    def pyvc_getattr(self, interp, name):
        if name == "to_dict":
            return lambda: self
        raise Undecided(f"value_counts().{name}")

    def pyvc_len(self, interp):
        """number of kept ids: a symbol n >= 0 with  n > 0  <=>  some id is kept (Skolem id + instances at the ids in play)"""
        w, h = self.w, self.w.h
        keep = self.keep or (lambda c: z3.BoolVal(True))
        n = z3.Int("number_of_kept_ids")
        kstar = z3.String("some_kept_id")
        h.ctx.assume(n >= 0)
        w.at_id(kstar)
        h.ctx.assume(z3.Implies(n > 0, z3.And(w.cnt(kstar) >= 1, keep(w.cnt(kstar)))))
        self.instance = lambda k: h.ctx.assume(z3.Implies(z3.And(w.cnt(k) >= 1, keep(w.cnt(k))), n > 0))
        for k in [w.fips(w.rows.u), w.fips(w.rows.u2)] + list(getattr(w, "extra_ids", [])):
            w.at_id(k)
            self.instance(k)
        return V(n)

    def pyvc_str(self, interp):
        return V(z3.String("duplicate_units_text"))


class _CountMask:
    def __init__(self, w, pred):
        self.w, self.pred = w, pred


@unit("C14", "gate.duplicate_reporting_unit_ids_are_rejected", fns=[f"{CL}.get_estimates"])
def duplicates(h):
    """the real statements of get_estimates after the gate: a ModelClientException is raised if and only if two different
    rows of the reporting units carry the same unit id"""
    w = _IdRows(h)
    # the statement's condition, with Skolem witnesses: dup <=> two different rows with one id
    dup = z3.Bool("two_different_rows_share_an_id")
    p, q = z3.Int("dup_row_p"), z3.Int("dup_row_q")
    h.ctx.assume(z3.Implies(dup, z3.And(w.inr(p), w.inr(q), p != q, w.fips(p) == w.fips(q))))

    def dup_instance(i, j):
        h.ctx.assume(z3.Implies(z3.And(w.inr(i), w.inr(j), i != j, w.fips(i) == w.fips(j)), dup))

    dup_instance(w.rows.u, w.rows.u2)
    w.extra_ids = [w.fips(p), w.fips(q)]
    w.at_pair(p, q)
    w.at_pair(w.rows.u, w.rows.u2)
    self = h.obj(CL)
    rp = lambda ev: {"target": "verif_replays:duplicate_units_replay", "args": [], "check": "result['exc'] is None and result['ok']"}  # noqa: E731
    h.default_replay = rp
    kind, env = h.slice(f"{CL}.get_estimates", first_with_call="value_counts", until_raise="ModelClientException", env={"self": self, "reporting_units": w})
    kstar = z3.String("some_kept_id")
    dup_instance(w.w1(kstar), w.w2(kstar))
    if kind == "raise":
        h.ensures("raises_the_client_error", env.clsname == "ModelClientException", why=str(env), replay=rp)
        h.ensures("raises_only_if_two_rows_share_an_id", dup, replay=rp)
    else:
        h.ensures("passes_only_if_all_reporting_unit_ids_are_different", z3.Not(dup), replay=rp)


@unit("C14", "gate.reporting_rows_reach_the_duplicate_check_with_their_repetitions", fns=["elexmodel.handlers.data.CombinedData.CombinedDataHandler.get_units", "elexmodel.handlers.data.CombinedData.CombinedDataHandler._get_non_modeled_units"])
def reporting_rows_keep_their_repetitions(h):
    """the duplicate check of get_estimates (unit above) sees what get_units hands over: on every path of the REAL get_units
    the reporting frame must not have been through a de-duplicating operation.  The frame theory works under V1 (the ids of
    one base table are different), where drop_duplicates changes nothing -- so each frame carries a ghost mark of the
    de-duplicating operations its rows went through, and this clause (which is about the inputs V1 excludes) asks for the
    mark to be empty; the replay runs the real client on a feed with a repeated reporting id."""
    import contracts.C09 as c09

    rp = lambda ev: {"target": "verif_replays:duplicate_units_replay", "args": [], "check": "result['exc'] is None and result['ok']"}  # noqa: E731
    h.default_replay = rp
    w, p, kind, res = c09.run_get_units(h, ["turnout"], ["postal_code", "unit"])
    if kind == "raise":
        return h.fail("no_raise", f"raised {res}")
    rep_f = res[0]
    marks = list(getattr(rep_f, "_dedup", None) or [])
    h.ensures("no_deduplicating_operation_on_the_reporting_frame", z3.BoolVal(not marks), why=f"operations: {marks}", replay=rp, replay_decides=True)
