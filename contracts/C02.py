"""C02 -- every aggregate equals the sum of its units; levels agree with each other (DESIGN section 4, C02).

The identities are postconditions of functions that C01 / C03 already put under contract; those units are
re-registered here, and this module adds (a) ModelResultsHandler (unit table, positional assignment of the
interval columns = alignment obligations), (b) the 'levels agree' lemma over the aggregate contracts."""
import z3

import contracts.C01 as C01  # noqa: F401
import contracts.C03 as C03  # noqa: F401
from contracts.common import AGGS, Three
from pyvc import frames, sums
from pyvc.api import UNITS, unit
from pyvc.values import NamedTuple, V

LEVEL = "proof"
BOUNDED = [
    {"name": "gaussian_interval_rows_aligned", "script": "c15_gaussian.py", "timeout": 2400},
    # differential test of the theory entries behind the aggregate proofs (symbolic result evaluated on concrete elections
    # vs. the real pandas run): a test of assumptions, not a proof
    {"name": "theory_conformance_aggregates", "script": "conformance_aggregates.py", "python": "vt", "tiers": ["quick"], "args": ["--n", "4"], "timeout": 1200},
    {"name": "theory_conformance_aggregates", "script": "conformance_aggregates.py", "python": "vt", "tiers": ["thorough"], "args": ["--n", "40"], "timeout": 3000},
]
MRH = "elexmodel.handlers.data.ModelResults.ModelResultsHandler"
ASSUMPTIONS = C03.ASSUMPTIONS + [
    "gaussian estimator: units gaussian.aggregate_intervals.* (defined in contracts/C15.py) prove the alignment of its interval rows and the bound formula with GaussianModel.fit under the contract proved in C15; the bounded end-to-end companion is kept",
    "bootstrap estimator (turnout/margin identities): see C06 units; the string-order lemma for multi-key aggregates is assumed (V3)",
]

for _u in list(UNITS.get("C01", [])):
    if _u["name"].startswith("aggregate_predictions."):  # (not the bootstrap.* ones: registered below from C06)
        UNITS.setdefault("C02", []).append(dict(_u, prop="C02", name="base." + _u["name"]))
for _u in list(UNITS.get("C03", [])):
    if _u["name"].startswith("nonparametric.aggregate_intervals."):
        UNITS.setdefault("C02", []).append(dict(_u, prop="C02", name=_u["name"]))
# "for the nonparametric estimator the same identity holds for the lower and upper bounds" -- also for the SECOND level
# requested on one model object (units defined next to the function in contracts/C03.py)
for _u in list(UNITS.get("C13", [])):
    if _u["name"].startswith("nonparametric.aggregate_intervals_of_a_second_level.") and not any(x["name"] == _u["name"] for x in UNITS.get("C02", [])):
        UNITS.setdefault("C02", []).append(dict(_u, prop="C02"))
# the bootstrap estimator's aggregate predictions (turnout = sum of unit turnout, margin = sum of unit margins over
# turnout, interval rows aligned with the estimates table): the C06 units, registered here as well
import contracts.C06 as _c06  # noqa: E402,F401

for _u in list(UNITS.get("C06", [])):
    if _u["name"].startswith("aggregate_predictions.") or _u["name"].startswith("aggregate_intervals."):
        UNITS.setdefault("C02", []).append(dict(_u, prop="C02", name="bootstrap." + _u["name"]))


_handler = C01._handler  # (the ModelResultsHandler unit lives in contracts/C01.py)
for _u in list(UNITS.get("C01", [])):
    if _u["name"] == "model_results.unit_table":
        UNITS.setdefault("C02", []).append(dict(_u, prop="C02"))


def _levels(aggname, keys):
    @unit("C02", f"levels_agree.{aggname}", fns=[f"{C01.BASE}.get_aggregate_predictions"])
    def levels(h):
        """County / district tables sum to the state table (and the state table to the unit table).
        By the postconditions of get_aggregate_predictions (units base.aggregate_predictions.*) every column of the
        finer table is  col(s,c) = Σ_{u in X, state(u)=s, fine(u)=c} f_X(u)  summed over X in {R, T*, N}, and the
        state table's is  col(s) = Σ_{u in X, state(u)=s} f_X(u).  Lemma sum_fiberwise (lean/FrameSums.lean):
            Σ_c Σ_{u in A, fine(u)=c} f(u) = Σ_{u in A} f(u)   provided every u in A has a (non-null) fine key.
        The obligations below are exactly the side conditions of that lemma instance, per frame: the finer table's
        summation domain for group (s,c) is the state table's domain for s intersected with fine(u)=c, and every
        unit of the state domain carries a fine key (for the third frame this is a hypothesis of the statement:
        units that cannot be attributed to a county are by definition not in the county table)."""
        t = Three(h, "turnout", int_extra=("pred_turnout",))
        fine = keys[1]
        gs = frames.keyspace(list(keys), {k: z3.StringSort() for k in keys})
        st = frames.keyspace(["postal_code"], {"postal_code": z3.StringSort()})
        facts = z3.And(*t.root.facts())
        h.requires("same_state", gs.keyvars["postal_code"] == st.keyvars["postal_code"])
        for X in ("R", "N", "T"):
            if X == "T" and "county_classification" in keys:
                continue  # classification tables omit the third frame on purpose (C01)
            dom_f = t.member(X, keys)
            dom_s = t.member(X, ["postal_code"])
            keynull = t.knullT[fine] if X == "T" else z3.BoolVal(False)
            h.ensures(f"fiberwise.{X}.fine_domain_is_state_domain_cut_by_fine_key", z3.Implies(facts, dom_f == z3.And(dom_s, z3.Not(keynull), t.keys[fine] == gs.keyvars[fine])))
            if X != "T":
                h.ensures(f"fiberwise.{X}.every_unit_has_a_fine_key", z3.Implies(z3.And(facts, dom_s), z3.Not(keynull)))
        sums.LEMMAS_USED.append("sum_fiberwise") if "sum_fiberwise" not in sums.LEMMAS_USED else None

    return levels


for _n, _k in AGGS.items():
    if _n != "state":
        _levels(_n, _k)
