"""C10 -- outstanding and excluded units cannot influence anyone else's estimate (DESIGN section 4, C10).

Self-composition: the REAL functions are executed twice on two elections that differ only in the live count of one
unit x (below the threshold in both, or in the third frame); the two results are related.  The solver / featurizer /
outlier-model contracts are FUNCTIONS of their inputs (provably equal request => same answer), which is exactly
what lets an unintended dependence show up as a refuted obligation."""
import z3

import contracts.C03 as C03
import contracts.C09 as C09
from contracts.common import AGGS, CDH, Three, World, symlist
from pyvc import frames, sums, theory_ext
from pyvc.api import unit
from pyvc.theory_np import round_half_even_t
from pyvc.values import NamedTuple, V

LEVEL = "proof"
NP, CO, FEAT, BASE = C03.NP, C03.CO, C03.FEAT, C03.BASE
HC = "elexmodel.client.HistoricalModelClient"
ASSUMPTIONS = C03.ASSUMPTIONS + [
    "A-QR / Featurizer / outlier model as FUNCTIONS of their requests: provably equal inputs give equal outputs (and nothing is assumed when the inputs differ)",
    "Featurizer reads only feature / fixed-effect columns, postal_code, reporting, unit_category: proved on the real class for every configuration of the C16 featurizer units (obligation matrices_depend_only_on_...), for level names from a finite universe",
    "scope: versioned_data_handler is None and correct_from_presidential is False (defaults); the extrapolation path merges across units and is NOT verified; bootstrap estimator: see the bounded companion; gaussian aggregates: units gaussian.aggregate_intervals.* (contracts/C15.py) -- every group's bound is proved to be a function of its own outstanding rows and of calibration statistics only",
]
BOUNDED = [{"name": "perturbation_pairs", "script": "c10_pairs.py", "timeout": 1500}, {"name": "gaussian_floor_terms_stay_in_their_own_group", "script": "c15_gaussian.py", "timeout": 2400}]


def outlier_function_contract(registry):
    """_fit_outlier_detection_model as a function of the frame it is given: same rows with the same values of the
    columns it can read (response, baseline_weights, features, postal_code) => same flagged rows."""

    def con(interp, self, reporting_units, response_variable, outlier_z_threshold):
        ax = reporting_units.axis
        cols = [c for c in (response_variable, "baseline_weights", "postal_code", "baseline_normalized_margin") if c in reporting_units.cols]
        sig = dict(dom=ax.doms[0], cols=[(c, reporting_units.cols[c].t) for c in cols], rv=response_variable)
        fn = None
        for prev in registry:
            p = prev["sig"]
            if p["rv"] != sig["rv"] or [c for c, _ in p["cols"]] != [c for c, _ in sig["cols"]]:
                continue
            conds = [p["dom"] == sig["dom"]] + [z3.Implies(sig["dom"], a == b) for (_, a), (_, b) in zip(p["cols"], sig["cols"])]
            s = z3.Solver()
            s.set("timeout", 3000)
            for f in interp.ctx.pc:
                s.add(f)
            s.add(z3.Not(z3.And(*conds)))
            if s.check() == z3.unsat:
                fn = prev["fn"]
                break
        if fn is None:
            from pyvc.values import fresh_name

            fn = z3.Function(fresh_name(f"flag_{response_variable}"), z3.IntSort(), z3.BoolSort())
            registry.append(dict(sig=sig, fn=fn))
        return reporting_units.filter(V(fn(ax.root.u), (ax,)))._new()

    return con


def _perturbed_world(h, w, x0, cols_changed):
    """a second World that differs from w only in the listed live columns of unit x0"""
    u = w.root.u
    w2 = World.__new__(World)
    w2.__dict__.update(w.__dict__)
    new = {}
    for c in cols_changed:
        nv = z3.Real(f"new_{c}")
        h.syms[f"new_{c}"] = nv
        new[c] = nv
    def pert(fr):
        cols = {}
        for k, c in fr.cols.items():
            cols[k] = V(z3.If(u == x0, new[k], c.t), (), None) if k in new else c
        return frames.base_frame(w.root, fr.axis.doms[0], {k: (v.t if isinstance(v, V) else v) for k, v in cols.items()}, "geographic_unit_fips")
    w2.data = pert(w.data)
    w2.current = pert(w.current)
    w2.new = new
    return w2


def _get_units_pair(h, kind, estimands=("turnout",)):
    w = World(h, list(estimands))
    u = w.root.u
    x0 = z3.Int("x_perturbed_unit")
    h.syms["x_perturbed_unit"] = x0
    h.requires("x_in_range", x0 >= 0, x0 < w.root.n)
    thr, lo, hi, zt = h.real("thr"), h.real("tf_lower"), h.real("tf_upper"), h.real("z_threshold")
    fit_m, fit_t = h.bool("fit_margin_outlier_model"), h.bool("fit_turnout_outlier_model")
    ublk, pblk = symlist(h, "unit_blocklist"), symlist(h, "postal_code_blocklist")
    at = lambda t: z3.substitute(t, (u, x0))  # noqa: E731
    c = w.cols
    # every live column of the unit that depends on its counts
    live = ["results_turnout", "results_weights"] + (["results_margin", "results_normalized_margin"] if "margin" in estimands else [])
    live = [x for x in live if x in w.data.cols]
    changed = live + ["turnout_factor"]
    if kind == "below_threshold":
        h.requires("x_is_outstanding", at(w.inData(u)), at(c["percent_expected_vote"]) < thr.t)
    elif kind == "blocklisted":
        h.requires("x_is_blocklisted", at(w.inData(u)), z3.Or(ublk.mem()(at(c["geographic_unit_fips"])), pblk.mem()(at(c["postal_code"]))))
    elif kind == "zero_baseline":
        bw = at(c["baseline_weights"])
        h.requires("x_has_zero_baseline", at(w.inData(u)), bw == 0)
        changed = list(live)  # turnout_factor stays 0 (0 denominator -> 0)
    elif kind == "unexpected":
        h.requires("x_is_unexpected", at(w.inFeed(u)), z3.Not(at(w.inData(u))))
    w2 = _perturbed_world(h, w, x0, changed)
    reg = []
    h.contracts[f"{CDH}._fit_outlier_detection_model"] = outlier_function_contract(reg)
    outs = []
    for ww in (w, w2):
        self = ww.handler()
        k, res = h.call_method(self, "get_units", thr, lo, hi, ublk, pblk, fit_m, fit_t, zt, ["postal_code", "unit"])
        if k == "raise":
            return None, None, None, h.fail("no_raise", f"raised {res}")
        outs.append(res)
    return w, x0, outs, None


def _gu(kind, estimands=("turnout",)):
    suffix = "" if tuple(estimands) == ("turnout",) else "." + "_".join(estimands)

    @unit("C10", f"get_units.{kind}{suffix}", fns=[f"{CDH}.get_units", f"{CDH}._get_non_modeled_units", f"{CDH}._get_unexpected_units"])
    def gu(h):
        w, x0, outs, failed = _get_units_pair(h, kind, estimands)
        if failed is not None or outs is None:
            return
        (r1, n1, t1), (r2, n2, t2) = outs
        u = w.root.u
        facts = z3.And(*w.root.facts())
        other = u != x0

        def rp(ev):
            if kind == "zero_baseline":
                return {"target": "verif_replays:zero_baseline_count_changes_other_units", "args": [], "check": "result['exc'] is None and result['ok']"}
            return {"target": "verif_replays:blocklisted_count_changes_other_categories", "args": [], "check": "result['exc'] is None and result['changed_other_units'] == 0"}

        h.ensures("every_other_unit_stays_in_its_frame", z3.Implies(z3.And(facts, other), z3.And(r1.axis.present() == r2.axis.present(), n1.axis.present() == n2.axis.present(), t1.axis.present() == t2.axis.present())), replay=rp)
        h.ensures("perturbed_unit_stays_where_it_was", z3.Implies(z3.And(facts, u == x0), z3.And(r1.axis.present() == r2.axis.present(), n1.axis.present() == n2.axis.present(), t1.axis.present() == t2.axis.present())))
        for nm, a, b in (("reporting", r1, r2), ("nonreporting", n1, n2)):
            for ccol in [f"results_{e}" for e in estimands] + ["unit_category"]:
                h.ensures(f"{nm}.{ccol}_of_other_units_unchanged", z3.Implies(z3.And(*b.axis.facts(), other), a.col(ccol).t == b.col(ccol).t))
        cat1, cat2 = t1.col("unit_category"), t2.col("unit_category")
        if t1.axis.sel is not None and t2.axis.sel is not None and len(t1.axis.doms) == len(t2.axis.doms):
            same_seg = z3.substitute(cat2.t, (t2.axis.sel, t1.axis.sel))
            h.ensures("third_frame_categories_of_other_units_unchanged", z3.Implies(z3.And(*t1.axis.facts(), other), cat1.t == same_seg))

    return gu


for _k in ("below_threshold", "blocklisted", "zero_baseline", "unexpected"):
    _gu(_k)
    _gu(_k, ("margin",))  # with the margin estimand the second outlier model reads a response that depends on the counts


@unit("C10", "conformal.unit_predictions_and_intervals", fns=[f"{CO}.get_unit_predictions", f"{NP}.get_unit_prediction_intervals", f"{CO}.get_unit_prediction_interval_bounds"])
def conformal_units(h):
    """the partial count of one outstanding unit changes: every OTHER outstanding unit gets the same prediction and
    interval, and the solver is asked the same questions"""
    from pyvc import theory_np

    theory_np.OPAQUE_ROUND[0] = True
    t = Three(h, "turnout", extra=("residuals_turnout", "f1"))
    u = t.root.u
    x0 = z3.Int("x_perturbed_unit")
    h.syms["x_perturbed_unit"] = x0
    h.requires("x_is_outstanding", x0 >= 0, x0 < t.root.n, z3.substitute(t.N, (u, x0)))
    newres = z3.Int("new_results_turnout")
    h.requires("new_count_nonneg", newres >= 0)
    non2 = frames.base_frame(t.root, t.N, {k: (z3.If(u == x0, newres, c.t) if k == "results_turnout" else c.t) for k, c in t.nonrep.cols.items()}, "geographic_unit_fips")
    h.contracts[FEAT] = theory_ext.featurizer_contract

    def popcorr(interp, self, conformalization_data, scores, correction_quantile, estimand):
        # _compute_population_correction is a function of the calibration frame / scores / level (contracts/C04.py)
        from pyvc.values import tid

        key = (tid(conformalization_data.axis.doms[0]), tid(scores.t), tid(correction_quantile.t))
        reg = interp.__dict__.setdefault("popcorr", {})
        if key not in reg:
            reg[key] = z3.Real(f"population_correction_{len(reg)}")
        return V(reg[key])

    h.contracts[f"{NP}._compute_population_correction"] = popcorr
    alpha = h.real("alpha")
    h.requires("alpha_open", 0 < alpha, alpha < 1)
    outs = []
    for non in (t.nonrep, non2):
        self = C03.model(h, NP, features=["f1"])
        k0, m = h.call_method(self, "get_minimum_reporting_units", alpha)
        h.requires("gate", t.rep.axis.n >= m.t)
        n0 = len(getattr(h.interp, "qr_models", []))
        k1, pr = h.call_method(self, "get_unit_predictions", t.rep, non, "turnout")
        if k1 == "raise":
            return h.fail("predictions.no_raise", f"raised {pr}")
        k2, pi = h.call_method(self, "get_unit_prediction_intervals", t.rep, non, alpha, "turnout")
        if k2 == "raise":
            return h.fail("intervals.no_raise", f"raised {pi}")
        outs.append((pr[0], pi, h.interp.qr_models[n0:]))
    (p1, i1, q1), (p2, i2, q2) = outs
    rows = z3.And(*t.nonrep.axis.facts(), u != x0)
    h.ensures("other_units_same_prediction", z3.Implies(rows, p1.t == p2.t))
    h.ensures("other_units_same_interval", z3.Implies(rows, z3.And(i1.lower.t == i2.lower.t, i1.upper.t == i2.upper.t)))
    h.ensures("same_fitted_models", len(q1) == len(q2) == 3 and all(a.coefs is b.coefs or a.pred_fn is b.pred_fn for a, b in zip(q1, q2)), why="the three fits of the second run must be the same requests as in the first (coefficients shared)")
    own = z3.And(*t.nonrep.axis.facts(), u == x0)
    h.ensures("own_floor_follows_own_count", z3.Implies(own, z3.And(p2.t >= z3.ToReal(newres) if False else True)))


def _agg(aggname, keys):
    @unit("C10", f"aggregates.{aggname}", fns=[f"{BASE}.get_aggregate_predictions", f"{NP}.get_aggregate_prediction_intervals"])
    def agg(h):
        """changing the count (and hence floor-affected prediction/bounds) of ONE outstanding or third-frame unit x
        changes only the rows of the groups that contain x, and there only by x's own terms"""
        alpha = 0.9
        lo_s, up_s = f"lower_{alpha}_turnout", f"upper_{alpha}_turnout"
        t = Three(h, "turnout", int_extra=("pred_turnout", lo_s, up_s))
        u = t.root.u
        x0 = z3.Int("x_perturbed_unit")
        h.syms["x_perturbed_unit"] = x0
        h.requires("x_in_range", x0 >= 0, x0 < t.root.n, z3.substitute(z3.Or(t.N, t.T), (u, x0)))
        for f_ in (t.rep, t.third):
            for c in ("pred_turnout", lo_s, up_s):
                f_.cols[c] = f_.cols["results_turnout"]
        news = {c: z3.Int(f"new_{c}") for c in ("results_turnout", "pred_turnout", lo_s, up_s)}

        def pert(fr, third):
            cols = {}
            for k, c in fr.cols.items():
                if k in news:
                    nv = news["results_turnout"] if third else news[k]
                    cols[k] = V(z3.If(u == x0, nv, c.t), (), None, c.nan)
                else:
                    cols[k] = c
            return frames.base_frame(t.root, fr.axis.doms[0], cols, "geographic_unit_fips")

        non2, third2 = pert(t.nonrep, False), pert(t.third, True)
        upi = NamedTuple("PredictionIntervals", ["lower", "upper", "conformalization"], [None, None, "conf"])
        res = []
        for non, third in ((t.nonrep, t.third), (non2, third2)):
            self = C03.model(h, NP)
            k1, est = h.call_method(self, "get_aggregate_predictions", t.rep, non, third, list(keys), "turnout")
            k2, pi = h.call_method(self, "get_aggregate_prediction_intervals", t.rep, non, third, list(keys), alpha, upi, "turnout")
            if k1 == "raise" or k2 == "raise":
                return h.fail("no_raise", "raised")
            res.append((est, pi))
        (e1, p1), (e2, p2) = res
        gs = frames.keyspace(list(keys), {k: z3.StringSort() for k in keys})
        at = lambda term: z3.substitute(term, (u, x0))  # noqa: E731
        in_group = z3.And(*[at(t.keys[k]) == gs.keyvars[k] for k in keys])
        # lemma instances: split every sum whose summand was perturbed into "x" and "the others"
        regs = list(h.ctx.__dict__.get("_sums", []))
        for d in regs:
            if d.space is t.root and "x_perturbed_unit" in str(d.summand):
                base_summand = None
                for d1 in regs:
                    if d1.space is t.root and z3.eq(d1.dom, d.dom) and "x_perturbed_unit" not in str(d1.summand):
                        s_ = z3.Solver()
                        s_.set("timeout", 2000)
                        s_.add(u != x0, d1.summand != d.summand)
                        if s_.check() == z3.unsat:
                            base_summand = d1
                            break
                if base_summand is None:
                    continue
                d1 = base_summand
                # both sums split at x: Σ_{dom, u != x} (same terms) + own term
                o1s, o1 = sums.formal_sum_dom(h.ctx, t.root, z3.And(d.dom, u != x0), d1.summand)
                x1s, x1 = sums.formal_sum_dom(h.ctx, t.root, z3.And(d.dom, u == x0), d1.summand)
                x2s, x2 = sums.formal_sum_dom(h.ctx, t.root, z3.And(d.dom, u == x0), d.summand)
                o2s, o2 = sums.formal_sum_dom(h.ctx, t.root, z3.And(d.dom, u != x0), d.summand)
                sums.lemma_sum_split(h.ctx, d1, o1, x1, name=f"lemma.split_before#{d.sym}")
                sums.lemma_sum_split(h.ctx, d, o2, x2, name=f"lemma.split_after#{d.sym}")
                sums.lemma_sum_congr(h.ctx, o1, o2, name=f"lemma.others_unchanged#{d.sym}")
                sums.lemma_sum_singleton(h.ctx, x1, x0, name=f"lemma.own_before#{d.sym}")
                sums.lemma_sum_singleton(h.ctx, x2, x0, name=f"lemma.own_after#{d.sym}")
        both = z3.And(*e1.axis.facts(), e2.axis.present())
        for name, a, b in (("counted_votes", e1.col("results_turnout"), e2.col("results_turnout")), ("prediction", e1.col("pred_turnout"), e2.col("pred_turnout")), ("lower", p1.lower, p2.lower), ("upper", p1.upper, p2.upper), ("reporting", e1.col("reporting"), e2.col("reporting"))):
            h.ensures(f"groups_not_containing_x_keep_their_{name}", z3.Implies(z3.And(both, z3.Not(in_group)), a.t == b.t))
        h.ensures("same_groups", z3.Implies(z3.And(*t.root.facts()), e1.axis.present() == e2.axis.present()))

    return agg


for _n, _k in AGGS.items():
    _agg(_n, _k)


@unit("C10", "historical.results_of_units_not_yet_reporting_are_hidden", fns=[f"{HC}._format_historical_current_data"])
def historical(h):
    root, fips = frames.unit_universe("units")
    h.ctx.assume(z3.And(*root.facts()))
    u = root.u
    I, R, S, B = z3.IntSort(), z3.RealSort(), z3.StringSort(), z3.BoolSort()
    inCur, inHist = z3.Function("inCurrent", I, B)(u), z3.Function("inHistorical", I, B)(u)
    pc = z3.Function("postal_code", I, S)(u)
    pev = z3.Function("pev", I, R)(u)
    hist_turnout = z3.Function("hist_results_turnout", I, R)(u)
    hist_dem = z3.Function("hist_results_dem", I, R)(u)
    thr = h.real("thr")
    cur = frames.base_frame(root, inCur, {"postal_code": pc, "geographic_unit_fips": fips(u), "percent_expected_vote": pev, "results_turnout": z3.Function("live_turnout", I, R)(u)}, "geographic_unit_fips")
    pre = frames.base_frame(root, inHist, {"postal_code": pc, "geographic_unit_fips": fips(u), "results_turnout": hist_turnout, "results_dem": hist_dem, "county_fips": z3.Function("county", I, S)(u)}, "geographic_unit_fips")

    class PDH:
        """contract of PreprocessedDataHandler(..., historical=True, include_results_estimand=True): .data holds the
        historical election's results for its units"""

        def __init__(self, *a, **k):
            self.data = pre

        def pyvc_getattr(self, interp, name):
            if name == "data":
                return pre
            raise Exception(name)

    self = h.obj(HC, aggregates=["unit", "county_fips"])
    h.default_replay = lambda ev: {"target": "verif_replays:historical_hidden_results_replay", "args": [], "check": "result['exc'] is None and result['ok']"}
    clo = h.method(self, "_format_historical_current_data")
    clo.env.overrides.update({"PreprocessedDataHandler": lambda *a, **k: PDH(), "s3": type("S3", (), {"S3CsvUtil": staticmethod(lambda b: None)})(), "TARGET_BUCKET": "b"})
    from pyvc.values import SymRaise

    for ests in (["dem"], ["turnout"], ["dem", "turnout"]):
        try:
            out, pdata = clo(cur, "hist", "S", "county", ests, {}, thr)
        except SymRaise as e:
            return h.fail(f"no_raise{ests}", f"raised {e.exc}")
        rows = z3.And(*out.axis.facts())
        for e in ests:
            src = hist_dem if e == "dem" else hist_turnout
            c = out.col(f"results_{e}")
            h.ensures(f"{'+'.join(ests)}.results_{e}_hidden_below_threshold", z3.Implies(rows, c.t == z3.If(pev >= thr.t, src, 0)), replay=h.default_replay)
        if "turnout" not in ests:
            # results_turnout is passed along un-hidden (it feeds the weights): the model must not read it for units
            # below the threshold -- documented residual, checked by the bounded companion on real runs
            c = out.col("results_turnout")
            h.ensures(f"{'+'.join(ests)}.results_turnout_passed_through", z3.Implies(rows, c.t == hist_turnout))
        h.ensures(f"{'+'.join(ests)}.rows_are_units_in_both", z3.Implies(z3.And(*root.facts()), out.axis.present() == z3.And(inCur, inHist)))
