"""C20 -- a failed or inaccurate quantile-regression solve is retried, not fatal (DESIGN section 4, C20)."""
import ast

import z3

from pyvc import frames, source
from pyvc.api import unit
from pyvc.theory_ext import FrameMatrix, QRModel
from pyvc.values import V

CO = "elexmodel.models.ConformalElectionModel.ConformalElectionModel"
LEVEL = "proof"
ASSUMPTIONS = [
    "A-QR: failures of the solver surface as cvxpy.error.SolverError or as cvxpy's UserWarning 'Solution may be inaccurate' (that the module-level filter turns THAT warning into an error, whatever module cvxpy attributes it to, is an obligation of unit reach, replayed on the real cvxpy code path); the unregularised path (scipy HiGHS) reports no inaccuracy at all",
    "the signature of QuantileRegressionSolver.fit is read from the INSTALLED elexsolver source on every run",
    "not decided (DESIGN section 5): numerical agreement of the un-normalised re-solve with the original solve ('the same tables')",
]


def _setup(h, real_init=False):
    root, fips = frames.unit_universe("units")
    h.ctx.assume(z3.And(*root.facts()))
    u = root.u
    dom = z3.Function("inTrain", z3.IntSort(), z3.BoolSort())(u)
    X = frames.base_frame(root, dom, {"intercept": z3.RealVal(1), "f1": z3.Function("f1", z3.IntSort(), z3.RealSort())(u)}, None)
    y = V(z3.Function("resid", z3.IntSort(), z3.RealSort())(u), (X.axis,), X.index)
    w = V(z3.Function("w", z3.IntSort(), z3.RealSort())(u), (X.axis,), X.index)
    h.requires("nonempty", X.axis.n >= 1)
    tau = h.real("tau")
    lam = h.real("lambda_")
    h.requires("tau", 0 < tau, tau < 1)
    add_intercept = h.bool("add_intercept")
    if real_init:
        # the object as the client creates it (real __init__ chain of a concrete subclass)
        import contracts.C03 as C03

        self = C03.model(h, C03.NP, lambda_=lam)
        add_intercept = self.attrs["add_intercept"]
    else:
        self = h.obj(CO, lambda_=lam, add_intercept=add_intercept)
    model = QRModel(h.interp)
    return self, model, X, y, w, tau, lam, add_intercept


def _same(a, b):
    if isinstance(a, FrameMatrix) and isinstance(b, FrameMatrix):
        return a.frame is b.frame
    if isinstance(a, V) and isinstance(b, V):
        return z3.eq(a.t, b.t) and a.axes == b.axes
    return a is b or (not isinstance(a, V) and not isinstance(b, V) and a == b)


def _eff(call, name, self_vals):
    return call[name]


@unit("C20", "fit_model.first_attempt", fn=f"{CO}.fit_model")
def first_attempt(h):
    self, model, X, y, w, tau, lam, add_intercept = _setup(h, real_init=True)
    kind, r = h.call_method(self, "fit_model", model, X, y, tau, w, True)
    if kind == "raise":
        return h.fail("no_raise", f"raised {r}")
    h.ensures("one_solve", len(model.calls) == 1)
    c = model.calls[0]
    h.ensures("request.x_y_weights", isinstance(c["x"], FrameMatrix) and c["x"].frame is X and z3.eq(c["y"].t, y.t) and z3.eq(c["weights"].t, w.t))
    h.ensures("request.tau", V(to_t(c["taus"]) == tau.t))
    h.ensures("request.lambda", V(to_t(c["lambda_"]) == lam.t))
    h.ensures("request.intercept", V(to_b(c["fit_intercept"]) == to_b(add_intercept)))


def to_t(x):
    from pyvc.values import real, to_term

    return real(to_term(x))


def to_b(x):
    from pyvc.values import to_term

    return to_term(x)


def _retry(kindname):
    @unit("C20", f"fit_model.retry.{kindname}", fn=f"{CO}.fit_model")
    def retry(h):
        self, model, X, y, w, tau, lam, add_intercept = _setup(h, real_init=True)
        h.interp.fault_plan = {"fail_call": 0, "kind": kindname}

        def rp(ev):
            return {"target": "verif_replays:fit_model_retry", "args": [kindname], "check": "result['exc'] is None and result['n_calls'] == 2 and result['callers_solver_is_fitted']"}

        kind, r = h.call_method(self, "fit_model", model, X, y, tau, w, True)
        if kind == "raise":
            return h.fail("binds_and_completes", f"the retry raised {r}", replay=rp)
        h.ensures("binds_and_completes", True, replay=rp)
        h.ensures("exactly_one_retry", len(model.calls) == 2, replay=rp)
        if len(model.calls) != 2:
            return
        a, b = model.calls

        def rps(ev):
            return {"target": "verif_replays:fit_model_retry", "args": [kindname], "check": "result['exc'] is None and result['n_calls'] == 2 and result['retry_is_the_same_request']"}

        h.ensures("retry.same_x_y_weights", _same(a["x"], b["x"]) and _same(a["y"], b["y"]) and _same(a["weights"], b["weights"]), replay=rps)
        h.ensures("retry.same_tau", V(to_t(a["taus"]) == to_t(b["taus"])), replay=rps)
        h.ensures("retry.same_lambda", V(to_t(a["lambda_"]) == to_t(b["lambda_"])), replay=rps)
        h.ensures("retry.same_intercept", V(to_b(a["fit_intercept"]) == to_b(b["fit_intercept"])), replay=rps)
        h.ensures("retry.without_weight_normalisation", b["normalize_weights"] is False, replay=rps)

    return retry


_retry("SolverError")
_retry("UserWarning")


@unit("C20", "fit_model.retry.every_failing_fit_of_a_run", fn=f"{CO}.fit_model")
def retry_twice(h):
    """position independence: two fits on ONE model object (as in a run: median, then a bound) both fail on their
    first attempt -- each must be retried"""
    self, model, X, y, w, tau, lam, add_intercept = _setup(h, real_init=True)
    model2 = QRModel(h.interp)
    h.interp.fault_plan = {"fail_calls": (0, 2), "kind": "SolverError"}
    k1, r1 = h.call_method(self, "fit_model", model, X, y, tau, w, True)
    if k1 == "raise":
        return h.fail("first_fit_completes", f"raised {r1}")
    k2, r2 = h.call_method(self, "fit_model", model2, X, y, tau, w, True)
    if k2 == "raise":
        return h.fail("second_fit_completes", f"raised {r2}")
    h.ensures("first_failing_fit_is_retried", len(model.calls) == 2 and model.calls[1]["normalize_weights"] is False)
    h.ensures("second_failing_fit_is_retried_too", len(model2.calls) == 2 and model2.calls[1]["normalize_weights"] is False, why=f"{len(model2.calls)} solve attempt(s) for the second failing fit", replay=lambda ev: {"target": "verif_replays:fit_model_twice", "args": ["SolverError"], "check": "result['ok']"})


def _bounds_run(fail_call, kindname):
    @unit("C20", f"interval_bounds.failing_solve_{fail_call}.{kindname}", fns=[f"{CO}.get_unit_prediction_interval_bounds", f"{CO}.fit_model"])
    def bounds(h):
        """the real caller of the two interval fits (get_unit_prediction_interval_bounds, through the nonparametric
        get_unit_prediction_intervals) with the solver failing at solve number `fail_call` of the run: the run completes, the
        failed fit -- and only it -- is repeated on the SAME solver object with the same quantile and without weight
        normalisation, and the bounds that come out are the predictions of the lower-level and of the upper-level fit"""
        import contracts.C03 as C03
        from pyvc.values import real

        h.interp.fault_plan = {"fail_call": fail_call, "kind": kindname}
        # (an inaccurate solution goes through cvxpy's own warning and the warning filters in force; an outright failure is an
        # exception of the solve)
        h.default_replay = lambda ev: {"target": "verif_replays:inaccurate_solution_in_a_run_replay" if kindname == "UserWarning" else "verif_replays:failing_solve_tables_replay", "args": [], "check": "result['exc'] is None and result['ok']"}
        t, self, alpha, kind, res = C03.run_np_intervals(h)
        if kind == "raise":
            return h.fail("the_run_completes", f"raised {res}")
        h.ensures("the_run_completes", True)
        qs = h.interp.qr_models
        h.ensures("one_solver_object_per_bound", len(qs) == 2, why=f"{len(qs)} solver objects")
        if len(qs) != 2:
            return
        failed, other = (qs[0], qs[1]) if fail_call == 0 else (qs[1], qs[0])
        h.ensures("only_the_failed_fit_is_repeated", len(failed.calls) == 2 and len(other.calls) == 1, why=f"{[len(q.calls) for q in qs]} solves per solver object", replay=h.default_replay)
        if len(failed.calls) != 2 or len(other.calls) != 1:
            return
        a, b = failed.calls
        h.ensures("retry.same_quantile", V(to_t(a["taus"]) == to_t(b["taus"])))
        h.ensures("retry.same_x_y_weights_lambda_intercept", _same(a["x"], b["x"]) and _same(a["y"], b["y"]) and _same(a["weights"], b["weights"]) and z3.eq(to_t(a["lambda_"]), to_t(b["lambda_"])) and z3.eq(to_b(a["fit_intercept"]), to_b(b["fit_intercept"])))
        h.ensures("retry.without_weight_normalisation", b["normalize_weights"] is False and a["normalize_weights"] is not False)
        h.ensures("levels_of_the_two_fits", V(real(qs[0].calls[-1]["taus"].t) == (1 - alpha.t) / 2) & V(real(qs[1].calls[-1]["taus"].t) == (1 + alpha.t) / 2))
        # "the same tables it would otherwise produce": the reported bounds are built from the lower-level fit and from the
        # upper-level fit exactly as without a fault (the formula obligation of C04, here under the fault)
        rows = z3.And(*t.nonrep.axis.facts())
        c = z3.Real("population_correction")
        lraw, uraw = qs[0].predict(C03._holdout(h, t)), qs[1].predict(C03._holdout(h, t))
        want_l = z3.If((lraw.t - c) * t.last + t.last >= t.res, (lraw.t - c) * t.last + t.last, t.res)
        want_u = z3.If((uraw.t + c) * t.last + t.last >= t.res, (uraw.t + c) * t.last + t.last, t.res)
        from pyvc.theory_np import round_half_even_t

        h.ensures("bounds_come_from_the_fit_of_their_own_level", z3.Implies(rows, z3.And(res.lower.t == z3.ToReal(round_half_even_t(want_l)), res.upper.t == z3.ToReal(round_half_even_t(want_u)))))

    return bounds


for _k in ("SolverError", "UserWarning"):
    for _i in (0, 1):
        _bounds_run(_i, _k)


@unit("C20", "reach", fns=[f"{CO}.fit_model"])
def reach(h):
    """both failure kinds reach the handler, and every fit of a run goes through fit_model"""
    mod = source.module("elexmodel.models.ConformalElectionModel")
    found, by_module_only = False, False
    for n in mod.tree.body:
        if isinstance(n, ast.Expr) and isinstance(n.value, ast.Call) and ast.unparse(n.value.func) == "warnings.filterwarnings":
            c = n.value
            action = c.args[0].value if c.args and isinstance(c.args[0], ast.Constant) else None
            kws = {k.arg: k.value for k in c.keywords}
            cat = ast.unparse(kws["category"]) if "category" in kws else "Warning"
            msg = kws["message"].value if "message" in kws and isinstance(kws["message"], ast.Constant) else None
            if action == "error" and cat in ("UserWarning", "Warning"):
                import re as _re

                # the filter must recognise cvxpy's warning by its TEXT: which module a warning is attributed to is decided
                # by the library that issues it (cvxpy >= 1.7 attributes it to its caller, elexsolver) -- finding F15
                if msg is not None and _re.match(msg, "Solution may be inaccurate. Try another solver, adjusting the solver settings, or solve with verbose=True for more information.", _re.I) and "module" not in kws:
                    found = True
                elif "module" in kws:
                    by_module_only = True
    rp_inacc = lambda ev: {"target": "verif_replays:inaccurate_solution_replay", "args": [], "check": "result['exc'] is None and result['ok']"}  # noqa: E731
    h.ensures("inaccurate_solution_warning_is_an_error_at_import_whatever_module_it_is_attributed_to", found, why="the module-level filter is keyed on the module the warning is attributed to" if by_module_only else "no module-level filter turns cvxpy's 'Solution may be inaccurate' warning into an error", replay=rp_inacc)
    fs = source.load(f"{CO}.fit_model")
    tries = [n for n in ast.walk(fs.node) if isinstance(n, ast.Try)]
    ok = False
    for t in tries:
        for hd in t.handlers:
            names = ast.unparse(hd.type) if hd.type is not None else ""
            if "UserWarning" in names and "SolverError" in names and not any(isinstance(x, ast.Raise) for x in ast.walk(hd)):
                ok = True
    h.ensures("handler_catches_both_kinds_and_does_not_reraise", ok)
    # position independence: in the model classes every QuantileRegressionSolver.fit call sits inside fit_model
    offenders = []
    for m in ("ConformalElectionModel", "NonparametricElectionModel", "GaussianElectionModel", "BaseElectionModel"):
        md = source.module(f"elexmodel.models.{m}")
        for cls in md.classes.values():
            for fn in cls.body:
                if not isinstance(fn, ast.FunctionDef) or fn.name == "fit_model":
                    continue
                solvers = set()
                for n in ast.walk(fn):
                    if isinstance(n, ast.Assign) and isinstance(n.value, ast.Call) and ast.unparse(n.value.func).endswith("QuantileRegressionSolver"):
                        solvers |= {t.id for t in n.targets if isinstance(t, ast.Name)}
                for n in ast.walk(fn):
                    if isinstance(n, ast.Call) and isinstance(n.func, ast.Attribute) and n.func.attr == "fit" and isinstance(n.func.value, ast.Name) and n.func.value.id in solvers:
                        offenders.append(f"{m}.{cls.name}.{fn.name}:{n.lineno}")
    h.ensures("every_model_fit_goes_through_fit_model", not offenders, why=str(offenders))
