"""C17 -- margin histories interpolate within bounds; irregular histories are discarded (DESIGN section 4, C17)."""
import z3

from pyvc import frames, sums
from pyvc.api import unit
from pyvc.values import Space, V, real

VD = "elexmodel.handlers.data.VersionedData.VersionedDataHandler"
FN = f"{VD}.compute_versioned_margin_estimate.<locals>.compute_estimated_margin"
LEVEL = "proof"
BOUNDED = [{"name": "histories_float_and_int", "script": "c17_histories.py", "timeout": 1800}]
ASSUMPTIONS = [
    "A-REAL: the vote columns are real-valued (float64); with INTEGER columns np.divide(..., out=zeros_like(int), casting='unsafe') truncates -- not visible to the proof, see the bounded dtype companion",
    "V2: |results_normalized_margin| <= 1, counts non-negative; histories have at least one version",
    "numpy contracts: diff(append), searchsorted(side='right'), arange, gather, divide(where,out)",
]


class HistFrame:
    """the per-unit frame handed to compute_estimated_margin by groupby().apply: columns as positional arrays"""

    def __init__(self, cols):
        self.cols = cols

    def pyvc_getitem(self, interp, key):
        return self.cols[key]

    def pyvc_setitem(self, interp, key, val):
        self.cols[key] = val


def _history(h):
    ver = Space("versions")
    h.syms["n_versions"] = ver.n
    h.ctx.assume(z3.And(*ver.facts()))
    h.requires("at_least_one_version", ver.n >= 1)
    I, R = z3.IntSort(), z3.RealSort()
    cols = {}
    for c in ("results_turnout", "percent_expected_vote", "results_dem", "results_gop", "results_weights", "results_normalized_margin"):
        f = z3.Function(c, I, R)
        h.syms[c] = f
        cols[c] = V(f(ver.u), (ver,), ("range", "hist"))
    fn = lambda c, i: h.syms[c](i)  # noqa: E731

    def v2(i):
        """input validity of version i (ghost-instantiated where the argument needs it)"""
        h.ctx.assume(z3.Implies(z3.And(i >= 0, i < ver.n), z3.And(fn("results_turnout", i) >= 0, fn("percent_expected_vote", i) >= 0, fn("results_normalized_margin", i) >= -1, fn("results_normalized_margin", i) <= 1, fn("results_dem", i) >= 0, fn("results_gop", i) >= 0)))

    for i in (ver.u, ver.u2, z3.IntVal(0), ver.n - 1):
        v2(i)
    return ver, cols, v2


@unit("C17", "interpolation", fn=FN)
def interpolation(h):
    ver, cols, v2 = _history(h)
    df = HistFrame(dict(cols))
    clo = h.load(FN)
    h.contracts["pd.DataFrame"] = None
    from pyvc.values import SymRaise

    try:
        res = clo(df)
    except SymRaise as e:
        return h.fail("no_raise", f"raised {e.exc}")
    if not isinstance(res, dict):
        return h.fail("returns_a_table", f"returned {type(res).__name__}")
    et = res["error_type"]
    h.ensures("error_type_is_one_of_three", et in ("none", "non-monotone percent expected vote", "batch_margin"))
    if et != "none":
        from pyvc.theory_seq import ConstCol

        h.ensures(f"discarded[{et}].only_missing_values", all(isinstance(res[c], ConstCol) and isinstance(res[c].value, float) and res[c].value != res[c].value for c in ("est_margin", "est_correction", "nearest_observed_vote")))
        h.ensures(f"discarded[{et}].101_rows", res["percent_expected_vote"].meta == ("arange", 0, 101))
        return
    percs, est, corr = res["percent_expected_vote"], res["est_margin"], res["est_correction"]
    P = percs.axes[0]
    # ---- ghost instantiation: the facts about "all versions" at the versions the argument talks about --------
    n_ = ver.n
    ss = h.ctx.__dict__.get("_searchsorted", [])
    h.ensures("one_searchsorted", len(ss) == 1)
    k = ss[0]["k"]
    ci = z3.If(k - 1 < 0, 0, z3.If(k - 1 > n_ - 1, n_ - 1, k - 1))
    ext = h.ctx.__dict__.get("_extrema", [])
    alls = h.ctx.__dict__.get("_anyall", [])
    gath = h.ctx.__dict__.get("_gathers", [])
    idxs = [ci, z3.IntVal(0), n_ - 1, ver.u] + [e["witness"] for e in ext] + [kt for (_, kt) in gath]
    for i in idxs:
        v2(i)
        for e in ext:
            e["instantiate"](h.ctx, i)
        for a_ in alls:
            a_["instantiate"](h.ctx, i)
    # lemma mono_of_succ (lean/FrameSums.lean): a sequence with non-negative successive differences is
    # non-decreasing -- instances for the re-scaled percent history between the rows above and the last version
    pvq = df.cols["percent_expected_vote"]
    at_ = lambda i: z3.substitute(real(pvq.t), (ver.u, i))  # noqa: E731
    sums._use("mono_of_succ")
    allb = [a_["b"] for a_ in alls if a_["which"] == "all"]
    h.ensures("one_monotonicity_test", len(allb) == 1)
    monotone = z3.And(*allb) if allb else z3.BoolVal(False)
    for i in idxs:
        h.ctx.assume(z3.Implies(z3.And(monotone, i >= 0, i <= n_ - 1), z3.And(at_(i) <= at_(n_ - 1), at_(z3.IntVal(0)) <= at_(i))))
    rows = z3.And(*P.facts())
    p = real(percs.t)
    n = ver.n
    pv = df.cols["percent_expected_vote"]  # the re-scaled history
    h.ensures("every_whole_percent_from_zero", z3.And(z3.substitute(percs.t, (P.u, z3.IntVal(0))) == 0, z3.Implies(rows, percs.t == P.u)))
    last_pev = z3.substitute(real(pv.t), (ver.u, n - 1))
    h.ensures("up_to_the_latest_percent", z3.And(z3.ToReal(P.n - 1) <= last_pev, last_pev < z3.ToReal(P.n)))
    # the gathered entries (margin, re-scaled percent, batch margin at the last version not after p) are abstracted
    # to fresh reals constrained by the facts instantiated above: the claim is then polynomial arithmetic
    gathered = []
    for (vv, kt) in gath:
        g = z3.substitute(vv.t, (ver.u, kt))
        gathered.append(g)
        if z3.is_real(g) or z3.is_int(g):
            # auxiliary facts about the gathered entry, proved on their own and then used (in terms of the code's
            # own gather expression, so that they survive the abstraction below)
            if vv.t.get_id() == pv.t.get_id():
                from pyvc.sums import _mentions

                used_in_estimate = _mentions(est.t, g)
                aux = z3.Implies(rows, z3.And(real(g) >= 0, z3.Implies(k > 0, real(g) <= p) if used_in_estimate else z3.BoolVal(True)))
                h.ensures(f"aux.rescaled_percent_at_gather_between_0_and_p#{len(gathered)}", aux)
                h.ctx.assume(aux)
            else:
                aux = z3.Implies(rows, z3.And(real(g) >= -1, real(g) <= 1))
                h.ensures(f"aux.gathered_margin_within_bounds#{len(gathered)}", aux)
                h.ctx.assume(aux)
    m0_ = z3.substitute(cols["results_normalized_margin"].t, (ver.u, z3.IntVal(0)))
    gathered.append(m0_)
    h.ensures_generalised("imputed_margin_within_bounds", z3.Implies(rows, z3.And(est.t >= -1, est.t <= 1)), abstract=gathered)
    h.ensures("no_nan", est.nan is None or z3.Implies(rows, z3.Not(est.nan)))
    m0 = z3.substitute(cols["results_normalized_margin"].t, (ver.u, z3.IntVal(0)))
    pv0 = z3.substitute(real(pv.t), (ver.u, z3.IntVal(0)))
    h.ensures("before_the_first_observation_equals_first_margin", z3.Implies(z3.And(rows, p > 0, p < pv0), est.t == m0), replay=lambda ev: {"target": "verif_replays:version_history_replay", "args": [[150, 210, 610], [50, 290, 390]], "kwargs": {"pev": [20.0, 50.0, 100.0]}, "check": "result['exc'] is None and result['ok']"})
    h.ensures("zero_percent_is_zero_not_nan", z3.Implies(z3.And(rows, p == 0), est.t == 0))
    mlast = z3.substitute(cols["results_normalized_margin"].t, (ver.u, n - 1))
    h.ensures("correction_is_final_margin_minus_imputed", z3.Implies(rows, corr.t == mlast - est.t))
    h.ensures("same_rows", est.axes == (P,) and corr.axes == (P,))
    # irregular histories never get here (they are discarded): for the generic pair of successive versions i, i+1
    i = ver.u
    f_ = lambda c, j: h.syms[c](j)  # noqa: E731
    dw = f_("results_weights", i + 1) - f_("results_weights", i)
    num_ = (f_("results_dem", i + 1) - f_("results_dem", i)) - (f_("results_gop", i + 1) - f_("results_gop", i))
    absnum = z3.If(num_ >= 0, num_, -num_)
    absdw = z3.If(dw >= 0, dw, -dw)
    impossible = z3.Or(z3.And(dw != 0, absnum > absdw), z3.And(dw == 0, num_ != 0))
    succ = z3.And(i >= 0, i + 1 <= n - 1)
    def hist_rp(ev):
        nn = int(ev(n) or 1)
        nn = max(1, min(nn, 12))
        col = lambda c: [float(ev(f_(c, z3.IntVal(j))) or 0) for j in range(nn)]  # noqa: E731
        return {"target": "verif_replays:version_history_replay", "args": [col("results_dem"), col("results_gop")], "kwargs": {"turnout": col("results_turnout"), "weights": col("results_weights"), "pev": col("percent_expected_vote"), "margin": col("results_normalized_margin")}, "check": "result['exc'] is None and result['ok']"}

    h.ensures("accepted_history_has_no_impossible_batch", z3.Implies(succ, z3.Not(impossible)), replay=hist_rp)
    rt_last = f_("results_turnout", n - 1)
    h.ensures("accepted_history_has_non_decreasing_turnout", z3.Implies(z3.And(succ, rt_last > 0), f_("results_turnout", i) <= f_("results_turnout", i + 1)), replay=hist_rp)


# ---- the outer function: which history each unit's interpolation receives ------------------------------------------------
OUTER = f"{VD}.compute_versioned_margin_estimate"


@unit("C17", "histories.every_unit_gets_its_own_complete_history", fns=[OUTER])
def histories(h):
    """compute_versioned_margin_estimate (its real statements up to and including the groupby(...).apply(...)): the
    per-unit function is called, for every unit that has versions, on exactly the rows of that unit -- all of them, none of
    another unit, in their original order -- with missing cells replaced by 0 and every other cell as given"""
    from pyvc.frames import SeriesRecord

    root, fips = frames.unit_universe("version_rows")  # one row per (unit, version); `fips` here is only a row id
    h.ctx.assume(z3.And(*root.facts()))
    u = root.u
    I, R, S, B = z3.IntSort(), z3.RealSort(), z3.StringSort(), z3.BoolSort()
    inData = z3.Function("inData", I, B)(u)
    unit_id = z3.Function("unit_of_row", I, S)(u)
    cols = {"geographic_unit_fips": unit_id}
    nulls = {}
    for c in ("results_turnout", "percent_expected_vote", "results_dem", "results_gop", "results_weights", "results_normalized_margin"):
        nulls[c] = z3.Function("null_" + c, I, B)(u)
        cols[c] = V(z3.Function("raw_" + c, I, R)(u), (), None, nulls[c])
    data = frames.base_frame(root, inData, cols, None)
    order_before = data.axis.order
    seen = []

    def per_unit(interp, df):
        seen.append(df)
        return SeriesRecord({"est_margin": V(z3.Real("some_estimate"))})

    h.contracts[FN] = per_unit
    h.default_replay = lambda ev: {"target": "verif_replays:versioned_histories_replay", "args": [], "check": "result['exc'] is None and result['ok']"}
    self = h.obj(VD, data=data)
    kind, env = h.slice(OUTER, first_assign="results", last_assign="results", env={"self": self, "data": None})
    if kind == "raise":
        return h.fail("no_raise", f"raised {env}")
    h.ensures("the_per_unit_function_is_applied_once_to_the_generic_unit", len(seen) == 1)
    if len(seen) != 1:
        return
    view = seen[0]
    gk = [k for k in h.ctx.pc if False]
    ax = view.axis
    facts = z3.And(*root.facts())
    # the generic unit of the grouping: the key constant of the group space
    res = env["results"]
    gs = res.axis.root
    g = gs.keyvars["geographic_unit_fips"]
    h.ensures("a_row_is_handed_to_its_own_unit_and_only_to_it", z3.Implies(facts, ax.present() == z3.And(inData, unit_id == g)))
    h.ensures("no_version_is_dropped_or_repeated", len(ax.doms) == 1)
    h.ensures("versions_stay_in_their_original_order", ax.order in (order_before, ("group", order_before)), why=str(ax.order))
    rows = z3.And(*ax.facts())
    for c in nulls:
        col = view.col(c)
        raw = z3.Function("raw_" + c, I, R)(u)
        h.ensures(f"{c}.missing_cells_are_zero_and_every_other_cell_is_as_given", z3.Implies(rows, z3.And(real(col.t) == z3.If(nulls[c], 0, raw), z3.Not(col.nan) if col.nan is not None else z3.BoolVal(True))))
    h.ensures("a_unit_with_versions_has_a_result", z3.Implies(z3.And(facts, inData, unit_id == g), res.axis.present()))
