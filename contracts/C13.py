"""C13 -- what is reported for one request does not depend on what else was requested (DESIGN section 4, C13)."""
import contracts.C03 as _c03  # noqa: F401  (unit nonparametric.two_estimands_one_model is registered there)

LEVEL = "proof"
ASSUMPTIONS = list(_c03.ASSUMPTIONS)
