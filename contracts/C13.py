"""C13 -- what is reported for one request does not depend on what else was requested (DESIGN section 4, C13)."""
import contracts.C03 as _c03  # noqa: F401  (unit nonparametric.two_estimands_one_model is registered there)

LEVEL = "proof"
ASSUMPTIONS = list(_c03.ASSUMPTIONS)

import z3  # noqa: E402

import contracts.C02 as C02  # noqa: E402
from contracts.common import Three  # noqa: E402
from pyvc import frames  # noqa: E402
from pyvc.api import unit  # noqa: E402
from pyvc.values import NamedTuple, V  # noqa: E402

MRH = C02.MRH


def _schema(n_est):
    ests = ["turnout", "dem", "gop"][:n_est]

    @unit("C13", f"schema.{n_est}_estimands", fns=[f"{MRH}.add_unit_predictions", f"{MRH}.add_unit_intervals", f"{MRH}.add_agg_predictions", f"{MRH}.process_final_results"])
    def schema(h):
        """the returned tables keep the same key and category columns however many estimands are requested"""
        rp = lambda ev: {"target": "verif_replays:schema_replay", "args": [n_est, [0.9, 0.7]], "check": "result['ok']"}  # noqa: E731
        alphas = [0.9, 0.7]  # deliberately not ascending: the labels must follow the request, not a position
        extra_int = []
        for e in ests[1:]:
            extra_int += [f"results_{e}", f"last_election_results_{e}"]
        t = Three(h, "turnout", int_extra=tuple(extra_int))
        mr = C02._handler(h, t, ["postal_code", "unit"], alphas)
        u = t.root.u
        gs = frames.keyspace(["postal_code"], {"postal_code": z3.StringSort()})
        pres = z3.Function("state_present", z3.StringSort(), z3.BoolSort())(gs.keyvars["postal_code"])
        for e in ests:
            pred = V(z3.Function(f"unit_pred_{e}", z3.IntSort(), z3.IntSort())(u), (t.nonrep.axis,), t.nonrep.index)
            k, _ = h.call_method(mr, "add_unit_predictions", e, pred)
            pis = {}
            for a in alphas:
                lo = V(z3.Function(f"unit_lower_{e}_{a}", z3.IntSort(), z3.IntSort())(u), (t.nonrep.axis,), None)
                up = V(z3.Function(f"unit_upper_{e}_{a}", z3.IntSort(), z3.IntSort())(u), (t.nonrep.axis,), None)
                pis[a] = NamedTuple("PredictionIntervals", ["lower", "upper", "conformalization"], [lo, up, None])
            k, _ = h.call_method(mr, "add_unit_intervals", e, pis)
            if k == "raise":
                return h.fail("add_unit_intervals.no_raise", f"raised {_}")
            # one state table per estimand, as get_aggregate_predictions returns it (same groups for every estimand)
            ax = frames.RowAxis(gs, [pres], ("sorted", ("postal_code",)))
            cnt = z3.Function("state_reporting", z3.StringSort(), z3.IntSort())(gs.keyvars["postal_code"])
            est = frames.Frame(ax, {}, ("range", ax.name), None)
            est.cols["postal_code"] = V(gs.keyvars["postal_code"], (ax,), est.index)
            for c in (f"pred_{e}", f"results_{e}"):
                est.cols[c] = V(z3.Function(f"state_{c}", z3.StringSort(), z3.IntSort())(gs.keyvars["postal_code"]), (ax,), est.index)
            est.cols["reporting"] = V(cnt, (ax,), est.index)
            ints = {a: NamedTuple("PredictionIntervals", ["lower", "upper"], [V(z3.Function(f"state_lower_{e}_{a}", z3.StringSort(), z3.IntSort())(gs.keyvars["postal_code"]), (ax,), est.index), V(z3.Function(f"state_upper_{e}_{a}", z3.StringSort(), z3.IntSort())(gs.keyvars["postal_code"]), (ax,), est.index)]) for a in alphas}
            k, _ = h.call_method(mr, "add_agg_predictions", e, "postal_code", est, ints)
            if k == "raise":
                return h.fail("add_agg_predictions.no_raise", f"raised {_}")
        k, _ = h.call_method(mr, "process_final_results")
        if k == "raise":
            return h.fail("process_final_results.no_raise", f"raised {_}")
        fin = mr.attrs["final_results"]
        ud, sd = fin["unit_data"], fin["state_data"]
        keys_unit = ["postal_code", "geographic_unit_fips", "reporting", "unit_category"]
        h.ensures("unit_table.key_and_category_columns_exactly_once", all(list(ud.cols).count(c) == 1 for c in keys_unit) and not any(c.startswith("unit_category_") for c in ud.cols), why=f"unit_data columns: {list(ud.cols)}", replay=rp)
        h.ensures("state_table.key_columns_exactly_once", all(list(sd.cols).count(c) == 1 for c in ["postal_code", "reporting"]), why=f"state_data columns: {list(sd.cols)}")
        srows = z3.And(*sd.axis.facts())
        urows = z3.And(*ud.axis.facts())
        for e in ests:
            for c in [f"pred_{e}", f"results_{e}"] + [f"{s_}_{a}_{e}" for a in alphas for s_ in ("lower", "upper")]:
                h.ensures(f"every_requested_column_present[{c}]", c in ud.cols and c in sd.cols)
            for a in alphas:
                for s_ in ("lower", "upper"):
                    want = z3.Function(f"state_{s_}_{e}_{a}", z3.StringSort(), z3.IntSort())(gs.keyvars["postal_code"])
                    h.ensures(f"state_table.{s_}_{a}_{e}_is_the_interval_computed_for_that_level", z3.Implies(srows, sd.col(f"{s_}_{a}_{e}").t == want), replay=rp)
                    wantu = z3.Function(f"unit_{s_}_{e}_{a}", z3.IntSort(), z3.IntSort())(u)
                    h.ensures(f"unit_table.{s_}_{a}_{e}_is_the_interval_computed_for_that_level", z3.Implies(z3.And(urows, t.N), ud.col(f"{s_}_{a}_{e}").t == wantu))
        facts = z3.And(*t.root.facts())
        h.ensures("unit_table.every_unit_still_exactly_once", z3.Implies(facts, ud.axis.multiplicity() == z3.If(z3.Or(t.R, t.N, t.T), 1, 0)))
        # the first estimand's columns are what a single-estimand request would have returned
        rows = z3.And(*ud.axis.facts())
        h.ensures("unit_table.values_of_an_estimand_do_not_depend_on_the_others", z3.Implies(z3.And(rows, t.N), ud.col("pred_turnout").t == z3.Function("unit_pred_turnout", z3.IntSort(), z3.IntSort())(u)))

    return schema


for _n in (1, 2, 3):
    _schema(_n)
