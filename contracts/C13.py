"""C13 -- what is reported for one request does not depend on what else was requested (DESIGN section 4, C13)."""
import contracts.C03 as _c03  # noqa: F401  (unit nonparametric.two_estimands_one_model is registered there)

LEVEL = "proof"
ASSUMPTIONS = list(_c03.ASSUMPTIONS)

import z3  # noqa: E402

import contracts.C02 as C02  # noqa: E402
from contracts.common import Three  # noqa: E402
from pyvc import frames  # noqa: E402
from pyvc.api import unit  # noqa: E402
from pyvc.values import NamedTuple, V  # noqa: E402

MRH = C02.MRH


def _schema(n_est):
    ests = ["turnout", "dem", "gop"][:n_est]

    @unit("C13", f"schema.{n_est}_estimands", fns=[f"{MRH}.add_unit_predictions", f"{MRH}.add_unit_intervals", f"{MRH}.add_agg_predictions", f"{MRH}.process_final_results"])
    def schema(h):
        """the returned tables keep the same key and category columns however many estimands are requested"""
        rp = lambda ev: {"target": "verif_replays:schema_replay", "args": [n_est, [0.9, 0.7]], "check": "result['ok']"}  # noqa: E731
        alphas = [0.9, 0.7]  # deliberately not ascending: the labels must follow the request, not a position
        extra_int = []
        for e in ests[1:]:
            extra_int += [f"results_{e}", f"last_election_results_{e}"]
        t = Three(h, "turnout", int_extra=tuple(extra_int))
        mr = C02._handler(h, t, ["postal_code", "unit"], alphas)
        u = t.root.u
        gs = frames.keyspace(["postal_code"], {"postal_code": z3.StringSort()})
        pres = z3.Function("state_present", z3.StringSort(), z3.BoolSort())(gs.keyvars["postal_code"])
        for e in ests:
            pred = V(z3.Function(f"unit_pred_{e}", z3.IntSort(), z3.IntSort())(u), (t.nonrep.axis,), t.nonrep.index)
            k, _ = h.call_method(mr, "add_unit_predictions", e, pred)
            pis = {}
            for a in alphas:
                lo = V(z3.Function(f"unit_lower_{e}_{a}", z3.IntSort(), z3.IntSort())(u), (t.nonrep.axis,), None)
                up = V(z3.Function(f"unit_upper_{e}_{a}", z3.IntSort(), z3.IntSort())(u), (t.nonrep.axis,), None)
                pis[a] = NamedTuple("PredictionIntervals", ["lower", "upper", "conformalization"], [lo, up, None])
            k, _ = h.call_method(mr, "add_unit_intervals", e, pis)
            if k == "raise":
                return h.fail("add_unit_intervals.no_raise", f"raised {_}")
            # one state table per estimand, as get_aggregate_predictions returns it (same groups for every estimand)
            ax = frames.RowAxis(gs, [pres], ("sorted", ("postal_code",)))
            cnt = z3.Function("state_reporting", z3.StringSort(), z3.IntSort())(gs.keyvars["postal_code"])
            est = frames.Frame(ax, {}, ("range", ax.name), None)
            est.cols["postal_code"] = V(gs.keyvars["postal_code"], (ax,), est.index)
            for c in (f"pred_{e}", f"results_{e}"):
                est.cols[c] = V(z3.Function(f"state_{c}", z3.StringSort(), z3.IntSort())(gs.keyvars["postal_code"]), (ax,), est.index)
            est.cols["reporting"] = V(cnt, (ax,), est.index)
            ints = {a: NamedTuple("PredictionIntervals", ["lower", "upper"], [V(z3.Function(f"state_lower_{e}_{a}", z3.StringSort(), z3.IntSort())(gs.keyvars["postal_code"]), (ax,), est.index), V(z3.Function(f"state_upper_{e}_{a}", z3.StringSort(), z3.IntSort())(gs.keyvars["postal_code"]), (ax,), est.index)]) for a in alphas}
            k, _ = h.call_method(mr, "add_agg_predictions", e, "postal_code", est, ints)
            if k == "raise":
                return h.fail("add_agg_predictions.no_raise", f"raised {_}")
        k, _ = h.call_method(mr, "process_final_results")
        if k == "raise":
            return h.fail("process_final_results.no_raise", f"raised {_}")
        fin = mr.attrs["final_results"]
        ud, sd = fin["unit_data"], fin["state_data"]
        keys_unit = ["postal_code", "geographic_unit_fips", "reporting", "unit_category"]
        h.ensures("unit_table.key_and_category_columns_exactly_once", all(list(ud.cols).count(c) == 1 for c in keys_unit) and not any(c.startswith("unit_category_") for c in ud.cols), why=f"unit_data columns: {list(ud.cols)}", replay=rp)
        h.ensures("state_table.key_columns_exactly_once", all(list(sd.cols).count(c) == 1 for c in ["postal_code", "reporting"]), why=f"state_data columns: {list(sd.cols)}")
        srows = z3.And(*sd.axis.facts())
        urows = z3.And(*ud.axis.facts())
        for e in ests:
            for c in [f"pred_{e}", f"results_{e}"] + [f"{s_}_{a}_{e}" for a in alphas for s_ in ("lower", "upper")]:
                h.ensures(f"every_requested_column_present[{c}]", c in ud.cols and c in sd.cols)
            for a in alphas:
                for s_ in ("lower", "upper"):
                    want = z3.Function(f"state_{s_}_{e}_{a}", z3.StringSort(), z3.IntSort())(gs.keyvars["postal_code"])
                    h.ensures(f"state_table.{s_}_{a}_{e}_is_the_interval_computed_for_that_level", z3.Implies(srows, sd.col(f"{s_}_{a}_{e}").t == want), replay=rp)
                    wantu = z3.Function(f"unit_{s_}_{e}_{a}", z3.IntSort(), z3.IntSort())(u)
                    h.ensures(f"unit_table.{s_}_{a}_{e}_is_the_interval_computed_for_that_level", z3.Implies(z3.And(urows, t.N), ud.col(f"{s_}_{a}_{e}").t == wantu))
        facts = z3.And(*t.root.facts())
        h.ensures("unit_table.every_unit_still_exactly_once", z3.Implies(facts, ud.axis.multiplicity() == z3.If(z3.Or(t.R, t.N, t.T), 1, 0)))
        # the first estimand's columns are what a single-estimand request would have returned
        rows = z3.And(*ud.axis.facts())
        h.ensures("unit_table.values_of_an_estimand_do_not_depend_on_the_others", z3.Implies(z3.And(rows, t.N), ud.col("pred_turnout").t == z3.Function("unit_pred_turnout", z3.IntSort(), z3.IntSort())(u)), replay=lambda ev: {"target": "verif_replays:unit_table_prediction_replay", "args": [], "check": "result['exc'] is None and result['ok']"})

    return schema


for _n in (1, 2, 3):
    _schema(_n)


# ---- the client's loops: every model call gets the level / estimand / aggregate of ITS OWN iteration ------------------
CL = "elexmodel.client.ModelClient"
GA_ = "elexmodel.models.GaussianElectionModel.GaussianElectionModel"
CO_ = "elexmodel.models.ConformalElectionModel.ConformalElectionModel"
BASE_ = "elexmodel.models.BaseElectionModel.BaseElectionModel"


class _HandlerDouble:
    """ModelResultsHandler as far as the loops use it: three frames, the aggregate list, and recorded add_* calls"""

    def __init__(self, aggregates):
        self.aggregates = list(aggregates)
        self.calls = []

    def pyvc_getattr(self, interp, name):
        if name in ("reporting_units", "nonreporting_units", "unexpected_units"):
            return ("frame", name)
        if name == "aggregates":
            return self.aggregates
        if name in ("add_unit_predictions", "add_unit_turnout_predictions", "add_unit_intervals", "add_agg_predictions", "process_final_results", "write_data"):
            return lambda *a, **k: self.calls.append((name, a, k))
        if name == "final_results":
            return {}
        raise Exception(name)


@unit("C13", "client_loops.every_model_call_gets_its_own_level_estimand_and_aggregate", fns=[f"{CL}.get_estimates", f"{CL}.get_aggregate_list"])
def client_loops(h):
    """the REAL loops of ModelClient.get_estimates over estimands x interval levels x aggregates (a slice of the real
    function; the model and the results handler are recording doubles): the aggregate intervals of level alpha are
    computed from the unit intervals of level alpha of the SAME estimand, and every add_* call files a result under the
    level / estimand / aggregate it was computed for -- whatever else is requested, in whatever order"""
    estimands = ["turnout", "dem"]
    levels = [0.9, 0.7, 0.8]  # deliberately not sorted
    aggregates = ["county_fips", "postal_code", "county_classification"]  # (the handler keeps every level but "unit")
    log = []

    def rec(name, ret):
        def contract(interp, self_, *a, **k):
            log.append((name, a, k))
            return ret(*a, **k)

        return contract

    h.contracts[f"{CO_}.get_unit_predictions"] = rec("unit_predictions", lambda rep, non, e, **k: (("preds", e), None))
    h.contracts[f"{GA_}.get_unit_prediction_intervals"] = rec("unit_intervals", lambda rep, non, alpha, e: ("upi", alpha, e))
    h.contracts[f"{BASE_}.get_aggregate_predictions"] = rec("agg_predictions", lambda rep, non, unx, agg, e, **k: ("est", tuple(agg), e))
    h.contracts[f"{GA_}.get_aggregate_prediction_intervals"] = rec("agg_intervals", lambda rep, non, unx, agg, alpha, upi, e, **k: ("api", tuple(agg), alpha, e))
    h.contracts[f"{GA_}.get_all_conformalization_data_unit"] = rec("conf_unit", lambda: ("conf_unit", len(log)))
    h.contracts[f"{GA_}.get_all_conformalization_data_agg"] = rec("conf_agg", lambda: ("conf_agg", len(log)))
    model = h.obj(GA_)
    handler = _HandlerDouble(aggregates)
    self = h.obj(CL, model=model, results_handler=handler, office="S", election_id="e", geographic_unit_type="county", save_results=False, all_conformalization_data_unit_dict={a: {} for a in levels}, all_conformalization_data_agg_dict={a: {} for a in levels})
    rp = lambda ev: {"target": "verif_replays:level_independence_replay", "args": [], "check": "result['exc'] is None and result['ok']"}  # noqa: E731
    kind, env = h.slice(f"{CL}.get_estimates", first_assign="unit_predictions", last_assign="alpha_to_agg_prediction_intervals", env={"self": self, "estimands": estimands, "prediction_intervals": levels, "reporting_units": ("frame", "reporting_units"), "nonreporting_units": ("frame", "nonreporting_units"), "unexpected_units": ("frame", "unexpected_units"), "lhs_called_contests": [], "rhs_called_contests": [], "stop_model_call": []})
    if kind == "raise":
        return h.fail("no_raise", f"raised {env}")
    aggs = {a: ("postal_code",) if a == "postal_code" else ("postal_code", a) for a in aggregates}
    ai = [c for c in log if c[0] == "agg_intervals"]
    h.ensures("one_aggregate_interval_call_per_estimand_aggregate_and_level", len(ai) == len(estimands) * len(aggregates) * len(levels), replay=rp)
    ok_upi = all(a[5] == ("upi", a[4], a[6]) for _, a, k in ai)
    h.ensures("aggregate_intervals_of_a_level_use_the_unit_intervals_of_that_level_and_estimand", ok_upi, why=str([(a[4], a[5], a[6]) for _, a, k in ai if a[5] != ("upi", a[4], a[6])][:2]), replay=rp)
    seen = [(tuple(a[3]), a[4], a[6]) for _, a, k in ai]
    h.ensures("every_combination_exactly_once", sorted(seen) == sorted((aggs[a], al, e) for e in estimands for a in aggregates for al in levels), why=str(seen[:3]), replay=rp)
    # what is filed with the results handler
    ui = [c for c in handler.calls if c[0] == "add_unit_intervals"]
    h.ensures("unit_intervals_filed_per_estimand_under_their_own_level", [c[1][0] for c in ui] == estimands and all(dict(c[1][1]) == {al: ("upi", al, c[1][0]) for al in levels} for c in ui), replay=rp)
    ap = [c for c in handler.calls if c[0] == "add_agg_predictions"]
    want = [(e, a) for e in estimands for a in aggregates]
    h.ensures("aggregate_results_filed_per_estimand_and_aggregate", [(c[1][0], c[1][1]) for c in ap] == want, replay=rp)
    h.ensures("aggregate_results_carry_their_own_estimates_and_levels", all(c[1][2] == ("est", aggs[c[1][1]], c[1][0]) and dict(c[1][3]) == {al: ("api", aggs[c[1][1]], al, c[1][0]) for al in levels} for c in ap), why=str([c[1][2:] for c in ap][:1]), replay=rp)
    cu = self.attrs["all_conformalization_data_unit_dict"]
    h.ensures("calibration_data_kept_per_level_and_estimand", all(set(cu[al]) == set(estimands) for al in levels))

# the column schema and "values of one request do not depend on the others" at the unit table: the ModelResultsHandler unit
from pyvc.api import UNITS as _UNITS  # noqa: E402

for _u in list(_UNITS.get("C01", [])):
    if _u["name"] == "model_results.unit_table" and not any(x["name"] == "model_results.unit_table" for x in _UNITS.get("C13", [])):
        _UNITS.setdefault("C13", []).append(dict(_u, prop="C13"))
