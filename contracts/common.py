"""Shared harness pieces: the symbolic election 'world' (input-validity predicate of DESIGN section 3)."""
import z3

from pyvc import frames
from pyvc.seq import SymSeq
from pyvc.values import Obj, V

CDH = "elexmodel.handlers.data.CombinedData.CombinedDataHandler"

CATS = {
    "unexpected": "unexpected",
    "blk": "non-modeled: blocklisted",
    "zero": "non-modeled: zero baseline",
    "tf": "non-modeled: strange turnout factor",
    "tfm": "non-modeled: strange turnout factor modeled",
    "mm": "non-modeled: strange margin change modeled",
}


class World:
    """self.data / self.current_data of a CombinedDataHandler as symbolic key-unique tables over unit ids."""

    def __init__(self, h, estimands, aggregates=("postal_code",), with_district=False, extra_cols=()):
        self.h = h
        root, fips = frames.unit_universe("units")
        self.root, self.fips = root, fips
        h.syms["fips_units"] = fips
        h.ctx.assume(z3.And(*root.facts()))
        u = root.u
        I = z3.IntSort()

        def fn(name, sort):
            f = z3.Function(name, I, sort)
            h.syms[name] = f
            return f

        R, S, B = z3.RealSort(), z3.StringSort(), z3.BoolSort()
        self.inData = fn("inData", B)
        self.inFeed = fn("inFeed", B)
        # ids identify units (V1): distinct universe elements have distinct ids
        h.ctx.assume(z3.Implies(fips(root.u) == fips(root.u2), root.u == root.u2))
        self.estimands = list(estimands)
        dcols = {"postal_code": fn("postal_code", S)(u), "geographic_unit_fips": fips(u), "percent_expected_vote": fn("pev", R)(u), "baseline_weights": fn("baseline_weights", R)(u), "turnout_factor": fn("turnout_factor", R)(u), "results_weights": fn("results_weights", R)(u)}
        ccols = {"postal_code": dcols["postal_code"], "geographic_unit_fips": fips(u), "percent_expected_vote": dcols["percent_expected_vote"], "results_weights": dcols["results_weights"]}
        for a in ("county_fips", "county_classification", "district"):
            dcols[a] = fn(a, S)(u)
        for e in estimands:
            dcols[f"results_{e}"] = fn(f"results_{e}", R)(u)
            ccols[f"results_{e}"] = dcols[f"results_{e}"]
            dcols[f"last_election_results_{e}"] = fn(f"last_{e}", R)(u)
        if "margin" in estimands:
            dcols["results_normalized_margin"] = fn("results_normalized_margin", R)(u)
        for c in extra_cols:
            dcols[c] = fn(c, R)(u)
        self.data = frames.base_frame(root, self.inData(u), dcols, "geographic_unit_fips")
        self.current = frames.base_frame(root, self.inFeed(u), ccols, "geographic_unit_fips")
        self.cols = dcols
        # V2: counts are non-negative, baseline + 1 >= 1
        for e in estimands:
            if e != "margin":
                h.ctx.assume(z3.And(dcols[f"results_{e}"] >= 0, dcols[f"last_election_results_{e}"] >= 1))
        h.ctx.assume(dcols["percent_expected_vote"] >= 0)

    def handler(self, geographic_unit_type="county"):
        return Obj(*_cls(CDH), attrs={"data": self.data, "current_data": self.current, "estimands": self.estimands, "geographic_unit_type": geographic_unit_type, "n_minimum_for_outlier_detection_model": 20})


def _cls(q):
    from pyvc import source

    parts = q.split(".")
    mod = source.module(".".join(parts[:-1]))
    return mod, mod.classes[parts[-1]]


def symlist(h, name, sort=None):
    sp = h.space(name)
    f = z3.Function(f"elem_{name}", z3.IntSort(), sort or z3.StringSort())
    h.syms[f"elem_{name}"] = f
    return SymSeq(sp, f(sp.u), name)
