"""Shared harness pieces: the symbolic election 'world' (input-validity predicate of DESIGN section 3)."""
import z3

from pyvc import frames
from pyvc.seq import SymSeq
from pyvc.values import Obj, V

CDH = "elexmodel.handlers.data.CombinedData.CombinedDataHandler"

CATS = {
    "unexpected": "unexpected",
    "blk": "non-modeled: blocklisted",
    "zero": "non-modeled: zero baseline",
    "tf": "non-modeled: strange turnout factor",
    "tfm": "non-modeled: strange turnout factor modeled",
    "mm": "non-modeled: strange margin change modeled",
}


class World:
    """self.data / self.current_data of a CombinedDataHandler as symbolic key-unique tables over unit ids."""

    def __init__(self, h, estimands, aggregates=("postal_code",), with_district=False, extra_cols=()):
        self.h = h
        root, fips = frames.unit_universe("units")
        self.root, self.fips = root, fips
        h.syms["fips_units"] = fips
        h.ctx.assume(z3.And(*root.facts()))
        u = root.u
        I = z3.IntSort()

        def fn(name, sort):
            f = z3.Function(name, I, sort)
            h.syms[name] = f
            return f

        R, S, B = z3.RealSort(), z3.StringSort(), z3.BoolSort()
        self.inData = fn("inData", B)
        self.inFeed = fn("inFeed", B)
        # ids identify units (V1): distinct universe elements have distinct ids
        h.ctx.assume(z3.Implies(fips(root.u) == fips(root.u2), root.u == root.u2))
        self.estimands = list(estimands)
        dcols = {"postal_code": fn("postal_code", S)(u), "geographic_unit_fips": fips(u), "percent_expected_vote": fn("pev", R)(u), "baseline_weights": fn("baseline_weights", R)(u), "turnout_factor": fn("turnout_factor", R)(u), "results_weights": fn("results_weights", R)(u)}
        ccols = {"postal_code": dcols["postal_code"], "geographic_unit_fips": fips(u), "percent_expected_vote": dcols["percent_expected_vote"], "results_weights": dcols["results_weights"]}
        for a in ("county_fips", "county_classification", "district"):
            dcols[a] = fn(a, S)(u)
        for e in estimands:
            dcols[f"results_{e}"] = fn(f"results_{e}", R)(u)
            ccols[f"results_{e}"] = dcols[f"results_{e}"]
            dcols[f"last_election_results_{e}"] = fn(f"last_{e}", R)(u)
        if "margin" in estimands:
            dcols["results_normalized_margin"] = fn("results_normalized_margin", R)(u)
        for c in extra_cols:
            dcols[c] = fn(c, R)(u)
        self.data = frames.base_frame(root, self.inData(u), dcols, "geographic_unit_fips")
        self.current = frames.base_frame(root, self.inFeed(u), ccols, "geographic_unit_fips")
        # a count the feed delivers may be MISSING (NaN) -- for units that are not in the joined table only: __init__ drops the
        # joined rows without results (policy "drop") or fills them with 0 (policy "zero"), the feed frame itself keeps them
        from pyvc.values import V as _V

        for e in estimands:
            miss = fn(f"feed_count_missing_{e}", B)(u)
            h.forall_rows(root, z3.Implies(self.inData(u), z3.Not(miss)))
            c = self.current.cols[f"results_{e}"]
            self.current.cols[f"results_{e}"] = _V(c.t, c.axes, c.series, miss, c.inf, c.meta)
        # the baseline table as __init__ keeps it: a superset of the joined table (rows can be dropped from the latter)
        self.inBase = fn("inBaseline", B)
        h.forall_rows(root, z3.Implies(self.inData(u), self.inBase(u)))
        self.preprocessed = frames.base_frame(root, self.inBase(u), {"postal_code": dcols["postal_code"], "geographic_unit_fips": fips(u)}, "geographic_unit_fips")
        self.cols = dcols
        # V2: counts are non-negative, baseline + 1 >= 1
        for e in estimands:
            if e != "margin":
                h.ctx.assume(z3.And(dcols[f"results_{e}"] >= 0, dcols[f"last_election_results_{e}"] >= 1))
        h.ctx.assume(dcols["percent_expected_vote"] >= 0)

    def handler(self, geographic_unit_type="county"):
        return Obj(*_cls(CDH), attrs={"data": self.data, "current_data": self.current, "preprocessed_data": self.preprocessed, "estimands": self.estimands, "geographic_unit_type": geographic_unit_type, "n_minimum_for_outlier_detection_model": 20})


def _cls(q):
    from pyvc import source

    parts = q.split(".")
    mod = source.module(".".join(parts[:-1]))
    return mod, mod.classes[parts[-1]]


def symlist(h, name, sort=None):
    sp = h.space(name)
    f = z3.Function(f"elem_{name}", z3.IntSort(), sort if sort is not None else z3.StringSort())
    h.syms[f"elem_{name}"] = f
    return SymSeq(sp, f(sp.u), name)


class Three:
    """the three frames returned by get_units (post-state of C09), as symbolic key-unique tables:
    reporting R(u), nonreporting N(u), third T(u) -- pairwise disjoint (C09.get_units.*.iff / exactly_once)."""

    KEYS = ("postal_code", "county_fips", "county_classification", "district")

    def __init__(self, h, estimand, with_pred=True, alphas=(), extra=(), int_extra=()):
        self.h = h
        root, fips = frames.unit_universe("units")
        self.root, self.fips = root, fips
        h.syms["fips_units"] = fips
        h.ctx.assume(z3.And(*root.facts()))
        u = root.u
        I, R_, S, B = z3.IntSort(), z3.RealSort(), z3.StringSort(), z3.BoolSort()

        def fn(name, sort):
            f = z3.Function(name, I, sort)
            h.syms[name] = f
            return f

        self.fn = fn
        self.R, self.N, self.T = fn("inRep", B)(u), fn("inNonrep", B)(u), fn("inThird", B)(u)
        h.forall_rows(root, z3.And(z3.Not(z3.And(self.R, self.N)), z3.Not(z3.And(self.R, self.T)), z3.Not(z3.And(self.N, self.T))))
        h.ctx.assume(z3.Implies(fips(root.u) == fips(root.u2), root.u == root.u2))
        e = estimand
        self.e = e
        # V2: vote counts are whole numbers -> Int-sorted columns (margins are differences of counts: Int as well)
        self.res = fn(f"results_{e}", I)(u)
        self.last = fn(f"last_{e}", I)(u)
        self.keys = {k: fn(k, S)(u) for k in self.KEYS}
        self.knullT = {k: fn(f"null_{k}_third", B)(u) for k in self.KEYS if k != "postal_code"}
        self.category = fn("unit_category_third", S)(u)

        def cols(kind):
            c = {"postal_code": self.keys["postal_code"], "geographic_unit_fips": fips(u), f"results_{e}": self.res}
            for k in self.KEYS[1:]:
                c[k] = V(self.keys[k], (), None, self.knullT[k]) if kind == "T" else self.keys[k]
            c["reporting"] = z3.IntVal(1 if kind == "R" else 0)
            c["unit_category"] = z3.StringVal("expected") if kind != "T" else self.category
            if kind != "T":
                c[f"last_election_results_{e}"] = self.last
            for x in extra:
                c[x] = fn(x, R_)(u)
            for x in int_extra:
                c[x] = fn(x, I)(u)
            return c

        self.rep = frames.base_frame(root, self.R, cols("R"), "geographic_unit_fips")
        self.nonrep = frames.base_frame(root, self.N, cols("N"), "geographic_unit_fips")
        self.third = frames.base_frame(root, self.T, cols("T"), "geographic_unit_fips")
        # V2: counts are non-negative whole numbers; previous result + 1 >= 1
        if e != "margin":
            h.forall_rows(root, z3.And(self.res >= 0, self.last >= 1))

    def gsum(self, which, keys, term, extra_dom=None):
        """Σ over the rows of frame `which` whose key tuple equals the generic group of `keys` (spec side)."""
        from pyvc import sums

        gs = frames.keyspace(list(keys), {k: z3.StringSort() for k in keys})
        dom = {"R": self.R, "N": self.N, "T": self.T}[which]
        conds = [dom]
        for k in keys:
            if which == "T" and k != "postal_code":
                conds.append(z3.Not(self.knullT[k]))
            conds.append(self.keys[k] == gs.keyvars[k])
        if extra_dom is not None:
            conds.append(extra_dom)
        sym, d = sums.formal_sum_dom(self.h.ctx, self.root, z3.And(*conds), term)
        return sym, d

    def member(self, which, keys):
        """some row of frame `which` has the generic key tuple (as a quantifier-free instance pair)"""
        gs = frames.keyspace(list(keys), {k: z3.StringSort() for k in keys})
        dom = {"R": self.R, "N": self.N, "T": self.T}[which]
        conds = [dom]
        for k in keys:
            if which == "T" and k != "postal_code":
                conds.append(z3.Not(self.knullT[k]))
            conds.append(self.keys[k] == gs.keyvars[k])
        return z3.And(*conds)


AGGS = {
    "state": ["postal_code"],
    "county": ["postal_code", "county_fips"],
    "classification": ["postal_code", "county_classification"],
    "district": ["postal_code", "district"],
}


def init_defaults(clsqual):
    """the attributes that the class's own __init__ sets to a constant, to None, to an empty container or to
    model_settings.get(name, <constant>) -- with those defaults.  Harness objects built without running __init__ take them,
    so that a field added to __init__ with a simple default exists on the harness object as well."""
    import ast

    from pyvc import source

    parts = clsqual.split(".")
    mod = source.module(".".join(parts[:-1]))
    cls = mod.classes[parts[-1]]
    out = {}
    for fn in cls.body:
        if isinstance(fn, ast.FunctionDef) and fn.name == "__init__":
            for n in ast.walk(fn):
                if isinstance(n, ast.Assign) and len(n.targets) == 1 and isinstance(n.targets[0], ast.Attribute) and isinstance(n.targets[0].value, ast.Name) and n.targets[0].value.id == "self":
                    v = n.value
                    if isinstance(v, ast.Call) and isinstance(v.func, ast.Attribute) and v.func.attr == "get" and len(v.args) == 2:
                        v = v.args[1]
                    try:
                        out[n.targets[0].attr] = ast.literal_eval(v)
                    except Exception:
                        pass
    return out
