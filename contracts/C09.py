"""C09 -- which units feed the model follows the eligibility rules exactly (DESIGN section 4, C09)."""
import z3

from contracts.common import CATS, CDH, World, symlist
from pyvc import frames
from pyvc.api import unit
from pyvc.values import V, Undecided

LEVEL = "proof"
BOUNDED = [{"name": "theory_conformance_get_units", "script": "conformance_frames.py", "python": "vt", "tiers": ["thorough"], "args": ["--n", "60"], "timeout": 2400}]
ASSUMPTIONS = [
    "A-REAL; V1 (unit ids unique per table); V2 (counts non-negative)",
    "the outlier models' outputs are abstracted by their contract: a row filter of the reporting frame they are given (arbitrary mask)",
]
EST = "elexmodel.handlers.data.Estimandizer"


def outlier_contract(flag_fns):
    """contract of CombinedDataHandler._fit_outlier_detection_model: returns reporting_units[mask].copy() for
    SOME boolean mask over its rows (the mask is an uninterpreted predicate per response variable)."""

    def con(interp, self, reporting_units, response_variable, outlier_z_threshold):
        f = flag_fns[response_variable]
        mask = V(f(reporting_units.axis.root.u), (reporting_units.axis,))
        return reporting_units.filter(mask)._new()

    return con


def run_get_units(h, estimands, aggregates, w=None):
    w = w or World(h, estimands)
    u = w.root.u
    thr = h.real("thr")
    lo = h.real("tf_lower")
    hi = h.real("tf_upper")
    z = h.real("z_threshold")
    fit_m = h.bool("fit_margin_outlier_model")
    fit_t = h.bool("fit_turnout_outlier_model")
    ublk = symlist(h, "unit_blocklist")
    pblk = symlist(h, "postal_code_blocklist")
    flagT = z3.Function("flag_turnout", z3.IntSort(), z3.BoolSort())
    flagM = z3.Function("flag_margin", z3.IntSort(), z3.BoolSort())
    h.syms["flag_turnout"] = flagT
    h.syms["flag_margin"] = flagM
    h.contracts[f"{CDH}._fit_outlier_detection_model"] = outlier_contract({"turnout_factor": flagT, "results_normalized_margin": flagM})
    self = w.handler()
    kind, res = h.call_method(self, "get_units", thr, lo, hi, ublk, pblk, fit_m, fit_t, z, list(aggregates))
    return w, dict(thr=thr, lo=lo, hi=hi, fit_m=fit_m, fit_t=fit_t, ublk=ublk, pblk=pblk, flagT=flagT, flagM=flagM), kind, res


def spec_sets(w, p, estimands):
    """the eligibility rules written from the property statement, over the generic unit u"""
    u = w.root.u
    c = w.cols
    inData, inFeed = w.inData(u), w.inFeed(u)
    pev = c["percent_expected_vote"]
    thr = p["thr"].t
    blk = z3.Or(p["ublk"].mem()(c["geographic_unit_fips"]), p["pblk"].mem()(c["postal_code"]))
    bw = c["baseline_weights"]
    zero = z3.If(bw >= 0, bw, -bw) <= z3.RealVal("1e-8")  # np.isclose(x, 0)
    tf = c["turnout_factor"]
    cand = z3.And(inData, pev >= thr)  # reporting candidates
    # the outlier models are fitted on (and enabled by the number of) reporting candidates that are neither blocklisted
    # nor zero-baseline (the statement says "an enabled outlier model" and leaves the count to the implementation; since
    # the repair of F14 the excluded units are out of that frame)
    n_cand = frames.count_of(w.root, z3.And(cand, z3.Not(blk), z3.Not(zero)))
    en_t = z3.And(p["fit_t"].t, n_cand > 20)
    en_m = z3.And(p["fit_m"].t, n_cand > 20) if "margin" in estimands else z3.BoolVal(False)
    strange = z3.Or(tf <= p["lo"].t, tf >= p["hi"].t)
    fT = z3.And(en_t, p["flagT"](u))
    fM = z3.And(en_m, p["flagM"](u))
    reasons = [
        ("unexpected", z3.And(inFeed, z3.Not(inData))),
        ("blk", z3.And(inData, blk)),
        ("zero", z3.And(inData, zero)),
        ("tf", z3.And(cand, strange)),
        ("tfm", z3.And(cand, fT)),
        ("mm", z3.And(cand, fM)),
    ]
    rep = z3.And(cand, z3.Not(blk), z3.Not(zero), tf > p["lo"].t, tf < p["hi"].t, z3.Not(fT), z3.Not(fM))
    nonrep = z3.And(inData, pev < thr, z3.Not(blk), z3.Not(zero))
    return rep, nonrep, reasons


def _units(prop_est, name):
    @unit("C09", f"get_units.{name}", fns=[f"{CDH}.get_units", f"{CDH}._get_non_modeled_units", f"{CDH}._get_unexpected_units", f"{CDH}._get_units_with_baseline_of_zero", f"{CDH}._get_expected_geographic_unit_fips"])
    def get_units(h, prop_est=prop_est):
        # scenario for the paths that leave the subset: units that meet several reasons at once / sit on a limit, behind a unit below
        # the threshold (positions in the reporting frame shifted against the joined table)
        h.default_replay = lambda ev: {"target": "verif_replays:get_units_scenario_replay", "args": [], "check": "result['exc'] is None and result['ok']"}
        w, p, kind, res = run_get_units(h, prop_est, ["postal_code", "unit"])
        if kind == "raise":
            return h.fail("no_raise", f"raised {res}")
        rep_f, nonrep_f, third_f = res
        rep, nonrep, reasons = spec_sets(w, p, prop_est)
        facts = z3.And(*w.root.facts())
        third_spec = z3.Or(*[r for _, r in reasons])
        u_ = w.root.u
        cand_ = z3.And(w.inData(u_), w.cols["percent_expected_vote"] >= p["thr"].t)
        blk_ = z3.Or(p["ublk"].mem()(w.cols["geographic_unit_fips"]), p["pblk"].mem()(w.cols["postal_code"]))

        def rp(ev):
            """the generic unit of the counter-model as a real one-unit election (plus fillers), expected placement
            computed from the statement's rules evaluated in the model"""
            bw_ = w.cols["baseline_weights"]
            zero_ = z3.If(bw_ >= 0, bw_, -bw_) <= z3.RealVal("1e-8")
            many = ev(frames.count_of(w.root, z3.And(cand_, z3.Not(blk_), z3.Not(zero_)))) > 20
            unit_ = {"inData": ev(w.inData(u_)), "inFeed": ev(w.inFeed(u_)) or not ev(w.inData(u_)), "pev": float(ev(w.cols["percent_expected_vote"])), "bw": float(ev(w.cols["baseline_weights"])), "tf": float(ev(w.cols["turnout_factor"]))}
            exp_where = [k for k, t_ in (("reporting", rep), ("nonreporting", nonrep), ("third", third_spec)) if ev(t_)]
            cat = None
            for key, cond in reasons:
                if ev(cond):
                    cat = CATS[key]
                    break
            exp_cat = ["expected"] if exp_where and exp_where[0] != "third" else ([cat] if cat else [])
            return {"target": "verif_replays:get_units_direct", "args": [unit_, float(ev(p["thr"].t)), float(ev(p["lo"].t)), float(ev(p["hi"].t)), bool(ev(p["ublk"].mem()(w.cols["geographic_unit_fips"]))), bool(ev(p["pblk"].mem()(w.cols["postal_code"]))), bool(ev(p["flagT"](u_))), bool(ev(p["flagM"](u_))), bool(ev(p["fit_t"].t)), bool(ev(p["fit_m"].t)), bool(many)], "kwargs": {"estimands": list(prop_est)}, "check": f"result['exc'] is None and result['where'] == {exp_where!r} and result['category'] == {exp_cat!r}"}

        h.ensures("iff.reporting", z3.Implies(facts, rep_f.axis.present() == rep), replay=rp)
        h.ensures("iff.nonreporting", z3.Implies(facts, nonrep_f.axis.present() == nonrep), replay=rp)
        h.ensures("iff.third", z3.Implies(facts, third_f.axis.present() == third_spec), replay=rp)
        h.ensures("third.exactly_once", z3.Implies(facts, third_f.axis.multiplicity() <= 1))
        # category = first applicable reason, for the generic row (u, seg) of the third frame
        cat = third_f.col("unit_category")
        want = z3.StringVal("?")
        for key, cond in reversed(reasons):
            want = z3.If(cond, z3.StringVal(CATS[key]), want)
        h.ensures("category.first_reason", z3.Implies(z3.And(*third_f.axis.facts()), cat.t == want), replay=rp)
        h.ensures("category.expected_in_model_frames", z3.And(z3.Implies(z3.And(*rep_f.axis.facts()), rep_f.col("unit_category").t == z3.StringVal("expected")), z3.Implies(z3.And(*nonrep_f.axis.facts()), nonrep_f.col("unit_category").t == z3.StringVal("expected"))))
        def rp_flag(ev):
            d = rp(ev)
            # the generic unit of the counter-model (a third-frame unit at or above the threshold, say) in a real election:
            # the flag column is 1 on the fitting frame and 0 on every other row
            d["check"] = "result['exc'] is None and result['flags_ok']"
            return d

        h.ensures("reporting_flag", z3.And(z3.Implies(z3.And(*rep_f.axis.facts()), rep_f.col("reporting").t == 1), z3.Implies(z3.And(*nonrep_f.axis.facts()), nonrep_f.col("reporting").t == 0), z3.Implies(z3.And(*third_f.axis.facts()), third_f.col("reporting").t == 0)), replay=rp_flag)
        for e in prop_est:
            r = rep_f.col(f"residuals_{e}")
            last = rep_f.col(f"last_election_results_{e}").t
            resu = rep_f.col(f"results_{e}").t
            if e != "margin":
                h.ensures(f"residual.{e}", z3.Implies(z3.And(*rep_f.axis.facts()), z3.And(r.t * last == resu - last, z3.Not(r.nan) if r.nan is not None else True)))

    return get_units


_units(["turnout"], "turnout")
_units(["margin"], "margin")


# ---- CombinedDataHandler.__init__ and the Estimandizer: joined table and derived quantities --------------

def _feed_and_baseline(h, estimands, nullable_results=False):
    """symbolic preprocessed table and live feed (raw columns), key-unique over unit ids"""
    root, fips = frames.unit_universe("units")
    h.ctx.assume(z3.And(*root.facts()))
    u = root.u
    I, R, S, B = z3.IntSort(), z3.RealSort(), z3.StringSort(), z3.BoolSort()

    def fn(name, sort):
        f = z3.Function(name, I, sort)
        h.syms[name] = f
        return f

    inBase, inFeed = fn("inBase", B)(u), fn("inFeed", B)(u)
    pc_b, pc_f = fn("postal_code_base", S)(u), fn("postal_code_feed", S)(u)
    base_cols = {"postal_code": pc_b, "geographic_unit_fips": fips(u), "county_fips": fn("county_fips", S)(u)}
    for c in ("baseline_turnout", "baseline_dem", "baseline_gop"):
        base_cols[c] = fn(c, R)(u)
        h.ctx.assume(base_cols[c] >= 0)
    feed_cols = {"postal_code": pc_f, "geographic_unit_fips": fips(u), "percent_expected_vote": fn("pev", R)(u)}
    nulls = {}
    for c in ("results_turnout", "results_dem", "results_gop"):
        feed_cols[c] = fn(c, R)(u)
        h.ctx.assume(feed_cols[c] >= 0)
        if nullable_results:
            # a feed may deliver one count of a unit but not another (NaN)
            nulls[c] = fn("null_" + c, B)(u)
            feed_cols[c] = V(feed_cols[c], (), None, nulls[c])
    h.ctx.assume(feed_cols["percent_expected_vote"] >= 0)
    base = frames.base_frame(root, inBase, base_cols, "geographic_unit_fips")
    feed = frames.base_frame(root, inFeed, feed_cols, "geographic_unit_fips")
    out = dict(inBase=inBase, inFeed=inFeed, pc_b=pc_b, pc_f=pc_f, nulls=nulls, **{k: v for k, v in base_cols.items()})
    for k, v in feed_cols.items():
        if k.startswith("results") or k == "percent_expected_vote":
            out[k] = v.t if isinstance(v, V) else v
    return root, base, feed, out


def _div0(a, b):
    """a/b with the 'denominator 0 -> 0' convention of the statement"""
    return z3.If(b == 0, z3.RealVal(0), a / b)


def _init_unit(estimands, policy, name, prepared=False):
    @unit("C09", f"init.{name}.{policy}", fns=[f"{CDH}.__init__", f"{EST}.Estimandizer.add_estimand_results", f"{EST}.Estimandizer.add_estimand_baselines", f"{EST}.Estimandizer.add_weights", f"{EST}.Estimandizer.add_turnout_factor", f"{EST}.margin"])
    def init(h):
        root, base, feed, s = _feed_and_baseline(h, estimands)
        if prepared:
            # "for all feeds": the feed of a historical / command-line run has ALREADY been through the estimandizer once
            # (MockLiveDataHandler.load_data: real add_estimand_results, then only the returned columns are kept -- no
            # dem / gop columns any more); the derived quantities must survive the second pass in CombinedDataHandler
            kind, r = h.call_method(h.obj(f"{EST}.Estimandizer"), "add_estimand_results", feed, list(estimands), False)
            if kind == "raise":
                return h.fail("first_pass.no_raise", f"raised {r}")
            feed1, cols = r
            h.ensures("first_pass.returned_columns", isinstance(cols, list) and "results_weights" in cols and "results_turnout" in cols, why=str(cols))
            feed = h.interp.getitem(feed1, ["postal_code", "geographic_unit_fips", "percent_expected_vote"] + list(cols))
        # the preprocessed table as the client passes it: PreprocessedDataHandler.load_data ->
        # Estimandizer.add_estimand_baselines (real code), not historical
        est = h.obj(f"{EST}.Estimandizer")
        baselines = {e: ("margin" if e == "margin" else e) for e in estimands}
        kind, pre = h.call_method(est, "add_estimand_baselines", base, baselines, False)
        if kind == "raise":
            return h.fail("baselines.no_raise", f"raised {pre}")
        facts_b = z3.And(*pre.axis.facts())
        for e in estimands:
            src = {"turnout": s["baseline_turnout"], "dem": s["baseline_dem"], "gop": s["baseline_gop"], "margin": s["baseline_dem"] - s["baseline_gop"]}[e]
            h.ensures(f"baseline.plus_one.{e}", z3.Implies(facts_b, pre.col(f"last_election_results_{e}").t == src + 1))
        bw_spec = (s["baseline_dem"] + s["baseline_gop"]) if "margin" in estimands else s["baseline_turnout"]
        h.ensures("baseline.weights", z3.Implies(facts_b, pre.col("baseline_weights").t == bw_spec))
        if "margin" in estimands:
            c = pre.col("baseline_normalized_margin")
            h.ensures("baseline.normalized_margin", z3.Implies(facts_b, z3.And(c.t == _div0(s["baseline_dem"] - s["baseline_gop"], s["baseline_dem"] + s["baseline_gop"]), z3.Not(c.nan) if c.nan is not None else True)))
        obj = h.obj(CDH)
        feed_before, pre_before = dict(feed.cols), dict(pre.cols)
        kind, _ = h.call_method(obj, "__init__", pre, feed, list(estimands), "county", handle_unreporting=policy)
        if kind == "raise":
            return h.fail("init.no_raise", f"raised {_}")
        # frame condition (C11 / C12): the two tables belong to the CALLER -- a poller keeps its feed frame and passes it
        # again on the next run -- so the handler must leave them exactly as it found them (columns and cells)
        rp_in = lambda ev: {"target": "verif_replays:inputs_not_modified_replay", "args": [list(estimands), policy], "check": "result['exc'] is None and result['ok']"}  # noqa: E731
        h.ensures("inputs.the_callers_feed_frame_is_left_as_it_was_found", list(feed.cols) == list(feed_before) and all(feed.cols[k] is feed_before[k] for k in feed_before), why=f"columns before {list(feed_before)} / after {list(feed.cols)}", replay=rp_in)
        h.ensures("inputs.the_callers_preprocessed_frame_is_left_as_it_was_found", list(pre.cols) == list(pre_before) and all(pre.cols[k] is pre_before[k] for k in pre_before), why=f"columns before {list(pre_before)} / after {list(pre.cols)}", replay=rp_in)
        data = obj.attrs["data"]
        matched = z3.And(s["inFeed"], s["pc_b"] == s["pc_f"])
        facts = z3.And(*root.facts())
        dom_spec = z3.And(s["inBase"], matched) if policy == "drop" else s["inBase"]
        h.ensures("joined.rows", z3.Implies(facts, data.axis.present() == dom_spec))
        h.ensures("joined.once", len(data.axis.doms) == 1)
        rowf = z3.And(*data.axis.facts())
        rw_spec = (s["results_dem"] + s["results_gop"]) if "margin" in estimands else s["results_turnout"]
        for e in estimands:
            src = {"turnout": s["results_turnout"], "dem": s["results_dem"], "gop": s["results_gop"], "margin": s["results_dem"] - s["results_gop"]}[e]
            c = data.col(f"results_{e}")
            want = src if policy == "drop" else z3.If(matched, src, 0)
            h.ensures(f"joined.results.{e}", z3.Implies(rowf, z3.And(c.t == want, z3.Not(c.nan) if c.nan is not None else True)))
        pev = data.col("percent_expected_vote")
        h.ensures("joined.percent", z3.Implies(rowf, z3.And(pev.t == (s["percent_expected_vote"] if policy == "drop" else z3.If(matched, s["percent_expected_vote"], 0)), z3.Not(pev.nan) if pev.nan is not None else True)))
        tf = data.col("turnout_factor")
        rw = z3.If(matched, rw_spec, 0) if policy == "zero" else rw_spec

        def rpd(ev):
            if not ev(s["inBase"]):
                return None
            if not ev(matched):
                # the counter-model's unit is a baseline unit that is absent from the feed: the replay's election always holds
                # such a unit (F_absent); its matched unit gets ordinary values
                unit_ = dict(baseline_turnout=100.0, baseline_dem=50.0, baseline_gop=40.0, results_turnout=80.0, results_dem=40.0, results_gop=30.0, pev=100.0)
                return {"target": "verif_replays:derived_quantities_replay", "args": [unit_, policy, list(estimands), bool(prepared)], "check": "result['exc'] is None and result['ok']"}
            unit_ = {k: float(ev(s[k])) for k in ("baseline_turnout", "baseline_dem", "baseline_gop", "results_turnout", "results_dem", "results_gop")}
            unit_["pev"] = float(ev(s["percent_expected_vote"]))
            return {"target": "verif_replays:derived_quantities_replay", "args": [unit_, policy, list(estimands), bool(prepared)], "check": "result['exc'] is None and result['ok']"}

        h.ensures("derived.turnout_factor", z3.Implies(rowf, z3.And(tf.t == _div0(rw, bw_spec), tf.nan is None, tf.inf is None)), replay=rpd)
        if "margin" in estimands:
            nm = data.col("results_normalized_margin")
            m = s["results_dem"] - s["results_gop"]
            wv = s["results_dem"] + s["results_gop"]
            want = _div0(m, wv)
            if policy == "zero":
                # unmatched rows: results_margin is filled with 0 but the derived normalised margin column of the
                # feed is null for them -- it is not among the filled columns; the statement asks for 0-not-NaN
                pass
            h.ensures("derived.normalized_margin", z3.Implies(z3.And(rowf, matched), z3.And(nm.t == want, z3.Not(nm.nan) if nm.nan is not None else True)), replay=rpd)
            h.ensures("derived.weights", z3.Implies(z3.And(rowf, matched), data.col("results_weights").t == wv), replay=rpd)

    return init


for _e, _n in ((["turnout"], "turnout"), (["margin"], "margin"), (["dem", "turnout"], "dem_turnout")):
    for _p in ("drop", "zero"):
        _init_unit(_e, _p, _n)
for _p in ("drop", "zero"):
    _init_unit(["margin"], _p, "margin_feed_already_estimandized", prepared=True)
