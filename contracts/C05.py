"""C05 -- with no covariates the model is uniform swing by the weighted median.
The obligations live in contracts/C03.py (unit `uniform_swing`), next to the function they are about."""
import contracts.C03 as _c03  # noqa: F401

LEVEL = "proof"
ASSUMPTIONS = _c03.ASSUMPTIONS + [
    "A-QR + L-WM (assumed, not proved here): the single coefficient m returned by the external LP solver for an intercept-only design at tau = 1/2 IS the baseline-weighted median of the residuals; the contracts prove that the solver is asked exactly that question (rows, response, weights, tau) and that every prediction uses the one returned m",
]
