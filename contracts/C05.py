"""C05 -- with no covariates the model is uniform swing by the weighted median.
The obligations live in contracts/C03.py (unit `uniform_swing`), next to the function they are about."""
import contracts.C03 as _c03  # noqa: F401

LEVEL = "proof"
ASSUMPTIONS = _c03.ASSUMPTIONS + [
    "A-QR (assumed): the external LP solver (installed elexsolver, scipy HiGHS on the dual) returns a MINIMISER of the weighted pinball loss it is given; the contracts prove that the solver is asked exactly the intercept-only question at tau = 1/2 (rows, response, weights, no regularisation) and that every prediction uses the one returned m",
    "L-WM is no longer assumed: a minimiser of  sum w_i |y_i - m|  has at most half of the weight strictly below it and at most half strictly above it -- theorem wmedian_of_minimiser in lean/FrameSums.lean (the tau = 1/2 pinball loss is half the absolute loss); the bounded companion c05_solver.py tests A-QR + L-WM together on the real solver",
]
# the assumptions A-QR + L-WM concern the external LP solver: tested (never counted as proved) on random instances through
# the real fit_model and the installed elexsolver, and end to end through the real get_unit_predictions
BOUNDED = [{"name": "solver_returns_a_weighted_median", "script": "c05_solver.py", "timeout": 2400}]
