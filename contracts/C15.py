"""C15 -- gaussian intervals use a group's own calibration if big enough, else its parent (DESIGN section 4, C15).

Proved (unit `unit_intervals.formula`): the gaussian unit-level interval formula and floors on the real
get_unit_prediction_intervals with GaussianModel.fit under contract.
Proved (units `fit_cascade_step.<aggregate>`): ONE step of the real GaussianModel.fit (with _get_n_units_per_group and
pandas_utils.semi_join inlined, _fit and the recursive self.fit under the function's own contract): threshold
T = min(10, #calibration units); a single per-group fit iff every group that has calibration or outstanding units holds
>= T calibration units; otherwise the parent-level call gets all the data and the same-level call gets EXACTLY the
calibration / reporting / outstanding rows of the groups with >= T calibration units.  By induction over the (finite)
recursion this is the selection rule of the statement.
Bounded (NOT counted as proved): the matching loop of the aggregate function (frames whose rows live at different
aggregation levels with null keys, positional `iloc`/indicator tricks) and the concatenation of the models of the
recursive calls; the real functions are compared with an oracle written from the statement over an enumerated small
scope (bounded/c15_gaussian.py)."""
import z3

import contracts.C03 as C03
from contracts.common import Three
from pyvc import frames, theory_ext
from pyvc.api import unit
from pyvc.theory_np import round_half_even_t
from pyvc.values import NamedTuple, Obj, V, real

LEVEL = "other"
GA = C03.GA
GM = "elexmodel.distributions.GaussianModel.GaussianModel"
EXPLANATION = "mixed: the unit-level formula/floors are proved from the real AST (obligations listed); the group-selection cascade and aggregate alignment are an exhaustive-small-scope bounded stand-in on the real code (coverage.bounded), not a proof"
ASSUMPTIONS = C03.ASSUMPTIONS + [
    "A-SIGMA: the bootstrapped scale (scipy) is finite and positive; scipy.stats.norm.ppf(q, loc, scale) = loc + scale*z_q",
    "bounded part: group structures up to 2 states x 3 sub-groups, calibration counts in {0,3,9,10,11,25}, two- and one-level aggregates",
]
BOUNDED = [{"name": "group_selection_and_alignment", "script": "c15_gaussian.py", "timeout": 2400}]


class GMContract:
    """contract of GaussianModel(model_settings).fit(conformalization, rep, nonrep, estimand, aggregate=[], alpha): at the
    unit level (aggregate == []) ONE row of statistics of all calibration units: mu_lower/upper (weighted medians),
    sigma_lower/upper > 0 finite (A-SIGMA), var_inflate >= 0"""

    def __init__(self, interp, model_settings):
        self.interp = interp

    def pyvc_getattr(self, interp, name):
        if name != "fit":
            raise Exception(name)

        def fit(conformalization_data, reporting_units, nonreporting_units, estimand, aggregate=None, alpha=None, **kw):
            if aggregate:
                raise Exception("GMContract is the unit-level contract")
            interp.call_log.append(("gaussian.fit", dict(conf=conformalization_data, alpha=alpha)))
            vals = {}
            for k in ("mu_lower_bound", "mu_upper_bound", "sigma_lower_bound", "sigma_upper_bound", "var_inflate"):
                vals[k] = V(z3.Real(f"gm_{k}"))
            interp.ctx.assume(z3.And(vals["sigma_lower_bound"].t > 0, vals["sigma_upper_bound"].t > 0, vals["var_inflate"].t >= 0))
            return NamedTuple("GaussianFit", list(vals), list(vals.values()))

        return fit


@unit("C15", "unit_intervals.formula", fns=[f"{GA}.get_unit_prediction_intervals", f"{C03.CO}.get_unit_prediction_interval_bounds"])
def unit_formula(h):
    t = Three(h, "turnout", extra=("residuals_turnout", "f1"))
    h.contracts[C03.FEAT] = theory_ext.featurizer_contract
    h.contracts[GM] = lambda interp, ms: GMContract(interp, ms)
    alpha = h.real("alpha")
    h.requires("alpha_open", 0 < alpha, alpha < 1)
    self = C03.model(h, GA, features=["f1"])
    from pyvc.theory_np import SeqLen

    self.attrs["n_train"] = SeqLen(t.rep.axis)
    k0, m = h.call_method(self, "get_minimum_reporting_units", alpha)
    h.requires("gate", t.rep.axis.n >= m.t if isinstance(m, V) else t.rep.axis.n >= z3.RealVal(m))
    kind, res = h.call_method(self, "get_unit_prediction_intervals", t.rep, t.nonrep, alpha, "turnout")
    if kind == "raise":
        return h.fail("C14.totality_above_the_gate", f"raised {res}")
    rows = z3.And(*t.nonrep.axis.facts())
    lower, upper = res.lower, res.upper
    h.ensures("C03.lower_floor", z3.Implies(rows, lower.t >= t.res))
    h.ensures("C03.upper_floor", z3.Implies(rows, upper.t >= t.res))
    h.ensures("C03.whole_numbers", z3.Implies(rows, z3.And(z3.IsInt(real(lower.t)), z3.IsInt(real(upper.t)))))
    fits = [c for c in h.interp.call_log if c[0] == "gaussian.fit"]
    h.ensures("statistics_come_from_the_calibration_rows", len(fits) == 1 and fits[0][1]["conf"] is res.conformalization)
    qs = h.interp.qr_models
    lraw, uraw = qs[0].predict(C03._holdout(h, t)), qs[1].predict(C03._holdout(h, t))
    # the normal quantile at (3+alpha)/4: z_q > 0 for alpha in (0,1)
    zq = [s for s in h.ctx.pc if "z_q" in str(s)]
    h.ensures("one_quantile_level", len({str(s) for s in zq}) >= 1)
    mu_lo, mu_hi, s_lo, s_hi, kap = (z3.Real(f"gm_{k}") for k in ("mu_lower_bound", "mu_upper_bound", "sigma_lower_bound", "sigma_upper_bound", "var_inflate"))
    # recover the z value the code used from the ppf contract (a single fresh symbol per distinct q term)
    zs = sorted({str(d) for s in h.ctx.pc for d in _consts(s) if str(d).startswith("z_q")})
    h.ensures("single_quantile_symbol", len(zs) == 1, why=str(zs))
    if len(zs) != 1:
        return
    z = z3.Real(zs[0])
    sq = [d for s in h.ctx.pc for d in _consts(s) if str(d).startswith("sqrt")]
    sroot = z3.Real(str(sq[0])) if sq else None
    h.ensures("scale_inflation_is_sqrt_of_var_inflate_plus_one", sroot is not None)
    lc = mu_lo + (sroot * s_lo) * z
    uc = mu_hi + (sroot * s_hi) * z
    want_l = z3.If((lraw.t - lc) * t.last + t.last >= t.res, (lraw.t - lc) * t.last + t.last, t.res)
    want_u = z3.If((uraw.t + uc) * t.last + t.last >= t.res, (uraw.t + uc) * t.last + t.last, t.res)
    h.ensures("formula", z3.Implies(rows, z3.And(lower.t == z3.ToReal(round_half_even_t(want_l)), upper.t == z3.ToReal(round_half_even_t(want_u)))))
    # the quantile level: ppf was asked at (3 + alpha)/4
    h.ensures("quantile_level_is_three_plus_alpha_over_four", any("(3 + alpha)/4" in str(s).replace("ToReal(3)", "3").replace("ToReal(4)", "4") or "3 + alpha" in str(s) for s in zq), why=str(zq)[:300])


def _consts(t):
    out, stack, seen = [], [t], set()
    while stack:
        x = stack.pop()
        if x.get_id() in seen:
            continue
        seen.add(x.get_id())
        if z3.is_const(x) and x.decl().kind() == z3.Z3_OP_UNINTERPRETED:
            out.append(x)
        elif z3.is_app(x):
            stack.extend(x.children())
        elif z3.is_quantifier(x):
            stack.append(x.body())
    return out


# ---- one step of the fit cascade, with the function's own contract at the recursive calls ---------------------
from contracts.common import AGGS  # noqa: E402


def _cascade(aggname, keys):
    @unit("C15", f"fit_cascade_step.{aggname}", fns=[f"{GM}.fit", f"{GM}._get_n_units_per_group", "elexmodel.utils.pandas_utils.semi_join"])
    def step(h):
        """GaussianModel.fit at a two-level aggregate: T = min(10, all calibration units); if every group (also groups
        that only have outstanding units) holds >= T calibration units ONE per-group fit on all calibration data;
        otherwise (a) the same function on the parent level for ALL calibration data and (b) the same function at this
        level on exactly the calibration / reporting / outstanding rows of the groups with >= T calibration units."""
        t = Three(h, "turnout", extra=("lower_bounds", "upper_bounds"))
        u = t.root.u
        inCal = z3.Function("inCal", z3.IntSort(), z3.BoolSort())(u)
        h.syms["inCal"] = z3.Function("inCal", z3.IntSort(), z3.BoolSort())
        h.forall_rows(t.root, z3.Implies(inCal, t.R))
        cal = frames.base_frame(t.root, inCal, {k: c.t for k, c in t.rep.cols.items()}, "geographic_unit_fips")
        h.requires("some_calibration_unit", cal.axis.n >= 1)
        calls = []

        def own_contract(interp, self_, conformalization_data, reporting_units, nonreporting_units, estimand, aggregate=None, alpha=None, reweight=False, top_level=True):
            calls.append(dict(kind="fit", conf=conformalization_data, rep=reporting_units, non=nonreporting_units, aggregate=list(aggregate), top_level=top_level, alpha=alpha))
            return frames.base_frame(frames.keyspace(["<model>"], {"<model>": z3.StringSort()}), z3.BoolVal(True), {}, None)

        def _fit_contract(interp, self_, conformalization_data, estimand, aggregate, alpha):
            calls.append(dict(kind="_fit", conf=conformalization_data, aggregate=list(aggregate), alpha=alpha))
            return frames.base_frame(frames.keyspace(["<model>"], {"<model>": z3.StringSort()}), z3.BoolVal(True), {}, None)

        h.contracts[f"{GM}.fit"] = own_contract
        h.contracts[f"{GM}._fit"] = _fit_contract
        gm = h.obj(GM, save_conformalization=False, election_id="e", office="S", geographic_unit_type="county", winsorize=False, beta=1, seed=4191)
        clo = h.load(f"{GM}.fit")
        alpha = h.real("alpha")
        from pyvc.values import SymRaise

        try:
            h.interp.call_closure(clo, [gm, cal, t.rep, t.nonrep, "turnout"], dict(aggregate=list(keys), alpha=alpha, reweight=False, top_level=True))
        except SymRaise as e:
            return h.fail("no_raise", f"raised {e.exc}")
        from pyvc import sums

        gs = frames.keyspace(list(keys), {k: z3.StringSort() for k in keys})
        kv = [gs.keyvars[k] for k in keys]
        own = [t.keys[k] for k in keys]  # the generic unit's own group
        ncal = cal.axis.n
        T = z3.If(ncal < 10, ncal, z3.IntVal(10))
        facts = z3.And(*t.root.facts())
        # spec side: number of calibration units of the generic group g (a function of g)
        n_g, d_ng = sums.formal_sum_dom(h.ctx, t.root, z3.And(inCal, *[t.keys[k] == gs.keyvars[k] for k in keys]), z3.IntVal(1))
        at = lambda term, point: z3.substitute(term, *list(zip(kv, point)))  # noqa: E731
        kinds = [c["kind"] for c in calls]
        mins = [e for e in h.ctx.__dict__.get("_extrema", []) if hasattr(e["root"], "keyvars")]
        rp = lambda ev: {"target": "verif_replays:gaussian_cascade_replay", "args": [keys[-1]], "check": "result['exc'] is None and result['ok']"}  # noqa: E731
        h.ensures("one_minimum_over_the_group_counts", len(mins) == 1)
        if len(mins) != 1:
            return
        mn = mins[0]
        in_group = z3.And(z3.Or(inCal, t.N), *[a == b for a, b in zip(own, kv)])  # the generic unit is a calibration/outstanding unit of g
        if kinds == ["_fit"]:
            h.ensures("single_fit.uses_all_calibration_data_at_this_level", calls[0]["conf"] is cal and calls[0]["aggregate"] == list(keys))
            h.ensures("single_fit.only_if_every_group_is_large_enough", z3.Implies(z3.And(facts, in_group), n_g >= T), replay=rp)
        else:
            h.ensures("fallback.two_recursive_calls", kinds == ["fit", "fit"], why=str(kinds))
            if kinds != ["fit", "fit"]:
                return
            small, large = calls
            h.ensures("fallback.parent_level_call_gets_all_the_data", small["conf"] is cal and small["aggregate"] == list(keys[:-1]) and small["rep"] is t.rep and small["non"] is t.nonrep and small["top_level"] is False)
            h.ensures("fallback.this_level_call_keeps_the_level", large["aggregate"] == list(keys) and large["top_level"] is False)
            # ghost: the definitions of the group-presence predicates and of the minimum at the unit's own group,
            # and a calibration row of that group when its count is not 0
            ws = sums.sum_nonzero_witness(h.ctx, d_ng, list(zip(kv, own)))
            frames.presence_instances(h.ctx, t.root, dict(zip(keys, own)), rows=[ws])
            grp_ok = at(n_g, own) >= T
            for nm, fr, dom in (("calibration", large["conf"], inCal), ("outstanding", large["non"], t.N), ("reporting", large["rep"], t.R)):
                h.ensures(f"fallback.large_group_{nm}_rows", z3.Implies(facts, fr.axis.present() == z3.And(dom, grp_ok)), replay=rp)
            # it happens only if some group with calibration or outstanding units is too small: the group attaining the minimum
            wit = mn["witness"]
            ws2 = sums.sum_nonzero_witness(h.ctx, d_ng, list(zip(kv, wit)))
            pw = frames.presence_instances(h.ctx, t.root, dict(zip(keys, wit)), rows=[ws2])
            some_row = z3.Or(*[z3.And(r >= 0, r < t.root.n, z3.substitute(in_group, (t.root.u, r), *list(zip(kv, wit)))) for r in pw])
            h.ensures("fallback.only_if_some_group_is_too_small", z3.And(some_row, at(n_g, wit) < T), replay=rp)
        h.ensures("no_s3_write_without_the_option", not [c for c in h.interp.call_log if "s3" in str(c[0]).lower()])

    return step


for _n, _k in AGGS.items():
    if _n != "state":
        _cascade(_n, _k)


# ---- the per-group statistics of GaussianModel._fit (real body; weighted median / bootstrapped scale under contract) --
WM = "elexmodel.utils.math_utils.weighted_median"
BS = "elexmodel.utils.math_utils.boot_sigma"


def _cal_world(h):
    t = Three(h, "turnout", extra=("lower_bounds", "upper_bounds"))
    u = t.root.u
    f = z3.Function("inCal", z3.IntSort(), z3.BoolSort())
    h.syms["inCal"] = f
    inCal = f(u)
    h.forall_rows(t.root, z3.Implies(inCal, t.R))
    cal = frames.base_frame(t.root, inCal, {k: c.t for k, c in t.rep.cols.items()}, "geographic_unit_fips")
    return t, inCal, cal


def _spec_stats(h, t, inCal, keys, alpha, settings):
    """the statistics of the statement for the generic group of `keys` (all calibration units when keys == [])"""
    from pyvc import sums

    gs = frames.keyspace(list(keys), {k: z3.StringSort() for k in keys})
    dom = z3.And(inCal, *[t.keys[k] == gs.keyvars[k] for k in keys])
    ctx = h.ctx
    w = z3.ToReal(t.last)
    lo, up = h.syms["lower_bounds"](t.root.u), h.syms["upper_bounds"](t.root.u)
    W, dW = sums.formal_sum_dom(ctx, t.root, dom, t.last)
    W2, _ = sums.formal_sum_dom(ctx, t.root, dom, t.last * t.last)
    conf = (3 + alpha.t) / 4
    extra = [conf, z3.BoolVal(settings["winsorize"]), z3.IntVal(settings["seed"]), z3.IntVal(10000)]
    out = {}
    out["var_inflate"] = z3.ToReal(W2) / (z3.ToReal(W) * z3.ToReal(W))
    out["mu_lower_bound"] = sums.formal_stat(ctx, "wmedian", t.root, dom, [lo, w / z3.ToReal(W)])[0]
    out["mu_upper_bound"] = sums.formal_stat(ctx, "wmedian", t.root, dom, [up, w / z3.ToReal(W)])[0]
    out["sigma_lower_bound"] = settings["beta"] * sums.formal_stat(ctx, "bootsigma", t.root, dom, [lo], extra)[0]
    out["sigma_upper_bound"] = settings["beta"] * sums.formal_stat(ctx, "bootsigma", t.root, dom, [up], extra)[0]
    out["_W"] = dW
    return gs, dom, out


SETTINGS = dict(save_conformalization=False, election_id="e", office="S", geographic_unit_type="county", winsorize=False, beta=1, seed=4191)


def _fit_stats(aggname, keys):
    @unit("C15", f"group_statistics.{aggname}", fns=[f"{GM}._fit", "elexmodel.utils.math_utils.compute_inflate"])
    def stats(h):
        """GaussianModel._fit: one row per group that has calibration units; var_inflate = sum w^2 / (sum w)^2, centres =
        weighted median of the group's lower / upper scores with weights w / sum w, scales = beta x bootstrapped sigma of the
        group's scores at confidence (3+alpha)/4 -- all over exactly the calibration rows of that group"""
        t, inCal, cal = _cal_world(h)
        h.contracts[WM] = theory_ext.weighted_median_contract
        h.contracts[BS] = theory_ext.boot_sigma_contract
        alpha = h.real("alpha")
        gm = h.obj(GM, **SETTINGS)
        kind, res = h.call_method(gm, "_fit", cal, "turnout", list(keys), alpha)
        if kind == "raise":
            return h.fail("no_raise", f"raised {res}")
        from pyvc import sums

        gs, dom, want = _spec_stats(h, t, inCal, keys, alpha, SETTINGS)
        facts = z3.And(*t.root.facts())
        h.ensures("one_segment_over_the_groups", isinstance(res, frames.Frame) and res.axis.root is gs and len(res.axis.doms) == 1)
        h.ensures("a_group_with_calibration_units_has_a_row", z3.Implies(z3.And(facts, dom), res.axis.doms[0]))
        wit = frames.presence_instances(h.ctx, t.root, {k: gs.keyvars[k] for k in keys})
        h.ensures("a_row_is_a_group_with_calibration_units", z3.Implies(res.axis.doms[0], z3.Or(*[z3.And(r >= 0, r < t.root.n, z3.substitute(dom, (t.root.u, r))) for r in wit])))
        dW = want.pop("_W")
        for r in wit:  # a group with a calibration row has positive weight (previous results + 1 >= 1)
            sums.lemma_sum_ge_member(h.ctx, dW, r)
        h.ensures("columns", list(res.cols) == list(keys) + ["var_inflate", "mu_lower_bound", "mu_upper_bound", "sigma_lower_bound", "sigma_upper_bound"], why=str(list(res.cols)))
        for k, w in want.items():
            c = res.col(k)
            h.ensures(f"{k}.is_the_statistic_of_the_groups_own_calibration_rows", z3.Implies(res.axis.doms[0], real(c.t) == w))
            h.ensures(f"{k}.defined", z3.Implies(res.axis.doms[0], z3.Not(c.nan) if c.nan is not None else z3.BoolVal(True)))

    return stats


for _n, _k in list(AGGS.items()) + [("all", [])]:
    _fit_stats(_n, _k)
