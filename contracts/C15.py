"""C15 -- gaussian intervals use a group's own calibration if big enough, else its parent (DESIGN section 4, C15).

Proved on the real code (all obligations discharged by z3, cvc5 in the thorough tier):
* `unit_intervals.formula`        get_unit_prediction_intervals: the unit-level formula and floors (fit under contract).
* `group_statistics.<level>`      GaussianModel._fit (real body, groupby.apply on the generic group's rows): one row per group
                                  with calibration rows; kappa = sum w^2/(sum w)^2, weighted-median centres, bootstrapped scales --
                                  every statistic over exactly the group's OWN calibration rows (keyed statistics; weighted_median proved, A-SIGMA assumed).
* `fit_cascade_step.<aggregate>`  one step of GaussianModel.fit: threshold min(10, #cal); single fit iff no group (with calibration
                                  or outstanding units) is below it; otherwise the parent level gets all the data and the same
                                  level EXACTLY the calibration / reporting / outstanding rows of the large groups.
* `fit_result.<level>`            the table fit returns is the table of the statement (FitSpec), with the two recursive calls under
                                  the SAME contract: partial correctness of the recursion by induction (termination not proved).
* `aggregate_intervals.<aggregate>` GaussianElectionModel.get_aggregate_prediction_intervals with fit under that contract: exactly one
                                  model row per group with outstanding units, taken from its own level if large enough, else its
                                  state, else all units; the bound formula (sums of unit bounds, normal quantile at (3+alpha)/4 of
                                  (W mu, sigma sqrt(W2 + kappa W^2))), floors at the votes counted, whole numbers, finiteness.
  The interval formulas are proved as GENERALISATIONS with products read as uninterpreted (AC) functions (pyvc.euf); a
  counter-model of the generalisation alone is never reported as a violation: the exact VC is asked again, and a replay of
  the real code against an oracle written from the statement decides.
Bounded companion (kept, NOT counted as proved): bounded/c15_gaussian.py compares the real functions end to end (float
arithmetic, real pandas) with that oracle over an enumerated small scope."""
import z3

import contracts.C03 as C03
from contracts.common import Three
from pyvc import frames, theory_ext
from pyvc.api import unit
from pyvc.theory_np import round_half_even_t
from pyvc.values import NamedTuple, Obj, V, real

LEVEL = "proof"
GA = C03.GA
GM = "elexmodel.distributions.GaussianModel.GaussianModel"
EXPLANATION = "proved from the real AST: per-group statistics, the fallback cascade and its result table (induction over the recursion, own contract at the recursive calls), the matching loop and the interval formula of the aggregate function; a bounded end-to-end companion on real pandas/floats is kept"
ASSUMPTIONS = C03.ASSUMPTIONS + [
    "weighted_median: its BODY is verified (units weighted_median.body: the result has at most half the weight below and at most half above, no index out of range; weighted_median.order_insensitive: for weights > 0 the result is characterised by the weight totals below / up to each score, which do not depend on the order of the rows -- so it is a statistic of the multiset of rows) under the library contracts A-ARGSORT (np.argsort is a permutation that sorts), A-CUMSUM (np.cumsum recurrence), A-WHERE (np.where(mask)[0] = positions of the mask, increasing) and floats as reals (the float test `== 0.5` is taken exactly); callers owe: >= 1 row, weights > 0 that sum to 1 (obligations weighted_median.call*.pre.*)",
    "A-SIGMA: math_utils.boot_sigma (scipy.stats.bootstrap, seeded) is a finite positive function of the multiset of its rows' data and (conf, winsorize, seed)",
    "scipy.stats.norm.ppf(q, loc, scale) = loc + scale*z_q; numpy.sqrt / round as axiomatised functions (s>=0, s*s=x; |round(x)-x|<=1/2, whole, identity on whole numbers)",
    "termination of the recursion of GaussianModel.fit IS proved (units fit_cascade_step.*: decreases clause over (number of aggregate keys, 'some group is too small'), bottom = the empty aggregate never falls back); the >= 3 calibration rows precondition of the gaussian functions is C14.gaussian.split (calibration_rows_ge_3); the >= 2 observations precondition of the bootstrapped scale is an obligation at its call sites (boot_sigma.call*.pre.at_least_two_observations) under _fit's precondition 'every group holds >= 2 calibration units', which the cascade units establish at every call site (on paper: counts there are formal sums of ones, in _fit cardinalities -- Finset.card_eq_sum_ones)",
    "bounded companion: group structures up to 2 states x 3 sub-groups, calibration counts in {0,3,9,10,11,25}, two- and one-level aggregates",
]
BOUNDED = [
    {"name": "group_selection_and_alignment", "script": "c15_gaussian.py", "timeout": 2400},
    # differential test of the theory entries the aggregate proof rests on (symbolic result evaluated on concrete elections
    # vs. the real pandas run, statistics pinned to the real _fit): a test of assumptions, not a proof
    {"name": "theory_conformance_gaussian_aggregate", "script": "conformance_gaussian.py", "python": "vt", "tiers": ["quick"], "args": ["--n", "3"], "timeout": 1200},
    {"name": "theory_conformance_gaussian_aggregate", "script": "conformance_gaussian.py", "python": "vt", "tiers": ["thorough"], "args": ["--n", "18"], "timeout": 3000},
    # the positional-array theory behind the weighted_median body proof, against numpy
    {"name": "theory_conformance_weighted_median", "script": "conformance_posarr.py", "python": "vt", "tiers": ["quick"], "args": ["--n", "60"], "timeout": 1200},
    {"name": "theory_conformance_weighted_median", "script": "conformance_posarr.py", "python": "vt", "tiers": ["thorough"], "args": ["--n", "600"], "timeout": 3000},
]


class GMContract:
    """contract of GaussianModel(model_settings).fit(conformalization, rep, nonrep, estimand, aggregate=[], alpha): at the
    unit level (aggregate == []) ONE row of statistics of all calibration units: mu_lower/upper (weighted medians),
    sigma_lower/upper > 0 finite (A-SIGMA), var_inflate >= 0"""

    def __init__(self, interp, model_settings):
        self.interp = interp

    def pyvc_getattr(self, interp, name):
        if name != "fit":
            raise Exception(name)

        def fit(conformalization_data, reporting_units, nonreporting_units, estimand, aggregate=None, alpha=None, **kw):
            if aggregate:
                raise Exception("GMContract is the unit-level contract")
            interp.call_log.append(("gaussian.fit", dict(conf=conformalization_data, alpha=alpha)))
            vals = {}
            for k in ("mu_lower_bound", "mu_upper_bound", "sigma_lower_bound", "sigma_upper_bound", "var_inflate"):
                vals[k] = V(z3.Real(f"gm_{k}"))
            interp.ctx.assume(z3.And(vals["sigma_lower_bound"].t > 0, vals["sigma_upper_bound"].t > 0, vals["var_inflate"].t >= 0))
            return NamedTuple("GaussianFit", list(vals), list(vals.values()))

        return fit


@unit("C15", "unit_intervals.formula", fns=[f"{GA}.get_unit_prediction_intervals", f"{C03.CO}.get_unit_prediction_interval_bounds"])
def unit_formula(h):
    t = Three(h, "turnout", extra=("residuals_turnout", "f1"))
    h.contracts[C03.FEAT] = theory_ext.featurizer_contract
    h.contracts[GM] = lambda interp, ms: GMContract(interp, ms)
    alpha = h.real("alpha")
    h.requires("alpha_open", 0 < alpha, alpha < 1)
    self = C03.model(h, GA, features=["f1"])
    from pyvc.theory_np import SeqLen

    self.attrs["n_train"] = SeqLen(t.rep.axis)
    k0, m = h.call_method(self, "get_minimum_reporting_units", alpha)
    h.requires("gate", t.rep.axis.n >= m.t if isinstance(m, V) else t.rep.axis.n >= z3.RealVal(m))
    kind, res = h.call_method(self, "get_unit_prediction_intervals", t.rep, t.nonrep, alpha, "turnout")
    if kind == "raise":
        return h.fail("C14.totality_above_the_gate", f"raised {res}", budget_factor=3)
    rows = z3.And(*t.nonrep.axis.facts())
    lower, upper = res.lower, res.upper
    rp_floor = lambda ev: {"target": "verif_replays:unit_interval_floor_replay", "args": ["gaussian"], "check": "result['exc'] is None and result['ok']"}  # noqa: E731
    h.ensures("C03.lower_floor", z3.Implies(rows, lower.t >= t.res), replay=rp_floor)
    h.ensures("C03.upper_floor", z3.Implies(rows, upper.t >= t.res), replay=rp_floor)
    h.ensures("C03.whole_numbers", z3.Implies(rows, z3.And(z3.IsInt(real(lower.t)), z3.IsInt(real(upper.t)))))
    fits = [c for c in h.interp.call_log if c[0] == "gaussian.fit"]
    h.ensures("statistics_come_from_the_calibration_rows", len(fits) == 1 and fits[0][1]["conf"] is res.conformalization)
    qs = h.interp.qr_models
    lraw, uraw = qs[0].predict(C03._holdout(h, t)), qs[1].predict(C03._holdout(h, t))
    # the normal quantile at (3+alpha)/4: z_q > 0 for alpha in (0,1)
    zq = [s for s in h.ctx.pc if "z_q" in str(s)]
    h.ensures("one_quantile_level", len({str(s) for s in zq}) >= 1)
    mu_lo, mu_hi, s_lo, s_hi, kap = (z3.Real(f"gm_{k}") for k in ("mu_lower_bound", "mu_upper_bound", "sigma_lower_bound", "sigma_upper_bound", "var_inflate"))
    # recover the z value the code used from the ppf contract (a single fresh symbol per distinct q term)
    zs = sorted({str(d) for s in h.ctx.pc for d in _consts(s) if str(d).startswith("z_q")})
    h.ensures("single_quantile_symbol", len(zs) == 1, why=str(zs))
    if len(zs) != 1:
        return
    z = z3.Real(zs[0])
    from pyvc.theory_np import SQRT

    sroot = SQRT(kap + 1)
    h.ensures("scale_inflation_is_sqrt_of_var_inflate_plus_one", any("pyvc_sqrt" in str(s) for s in h.ctx.pc))
    lc = mu_lo + (sroot * s_lo) * z
    uc = mu_hi + (sroot * s_hi) * z
    want_l = z3.If((lraw.t - lc) * t.last + t.last >= t.res, (lraw.t - lc) * t.last + t.last, t.res)
    want_u = z3.If((uraw.t + uc) * t.last + t.last >= t.res, (uraw.t + uc) * t.last + t.last, t.res)
    h.ensures("formula", z3.Implies(rows, z3.And(lower.t == z3.ToReal(round_half_even_t(want_l)), upper.t == z3.ToReal(round_half_even_t(want_u)))))
    # the quantile level: ppf was asked at (3 + alpha)/4
    h.ensures("quantile_level_is_three_plus_alpha_over_four", any("(3 + alpha)/4" in str(s).replace("ToReal(3)", "3").replace("ToReal(4)", "4") or "3 + alpha" in str(s) for s in zq), why=str(zq)[:300])


def _consts(t):
    out, stack, seen = [], [t], set()
    while stack:
        x = stack.pop()
        if x.get_id() in seen:
            continue
        seen.add(x.get_id())
        if z3.is_const(x) and x.decl().kind() == z3.Z3_OP_UNINTERPRETED:
            out.append(x)
        elif z3.is_app(x):
            stack.extend(x.children())
        elif z3.is_quantifier(x):
            stack.append(x.body())
    return out


# ---- one step of the fit cascade, with the function's own contract at the recursive calls ---------------------
from contracts.common import AGGS  # noqa: E402


def _cascade(aggname, keys):
    @unit("C15", f"fit_cascade_step.{aggname}", fns=[f"{GM}.fit", f"{GM}._get_n_units_per_group", "elexmodel.utils.pandas_utils.semi_join"])
    def step(h):
        """GaussianModel.fit at a two-level aggregate: T = min(10, all calibration units); if every group (also groups
        that only have outstanding units) holds >= T calibration units ONE per-group fit on all calibration data;
        otherwise (a) the same function on the parent level for ALL calibration data and (b) the same function at this
        level on exactly the calibration / reporting / outstanding rows of the groups with >= T calibration units."""
        t = Three(h, "turnout", extra=("lower_bounds", "upper_bounds"))
        u = t.root.u
        inCal = z3.Function("inCal", z3.IntSort(), z3.BoolSort())(u)
        h.syms["inCal"] = z3.Function("inCal", z3.IntSort(), z3.BoolSort())
        h.forall_rows(t.root, z3.Implies(inCal, t.R))
        cal = frames.base_frame(t.root, inCal, {k: c.t for k, c in t.rep.cols.items()}, "geographic_unit_fips")
        h.requires("some_calibration_unit", cal.axis.n >= 1)
        calls = []

        def own_contract(interp, self_, conformalization_data, reporting_units, nonreporting_units, estimand, aggregate=None, alpha=None, reweight=False, top_level=True):
            calls.append(dict(kind="fit", conf=conformalization_data, rep=reporting_units, non=nonreporting_units, aggregate=list(aggregate), top_level=top_level, alpha=alpha))
            return frames.base_frame(frames.keyspace(["<model>"], {"<model>": z3.StringSort()}), z3.BoolVal(True), {}, None)

        def _fit_contract(interp, self_, conformalization_data, estimand, aggregate, alpha):
            calls.append(dict(kind="_fit", conf=conformalization_data, aggregate=list(aggregate), alpha=alpha))
            return frames.base_frame(frames.keyspace(["<model>"], {"<model>": z3.StringSort()}), z3.BoolVal(True), {}, None)

        h.contracts[f"{GM}.fit"] = own_contract
        h.contracts[f"{GM}._fit"] = _fit_contract
        gm = h.obj(GM, save_conformalization=False, election_id="e", office="S", geographic_unit_type="county", winsorize=False, beta=1, seed=4191)
        clo = h.load(f"{GM}.fit")
        alpha = h.real("alpha")
        from pyvc.values import SymRaise

        try:
            h.interp.call_closure(clo, [gm, cal, t.rep, t.nonrep, "turnout"], dict(aggregate=list(keys), alpha=alpha, reweight=False, top_level=True))
        except SymRaise as e:
            return h.fail("no_raise", f"raised {e.exc}")
        from pyvc import sums

        gs = frames.keyspace(list(keys), {k: z3.StringSort() for k in keys})
        kv = [gs.keyvars[k] for k in keys]
        own = [t.keys[k] for k in keys]  # the generic unit's own group
        ncal = cal.axis.n
        T = z3.If(ncal < 10, ncal, z3.IntVal(10))
        facts = z3.And(*t.root.facts())
        # spec side: number of calibration units of the generic group g (a function of g)
        n_g, d_ng = sums.formal_sum_dom(h.ctx, t.root, z3.And(inCal, *[t.keys[k] == gs.keyvars[k] for k in keys]), z3.IntVal(1))
        at = lambda term, point: z3.substitute(term, *list(zip(kv, point)))  # noqa: E731
        kinds = [c["kind"] for c in calls]
        mins = [e for e in h.ctx.__dict__.get("_extrema", []) if hasattr(e["root"], "keyvars")]
        rp = lambda ev: {"target": "verif_replays:gaussian_cascade_replay", "args": [keys[-1]], "check": "result['exc'] is None and result['ok']"}  # noqa: E731
        h.ensures("one_minimum_over_the_group_counts", len(mins) == 1)
        if len(mins) != 1:
            return
        mn = mins[0]
        in_group = z3.And(z3.Or(inCal, t.N), *[a == b for a, b in zip(own, kv)])  # the generic unit is a calibration/outstanding unit of g
        if kinds == ["_fit"]:
            h.ensures("single_fit.uses_all_calibration_data_at_this_level", calls[0]["conf"] is cal and calls[0]["aggregate"] == list(keys))
            h.ensures("single_fit.only_if_every_group_is_large_enough", z3.Implies(z3.And(facts, in_group), n_g >= T), replay=rp)
            # (precondition of _fit's bootstrapped scale: with >= 3 calibration units -- C14.gaussian.split -- every group of a
            # single fit holds >= 3 of them)
            h.ensures("single_fit.every_group_holds_at_least_three_calibration_units_if_there_are_three", z3.Implies(z3.And(facts, in_group, ncal >= 3), n_g >= 3), replay=rp)
        else:
            h.ensures("fallback.two_recursive_calls", kinds == ["fit", "fit"], why=str(kinds))
            if kinds != ["fit", "fit"]:
                return
            small, large = calls
            h.ensures("fallback.parent_level_call_gets_all_the_data", small["conf"] is cal and small["aggregate"] == list(keys[:-1]) and small["rep"] is t.rep and small["non"] is t.nonrep and small["top_level"] is False)
            h.ensures("fallback.this_level_call_keeps_the_level", large["aggregate"] == list(keys) and large["top_level"] is False)
            # ghost: the definitions of the group-presence predicates and of the minimum at the unit's own group,
            # and a calibration row of that group when its count is not 0
            ws = sums.sum_nonzero_witness(h.ctx, d_ng, list(zip(kv, own)))
            frames.presence_instances(h.ctx, t.root, dict(zip(keys, own)), rows=[ws])
            grp_ok = at(n_g, own) >= T
            for nm, fr, dom in (("calibration", large["conf"], inCal), ("outstanding", large["non"], t.N), ("reporting", large["rep"], t.R)):
                h.ensures(f"fallback.large_group_{nm}_rows", z3.Implies(facts, fr.axis.present() == z3.And(dom, grp_ok)), replay=rp)
            # it happens only if some group with calibration or outstanding units is too small: the group attaining the minimum
            wit = mn["witness"]
            ws2 = sums.sum_nonzero_witness(h.ctx, d_ng, list(zip(kv, wit)))
            pw = frames.presence_instances(h.ctx, t.root, dict(zip(keys, wit)), rows=[ws2])
            some_row = z3.Or(*[z3.And(r >= 0, r < t.root.n, z3.substitute(in_group, (t.root.u, r), *list(zip(kv, wit)))) for r in pw])
            h.ensures("fallback.only_if_some_group_is_too_small", z3.And(some_row, at(n_g, wit) < T), replay=rp)
            # ---- termination of the recursion (a decreases clause; the measure is the pair (number of aggregate keys, "some
            # group is too small") in lexicographic order).  (1) the parent-level call has strictly fewer keys; (2) in the DATA
            # of the same-level call no group is too small -- by `fallback.only_if_some_group_is_too_small` (this unit, for
            # arbitrary data) such a call makes no further call; with no calibration row at all it returns at once.
            h.ensures("termination.parent_level_call_has_strictly_fewer_keys", len(small["aggregate"]) < len(keys) and len(keys) >= 1)
            confL, nonL = large["conf"], large["non"]
            ok_frames = isinstance(confL, frames.Frame) and isinstance(nonL, frames.Frame) and len(confL.axis.doms) == 1 and len(nonL.axis.doms) == 1
            h.ensures("termination.this_level_call_gets_frames", ok_frames)
            if ok_frames:
                ncalL = confL.axis.n
                TL = z3.If(ncalL < 10, ncalL, z3.IntVal(10))
                frames.lemma_count_mono(h.ctx, t.root, confL.axis.doms[0], inCal, name="termination.lemma.count_mono")
                nL_g, d_nL = sums.formal_sum_dom(h.ctx, t.root, z3.And(confL.axis.doms[0], *[t.keys[k] == gs.keyvars[k] for k in keys]), z3.IntVal(1))
                sums.lemma_sum_congr(h.ctx, d_nL, d_ng, name="termination.lemma.sum_congr", guard=n_g >= T)
                in_g_L = z3.And(z3.Or(confL.axis.doms[0], nonL.axis.doms[0]), *[a == b for a, b in zip(own, kv)])
                h.ensures("termination.this_level_call_has_no_group_that_is_too_small", z3.Implies(z3.And(facts, in_g_L), nL_g >= TL), replay=rp)
                # (and its groups keep ALL their calibration units: >= the caller's threshold, so >= 3 if the caller had >= 3)
                h.ensures("fallback.this_level_call_groups_keep_their_calibration_units", z3.Implies(z3.And(facts, in_g_L), z3.And(nL_g >= T, z3.Implies(ncal >= 3, nL_g >= 3))), replay=rp)
        h.ensures("no_s3_write_without_the_option", not [c for c in h.interp.call_log if "s3" in str(c[0]).lower()])

    return step


for _n, _k in AGGS.items():
    if _n != "state":
        _cascade(_n, _k)
# the bottom of the recursion (termination): a one-key aggregate falls back to the EMPTY aggregate ...
_cascade("state", AGGS["state"])


# ... and the empty aggregate (one group: everything) never falls back
@unit("C15", "fit_cascade_step.no_keys", fns=[f"{GM}.fit", f"{GM}._get_n_units_per_group"])
def cascade_bottom(h):
    """GaussianModel.fit with aggregate=[] (the unit-level model, and the last fallback): all calibration units are ONE group
    of size n >= min(10, n), so it is always the single fit -- the recursion ends here"""
    t = Three(h, "turnout", extra=("lower_bounds", "upper_bounds"))
    u = t.root.u
    inCal = z3.Function("inCal", z3.IntSort(), z3.BoolSort())(u)
    h.syms["inCal"] = z3.Function("inCal", z3.IntSort(), z3.BoolSort())
    h.forall_rows(t.root, z3.Implies(inCal, t.R))
    cal = frames.base_frame(t.root, inCal, {k: c.t for k, c in t.rep.cols.items()}, "geographic_unit_fips")
    h.requires("some_calibration_unit", cal.axis.n >= 1)
    calls = []
    rp = lambda ev: {"target": "verif_replays:gaussian_recursion_bottom_replay", "args": [], "check": "result['exc'] is None and result['ok']"}  # noqa: E731
    h.default_replay = rp

    def own_contract(interp, self_, *a, **k):
        calls.append(dict(kind="fit", aggregate=list(k.get("aggregate") or [])))
        # reached at all = a fallback below the empty aggregate (its `aggregate[:-1]` is the empty aggregate again: no end)
        interp.ctx.oblige(f"{h.udesc['prop']}.{h.udesc['name']}.termination.the_empty_aggregate_never_falls_back", z3.BoolVal(False), kind="ensures", why="GaussianModel.fit(aggregate=[]) called itself", replay=rp)
        return frames.base_frame(frames.keyspace(["<model>"], {"<model>": z3.StringSort()}), z3.BoolVal(True), {}, None)

    def _fit_contract(interp, self_, conformalization_data, estimand, aggregate, alpha):
        calls.append(dict(kind="_fit", conf=conformalization_data, aggregate=list(aggregate), alpha=alpha))
        return frames.base_frame(frames.keyspace(["<model>"], {"<model>": z3.StringSort()}), z3.BoolVal(True), {}, None)

    h.contracts[f"{GM}.fit"] = own_contract
    h.contracts[f"{GM}._fit"] = _fit_contract
    gm = h.obj(GM, save_conformalization=False, election_id="e", office="S", geographic_unit_type="county", winsorize=False, beta=1, seed=4191)
    clo = h.load(f"{GM}.fit")
    alpha = h.real("alpha")
    from pyvc.values import SymRaise

    try:
        h.interp.call_closure(clo, [gm, cal, t.rep, t.nonrep, "turnout"], dict(aggregate=[], alpha=alpha, reweight=False, top_level=True))
    except SymRaise as e:
        return h.fail("no_raise", f"raised {e.exc}", replay=rp)
    h.ensures("termination.the_empty_aggregate_is_always_the_single_fit", [c["kind"] for c in calls] == ["_fit"], why=str([c["kind"] for c in calls]), replay=rp)
    if calls and calls[0]["kind"] == "_fit":
        h.ensures("single_fit.uses_all_calibration_data", calls[0]["conf"] is cal and calls[0]["aggregate"] == [])
    h.ensures("no_s3_write_without_the_option", not [c for c in h.interp.call_log if "s3" in str(c[0]).lower()])


# ---- the per-group statistics of GaussianModel._fit (real body; weighted median / bootstrapped scale under contract) --
WM = "elexmodel.utils.math_utils.weighted_median"
BS = "elexmodel.utils.math_utils.boot_sigma"


def _cal_world(h):
    t = Three(h, "turnout", extra=("lower_bounds", "upper_bounds"))
    u = t.root.u
    f = z3.Function("inCal", z3.IntSort(), z3.BoolSort())
    h.syms["inCal"] = f
    inCal = f(u)
    h.forall_rows(t.root, z3.Implies(inCal, t.R))
    cal = frames.base_frame(t.root, inCal, {k: c.t for k, c in t.rep.cols.items()}, "geographic_unit_fips")
    return t, inCal, cal


def _spec_stats(h, t, inCal, keys, alpha, settings):
    """the statistics of the statement for the generic group of `keys` (all calibration units when keys == [])"""
    from pyvc import sums

    gs = frames.keyspace(list(keys), {k: z3.StringSort() for k in keys})
    dom = z3.And(inCal, *[t.keys[k] == gs.keyvars[k] for k in keys])
    ctx = h.ctx
    w = z3.ToReal(t.last)
    lo, up = h.syms["lower_bounds"](t.root.u), h.syms["upper_bounds"](t.root.u)
    W, dW = sums.formal_sum_dom(ctx, t.root, dom, t.last)
    W2, _ = sums.formal_sum_dom(ctx, t.root, dom, t.last * t.last)
    conf = (3 + alpha.t) / 4
    extra = [conf, z3.BoolVal(settings["winsorize"]), z3.IntVal(settings["seed"]), z3.IntVal(10000)]
    out = {}
    out["var_inflate"] = z3.ToReal(W2) / (z3.ToReal(W) * z3.ToReal(W))
    out["mu_lower_bound"] = sums.formal_stat(ctx, "wmedian", t.root, dom, [lo, w / z3.ToReal(W)])[0]
    out["mu_upper_bound"] = sums.formal_stat(ctx, "wmedian", t.root, dom, [up, w / z3.ToReal(W)])[0]
    out["sigma_lower_bound"] = settings["beta"] * sums.formal_stat(ctx, "bootsigma", t.root, dom, [lo], extra)[0]
    out["sigma_upper_bound"] = settings["beta"] * sums.formal_stat(ctx, "bootsigma", t.root, dom, [up], extra)[0]
    out["_W"] = dW
    return gs, dom, out


# ---- the BODY of math_utils.weighted_median (what "weighted-median centre" means) ---------------------------------------
def _wm_run(h, strict):
    """run the real body on arrays of any length n >= 1 whose weights are >= 0 (> 0 if strict) and sum to 1"""
    from pyvc import posarr, sums

    n = h.int("n")
    h.requires("at_least_one_row", n >= 1)
    world = posarr.PosWorld(h.interp, "wm", n.t, f"{h.udesc['prop']}.{h.udesc['name']}")
    x, w = world.array("wm_x"), world.array("wm_w")
    h.syms["wm_x"], h.syms["wm_w"] = z3.Function("wm_x", z3.IntSort(), z3.RealSort()), z3.Function("wm_w", z3.IntSort(), z3.RealSort())
    u = world.rows.u
    i = z3.Int("i!wm")
    h.ctx.assume(z3.ForAll([i], z3.Implies(z3.And(i >= 0, i < n.t), (w.fn(i) > 0) if strict else (w.fn(i) >= 0))))  # every row
    h.ctx.assume((w.fn(u) > 0) if strict else (w.fn(u) >= 0))
    h.n_requires += 1
    total_rows, d_total_rows = sums.formal_sum_dom(h.ctx, world.rows, z3.BoolVal(True), w.fn(u))
    h.requires("weights_sum_to_one", total_rows == 1)
    posarr.install(h.interp, world)
    world.instantiate(z3.IntVal(0))
    world.instantiate(n.t - 1)

    def rp(ev):
        return {"target": "verif_replays:weighted_median_replay", "args": [], "check": "result['exc'] is None and result['ok']"}

    h.default_replay = rp
    kind, res = h.call(WM, x, w)
    if kind == "raise":
        h.fail("no_exception", f"raised {res}", replay=rp)
        return None
    h.ensures("returns_a_number", isinstance(res, V) and res.is_scalar and not z3.is_bool(res.t), replay=rp)
    m = real(res.t)
    # the sorted views and the running total the body built (ghost: found among the values the interpreter created)
    views = [v_ for v_ in h.interp.__dict__.get("_posarr_views", [])]
    xs = next((v_ for v_ in views if v_.src is x), None)
    ws = next((v_ for v_ in views if v_.src is w), None)
    cum = next((v_ for v_ in views if getattr(v_, "cum_of", None) is ws and ws is not None), None)
    h.ensures("ghost.sorted_scores_sorted_weights_and_their_running_total_exist", xs is not None and ws is not None and cum is not None)
    if xs is None or ws is None or cum is None:
        return None
    return world, x, w, xs, ws, cum, m, d_total_rows, rp


@unit("C15", "weighted_median.body", fns=[WM])
def weighted_median_body(h):
    """the real body of math_utils.weighted_median on arrays of any length n >= 1 with weights >= 0 that sum to 1 (what its
    caller GaussianModel._fit passes: w_i / sum w): on each of its three return paths the result m is a WEIGHTED MEDIAN of the
    rows it was given -- the weight of the rows below m is at most 1/2 and the weight of the rows above m is at most 1/2 --
    and no index is out of range"""
    from pyvc import posarr, sums

    r = _wm_run(h, strict=False)
    if r is None:
        return
    world, x, w, xs, ws, cum, m, d_total_rows, rp = r
    lt = lambda s_: s_ < m  # noqa: E731
    le = lambda s_: s_ <= m  # noqa: E731
    gt = lambda s_: s_ > m  # noqa: E731
    # over the rows as the caller passed them
    below, d_below = posarr.score_sum(world, x, w, lt)
    upto, d_upto = posarr.score_sum(world, x, w, le)
    above, d_above = posarr.score_sum(world, x, w, gt)
    sums.lemma_sum_split(h.ctx, d_total_rows, d_upto, d_above, name=f"{world.prefix}.lemma.split_at_m")
    # the same totals over the sorted view (perm_filter_sum), and against the running total (prefix_in / prefix_out)
    # (the running total ends at the total, and a permutation keeps the total: applied by the theory entries themselves)
    posarr.lemma_perm_filter_sum(world, xs, ws, lt, "lemma.perm.below")
    posarr.lemma_perm_filter_sum(world, xs, ws, le, "lemma.perm.upto")
    posarr.lemma_prefix(world, xs, ws, cum, lt, "lemma.prefix.below")
    posarr.lemma_prefix(world, xs, ws, cum, le, "lemma.prefix.upto")
    half = z3.RealVal("1/2")
    h.ensures("weight_of_the_rows_below_the_result_is_at_most_half", below <= half, replay=rp)
    h.ensures("weight_of_the_rows_above_the_result_is_at_most_half", above <= half, replay=rp)


@unit("C15", "weighted_median.order_insensitive", fns=[WM])
def weighted_median_order(h):
    """with strictly positive weights (the caller's: (previous result + 1) / total) the result is a function of the MULTISET of
    the rows -- the content of assumption A-WM.  Proved in two steps over Wlt(v) / Wle(v) := weight of the rows with score
    < v / <= v, which do not depend on the order of the rows (perm_filter_sum):
      (characterisation) on every return path the result m is either a score that occurs with Wlt(m) < 1/2 < Wle(m), or the
          midpoint of two scores a, b that occur with Wle(a) = 1/2 = Wlt(b);
      (uniqueness) any two numbers characterised this way are equal."""
    from pyvc import posarr, sums

    r = _wm_run(h, strict=True)
    if r is None:
        return
    world, x, w, xs, ws, cum, m, d_total_rows, rp = r
    ctx = h.ctx
    half = z3.RealVal("1/2")
    pts = [p for p in world.points if not (z3.eq(p, world.pos.u) or z3.eq(p, world.pos.u2))]
    Wlt, Wle, dlt, dle = {}, {}, {}, {}

    def totals(v, tag):
        """Wlt(v), Wle(v) over the caller's rows, tied to the running total of the sorted view"""
        key = v.get_id()
        if key in Wlt:
            return
        h.interp.__dict__.setdefault("_keep", []).append(v)
        lt = lambda s_, v=v: s_ < v  # noqa: E731
        le = lambda s_, v=v: s_ <= v  # noqa: E731
        Wlt[key], dlt[key] = posarr.score_sum(world, x, w, lt)
        Wle[key], dle[key] = posarr.score_sum(world, x, w, le)
        posarr.lemma_perm_filter_sum(world, xs, ws, lt, f"lemma.perm.lt.{tag}")
        posarr.lemma_perm_filter_sum(world, xs, ws, le, f"lemma.perm.le.{tag}")
        posarr.lemma_prefix(world, xs, ws, cum, lt, f"lemma.prefix.lt.{tag}")
        posarr.lemma_prefix(world, xs, ws, cum, le, f"lemma.prefix.le.{tag}")
        sums.lemma_sum_nonneg(ctx, dlt[key], name=f"{world.prefix}.lemma.nonneg.lt.{tag}")

    totals(m, "m")
    for j, p in enumerate(pts):
        totals(z3.simplify(real(xs.fn(p))), f"p{j}")
    occ = lambda p: world.inr(p)  # noqa: E731  (xs[p] = x[pi[p]] is the score of a row)
    P1 = [z3.And(occ(p), m == real(xs.fn(p)), Wlt[m.get_id()] < half, half < Wle[m.get_id()]) for p in pts]
    P2 = []
    for p in pts:
        for q in pts:
            a, b = z3.simplify(real(xs.fn(p))), z3.simplify(real(xs.fn(q)))
            P2.append(z3.And(occ(p), occ(q), m == (a + b) / 2, Wle[a.get_id()] == half, Wlt[b.get_id()] == half))
    rpo = lambda ev: {"target": "verif_replays:weighted_median_order_replay", "args": [], "check": "result['exc'] is None and result['ok']"}  # noqa: E731
    h.ensures("characterisation.a_score_with_less_than_half_below_and_more_than_half_up_to_it_or_the_midpoint_of_the_two_scores_at_one_half", z3.Or(*(P1 + P2)), replay=rpo, replay_decides="another tie-breaking convention would also make the result a function of the multiset of rows")

    # uniqueness: a standalone statement about ANY weights > 0 -- Wlt / Wle as functions of the threshold, with the two facts
    # that hold for scores that occur:  v < v' => Wle(v) <= Wlt(v')  (sum_mono_dom)  and  Wlt(v) < Wle(v)  (sum_split +
    # sum_ge_member with a positive weight); v <= v' => Wle(v) <= Wle(v')
    F_lt = z3.Function("Wlt_of", z3.RealSort(), z3.RealSort())
    F_le = z3.Function("Wle_of", z3.RealSort(), z3.RealSort())
    names = ["r1", "a1", "b1", "r2", "a2", "b2"]
    vals = {k: z3.Real(f"score_{k}") for k in names}
    facts = []
    for k in names:
        facts.append(F_lt(vals[k]) < F_le(vals[k]))
        for k2 in names:
            facts.append(z3.Implies(vals[k] < vals[k2], F_le(vals[k]) <= F_lt(vals[k2])))
            facts.append(z3.Implies(vals[k] <= vals[k2], F_le(vals[k]) <= F_le(vals[k2])))
            facts.append(z3.Implies(vals[k] <= vals[k2], F_lt(vals[k]) <= F_lt(vals[k2])))
    m1, m2 = z3.Real("m_first"), z3.Real("m_second")

    def char(mm, r_, a_, b_):
        return z3.Or(z3.And(mm == r_, F_lt(mm) < half, half < F_le(mm)), z3.And(mm == (a_ + b_) / 2, F_le(a_) == half, F_lt(b_) == half))

    h.lemma("uniqueness.two_numbers_with_the_characterisation_are_equal", z3.Implies(z3.And(char(m1, vals["r1"], vals["a1"], vals["b1"]), char(m2, vals["r2"], vals["a2"], vals["b2"])), m1 == m2), assumptions=facts)
    # the facts about scores that occur, proved for two ARBITRARY rows i1, i2 of the caller's arrays from the sum lemmas
    i1, i2 = z3.Int("row_i1"), z3.Int("row_i2")
    ctx.assume(z3.And(world.inr(i1), world.inr(i2)))
    v1, v2 = real(x.fn(i1)), real(x.fn(i2))
    le1, d_le1 = posarr.score_sum(world, x, w, lambda s_: s_ <= v1)
    lt1, d_lt1 = posarr.score_sum(world, x, w, lambda s_: s_ < v1)
    le2, d_le2 = posarr.score_sum(world, x, w, lambda s_: s_ <= v2)
    lt2, d_lt2 = posarr.score_sum(world, x, w, lambda s_: s_ < v2)
    eq2, d_eq2 = posarr.score_sum(world, x, w, lambda s_: s_ == v2)
    pre = f"{world.prefix}.lemma"
    sums.lemma_sum_split(ctx, d_le2, d_lt2, d_eq2, name=f"{pre}.split_le_into_lt_and_eq")
    sums.lemma_sum_ge_member(ctx, d_eq2, i2, name=f"{pre}.the_class_of_a_score_holds_its_row")
    h.ensures("fact.a_score_that_occurs_carries_positive_weight", lt2 < le2)
    sums.lemma_sum_mono_dom(ctx, d_le1, d_lt2, name=f"{pre}.mono.le_lt", guard=v1 < v2)
    h.ensures("fact.monotone.le_of_a_smaller_score_is_at_most_lt_of_a_larger_one", z3.Implies(v1 < v2, le1 <= lt2))
    sums.lemma_sum_mono_dom(ctx, d_le1, d_le2, name=f"{pre}.mono.le_le", guard=v1 <= v2)
    h.ensures("fact.monotone.le", z3.Implies(v1 <= v2, le1 <= le2))
    sums.lemma_sum_mono_dom(ctx, d_lt1, d_lt2, name=f"{pre}.mono.lt_lt", guard=v1 <= v2)
    h.ensures("fact.monotone.lt", z3.Implies(v1 <= v2, lt1 <= lt2))


SETTINGS = dict(save_conformalization=False, election_id="e", office="S", geographic_unit_type="county", winsorize=False, beta=1, seed=4191)


def _fit_stats(aggname, keys):
    @unit("C15", f"group_statistics.{aggname}", fns=[f"{GM}._fit", "elexmodel.utils.math_utils.compute_inflate"])
    def stats(h):
        """GaussianModel._fit: one row per group that has calibration units; var_inflate = sum w^2 / (sum w)^2, centres =
        weighted median of the group's lower / upper scores with weights w / sum w, scales = beta x bootstrapped sigma of the
        group's scores at confidence (3+alpha)/4 -- all over exactly the calibration rows of that group"""
        t, inCal, cal = _cal_world(h)
        h.contracts[WM] = theory_ext.weighted_median_contract
        h.contracts[BS] = theory_ext.boot_sigma_contract
        alpha = h.real("alpha")
        gm = h.obj(GM, **SETTINGS)
        # precondition of _fit, established by every call site (units fit_cascade_step.*: _fit is reached only when every group
        # holds >= min(10, #calibration) calibration units, resp. -- in the same-level call of a fallback -- the units it held
        # before; C14.gaussian.split: above the gate there are >= 3 calibration units): every group has >= 2 rows, which is what
        # the bootstrapped scale needs (obligation boot_sigma.call*.pre.at_least_two_observations)
        h.requires("every_group_holds_at_least_two_calibration_units")
        h.interp.group_rows_at_least = 2
        if not keys:
            h.requires("at_least_two_calibration_units", cal.axis.n >= 2)
        kind, res = h.call_method(gm, "_fit", cal, "turnout", list(keys), alpha)
        if kind == "raise":
            return h.fail("no_raise", f"raised {res}")
        from pyvc import sums

        gs, dom, want = _spec_stats(h, t, inCal, keys, alpha, SETTINGS)
        facts = z3.And(*t.root.facts())
        h.ensures("one_segment_over_the_groups", isinstance(res, frames.Frame) and res.axis.root is gs and len(res.axis.doms) == 1)
        h.ensures("a_group_with_calibration_units_has_a_row", z3.Implies(z3.And(facts, dom), res.axis.doms[0]))
        wit = frames.presence_instances(h.ctx, t.root, {k: gs.keyvars[k] for k in keys})
        h.ensures("a_row_is_a_group_with_calibration_units", z3.Implies(res.axis.doms[0], z3.Or(*[z3.And(r >= 0, r < t.root.n, z3.substitute(dom, (t.root.u, r))) for r in wit])))
        dW = want.pop("_W")
        for r in wit:  # a group with a calibration row has positive weight (previous results + 1 >= 1)
            sums.lemma_sum_ge_member(h.ctx, dW, r)
        h.ensures("columns", list(res.cols) == list(keys) + ["var_inflate", "mu_lower_bound", "mu_upper_bound", "sigma_lower_bound", "sigma_upper_bound"], why=str(list(res.cols)))
        for k, w in want.items():
            c = res.col(k)
            h.ensures(f"{k}.is_the_statistic_of_the_groups_own_calibration_rows", z3.Implies(res.axis.doms[0], real(c.t) == w))
            h.ensures(f"{k}.defined", z3.Implies(res.axis.doms[0], z3.Not(c.nan) if c.nan is not None else z3.BoolVal(True)))

    return stats


for _n, _k in list(AGGS.items()) + [("all", [])]:
    _fit_stats(_n, _k)


# ---- the postcondition of the WHOLE recursion of GaussianModel.fit as a multi-level table ------------------------
from pyvc import levels  # noqa: E402
from pyvc.values import fresh_name  # noqa: E402

STAT_COLS = ["var_inflate", "mu_lower_bound", "mu_upper_bound", "sigma_lower_bound", "sigma_upper_bound"]


def exists_row(ctx, root, body_u, name):
    """b <=> some row of the universe satisfies body: Skolem witness + ghost instantiation (no quantifier)"""
    reg = ctx.__dict__.setdefault("_exists_row", {})
    from pyvc.values import tid

    key = (root.name, tid(z3.simplify(body_u)))
    if key in reg:  # the same statement: the same symbol
        return reg[key]
    b = z3.Bool(fresh_name(name))
    w = z3.Int(fresh_name("w_" + name))
    at = lambda i: z3.And(i >= 0, i < root.n, z3.substitute(body_u, (root.u, i)))  # noqa: E731
    ctx.assume(z3.Implies(b, at(w)))

    def inst(i):
        ctx.assume(z3.Implies(at(i), b))

    inst(root.u)
    inst(root.u2)
    reg[key] = (b, w, inst)
    ctx.__dict__.setdefault("_exists_defs", []).append((b, body_u, root))
    return reg[key]


class FitSpec:
    """statement-side description of the table GaussianModel.fit(cal, rep, nonrep, estimand, aggregate=keys, alpha) returns:
    level j (keys[:j]) holds one row per group g with  #cal(g) >= T = min(10, #cal)  PROVIDED every finer level j' > j
    has some group (with calibration or outstanding units) below T  [otherwise the finer level's per-group fit served
    everybody and no coarser model was built]; the row carries the statistics of g's own calibration rows."""

    def __init__(self, h, t, calD, nonD, keys, alpha, settings=SETTINGS):
        from pyvc import sums

        self.h, self.t, self.keys = h, t, list(keys)
        ctx = h.ctx
        root = t.root
        L = len(keys)
        self.ncal = frames.count_of(root, calD)
        self.T = z3.If(self.ncal < 10, self.ncal, z3.IntVal(10))
        self.n, self.dn, self.gs, self.own, self.dom = {}, {}, {}, {}, {}
        for j in range(L + 1):
            kj = list(keys[:j])
            gs = frames.keyspace(kj, {k: z3.StringSort() for k in kj})
            self.gs[j] = gs
            self.dom[j] = z3.And(calD, *[t.keys[k] == gs.keyvars[k] for k in kj])
            if j == 0:
                self.n[j] = self.ncal
            else:
                self.n[j], self.dn[j] = sums.formal_sum_dom(ctx, root, self.dom[j], z3.IntVal(1))
            self.own[j] = [(gs.keyvars[k], t.keys[k]) for k in kj]
        self.F, self.Fw, self.Finst = {}, {}, {}
        for j in range(1, L + 1):
            body = z3.And(z3.Or(calD, nonD), z3.substitute(self.n[j], *self.own[j]) < self.T)
            self.F[j], self.Fw[j], self.Finst[j] = exists_row(ctx, root, body, f"fallback_level{j}")
        self.D, self.stats = {}, {}
        lo, up = h.syms["lower_bounds"](root.u), h.syms["upper_bounds"](root.u)
        conf = (3 + (alpha.t if isinstance(alpha, V) else z3.RealVal(alpha))) / 4
        extra = [conf, z3.BoolVal(settings["winsorize"]), z3.IntVal(settings["seed"]), z3.IntVal(10000)]
        w = z3.ToReal(t.last)
        for j in range(L + 1):
            self.D[j] = z3.And(self.ncal >= 1, self.n[j] >= self.T, *[self.F[k] for k in range(j + 1, L + 1)])
            d = self.dom[j]
            W, dW = sums.formal_sum_dom(ctx, root, d, t.last)
            W2, _ = sums.formal_sum_dom(ctx, root, d, t.last * t.last)
            W2, dW2_ = sums.formal_sum_dom(ctx, root, d, t.last * t.last)
            st = {
                "mu_lower_bound": sums.formal_stat(ctx, "wmedian", root, d, [lo, w / z3.ToReal(W)]),
                "mu_upper_bound": sums.formal_stat(ctx, "wmedian", root, d, [up, w / z3.ToReal(W)]),
                "sigma_lower_bound": sums.formal_stat(ctx, "bootsigma", root, d, [lo], extra),
                "sigma_upper_bound": sums.formal_stat(ctx, "bootsigma", root, d, [up], extra),
            }
            self.stats[j] = {
                "var_inflate": z3.ToReal(W2) / (z3.ToReal(W) * z3.ToReal(W)),
                "mu_lower_bound": st["mu_lower_bound"][0],
                "mu_upper_bound": st["mu_upper_bound"][0],
                "sigma_lower_bound": settings["beta"] * st["sigma_lower_bound"][0],
                "sigma_upper_bound": settings["beta"] * st["sigma_upper_bound"][0],
                "_W": (W, dW),
                "_defs": dict(W=dW, W2=dW2_, **{k: v[1] for k, v in st.items()}),
            }
            # a level-j group with calibration rows has positive weight sums (previous results + 1 >= 1): lemma instances
            r = frames.count_witness(ctx, root, calD) if j == 0 else sums.sum_nonzero_witness(ctx, self.dn[j])
            dW2 = sums.formal_sum_dom(ctx, root, d, t.last * t.last)[1]
            sums.lemma_sum_ge_member(ctx, dW, r, name=f"lemma.level{j}.weight_sum_positive")
            sums.lemma_sum_ge_member(ctx, dW2, r, name=f"lemma.level{j}.squared_weight_sum_positive")

    def table(self):
        parts = []
        for j in sorted(self.D):
            gs = self.gs[j]
            ax = frames.RowAxis(gs, [self.D[j]], ("sorted", tuple(self.keys[:j])))
            f = frames.Frame(ax, {}, ("range", ax.name), None)
            for k in self.keys[:j]:
                f.cols[k] = V(gs.keyvars[k], (ax,), f.index)
            for c in STAT_COLS:
                f.cols[c] = V(self.stats[j][c], (ax,), f.index)
            parts.append(f)
        return levels.PartsFrame(parts)


class GMTableContract:
    """GaussianModel(model_settings) whose .fit(...) returns the multi-level table of FitSpec (proved for the real
    recursion by the units fit_cascade_step.*, group_statistics.* and fit_result.*)"""

    def __init__(self, h, t):
        self.h, self.t = h, t
        self.calls = []

    def pyvc_getattr(self, interp, name):
        if name != "fit":
            raise Exception(name)

        def fit(conformalization_data, reporting_units, nonreporting_units, estimand, aggregate=None, alpha=None, reweight=False, top_level=True):
            if not isinstance(conformalization_data, frames.Frame):
                # call-site precondition of the contract: the calibration rows are handed over AS A FRAME OF THIS CALL (the
                # `conformalization` field of the unit intervals of this level) -- e.g. model state left behind by the unit
                # step of another level is not (C13: depends on which other levels were requested, and in which order)
                from pyvc.values import Undecided

                full = f"{self.h.udesc['prop']}.{self.h.udesc['name']}.GaussianModel_fit.pre.calibration_rows_are_those_of_the_unit_intervals_of_this_call"
                interp.ctx.oblige(full, z3.BoolVal(False), kind="call-pre", why=f"GaussianModel.fit was handed {type(conformalization_data).__name__} (from model state?) instead of unit_prediction_intervals.conformalization", replay=lambda ev: {"target": "verif_replays:level_independence_replay", "args": ["gaussian"], "check": "result['exc'] is None and result['ok']"})
                raise Undecided("GaussianModel.fit called with something that is not the calibration frame of this call")
            spec = FitSpec(self.h, self.t, conformalization_data.axis.doms[0], nonreporting_units.axis.doms[0], list(aggregate), alpha)
            self.calls.append(dict(spec=spec, conf=conformalization_data, rep=reporting_units, non=nonreporting_units, aggregate=list(aggregate), alpha=alpha, top_level=top_level, reweight=reweight))
            # ghost: the definitions of "some group is below the threshold" at the rows that witness the generic group
            L = len(aggregate)
            wits = frames.presence_instances(interp.ctx, self.t.root, {k: spec.gs[L].keyvars[k] for k in aggregate})
            for j in spec.Finst:
                for r in wits:
                    spec.Finst[j](r)
            return spec.table()

        return fit


def gaussian_aggregate_run(h, keys, opaque_round=True):
    """world + the REAL get_aggregate_prediction_intervals call of the gaussian estimator (GaussianModel.fit under the
    contract FitSpec); shared by the proof units and by the conformance driver bounded/conformance_gaussian.py"""
    from pyvc import theory_np
    from pyvc.interp import SymKey

    theory_np.OPAQUE_ROUND[0] = bool(opaque_round)  # rounding by congruence + its interval / whole-number consequences
    t = Three(h, "turnout", extra=("lower_bounds", "upper_bounds", "nr_lower", "nr_upper"))
    f = z3.Function("inCal", z3.IntSort(), z3.BoolSort())
    h.syms["inCal"] = f
    inCal = f(t.root.u)
    h.forall_rows(t.root, z3.Implies(inCal, t.R))
    cal = frames.base_frame(t.root, inCal, {k: c.t for k, c in t.rep.cols.items()}, "geographic_unit_fips")
    alpha = h.real("alpha")
    h.requires("alpha_open", 0 < alpha, alpha < 1)
    # C14.gaussian.split (proved there): above the reporting-unit gate the split leaves >= 1 calibration row
    h.requires("some_calibration_row", cal.axis.n >= 1)
    frames.count_witness(h.ctx, t.root, inCal)
    gmc = GMTableContract(h, t)
    h.contracts[GM] = lambda interp, ms: gmc
    self = C03.model(h, GA)
    nr_lo = V(h.syms["nr_lower"](t.root.u), (t.nonrep.axis,), t.nonrep.index)
    nr_up = V(h.syms["nr_upper"](t.root.u), (t.nonrep.axis,), t.nonrep.index)
    self.attrs["alpha_to_nonreporting_lower_bounds"] = {SymKey(alpha): nr_lo}
    self.attrs["alpha_to_nonreporting_upper_bounds"] = {SymKey(alpha): nr_up}
    upi = NamedTuple("PredictionIntervals", ["lower", "upper", "conformalization"], [None, None, cal])
    # model state left behind by the unit step: the calibration frame of the LAST level whose unit intervals were computed --
    # in a request for several levels that is some OTHER level's (an arbitrary other set of reporting units)
    f2 = z3.Function("inCal_of_the_last_unit_step", z3.IntSort(), z3.BoolSort())
    h.syms["inCal_of_the_last_unit_step"] = f2
    h.forall_rows(t.root, z3.Implies(f2(t.root.u), t.R))
    self.attrs["conformalization_data_unit"] = frames.base_frame(t.root, f2(t.root.u), {k: c.t for k, c in t.rep.cols.items()}, "geographic_unit_fips")
    h.default_replay = lambda ev: {"target": "verif_replays:gaussian_aggregate_replay", "args": [list(keys)], "check": "result['exc'] is None and result['ok']"}
    kind, res = h.call_method(self, "get_aggregate_prediction_intervals", t.rep, t.nonrep, t.third, list(keys), alpha, upi, "turnout")
    return t, inCal, cal, alpha, gmc, self, kind, res


def _agg_intervals(aggname, keys):
    @unit("C15", f"aggregate_intervals.{aggname}", fns=[f"{GA}.get_aggregate_prediction_intervals"])
    def agg(h):
        """the gaussian aggregate interval of every group with outstanding units: exactly one model row (own group if
        large enough, else its state, else everything), bounds = summed unadjusted unit bounds shifted by the normal
        quantile of (W mu, sigma sqrt(W2 + kappa W^2)), floored at the votes already counted"""
        from pyvc import sums
        from pyvc import theory_np

        t, inCal, cal, alpha, gmc, self, kind, res = gaussian_aggregate_run(h, keys)
        if kind == "raise":
            return h.fail("no_raise", f"raised {res}", replay=lambda ev: {"target": "verif_replays:gaussian_aggregate_replay", "args": [list(keys)], "check": "result['exc'] is None and result['ok']"})
        # C13: the call is made once per requested aggregate level on ONE model object -- it must leave the per-level state
        # it reads (the unit bounds cached by get_unit_prediction_intervals) as it found it, otherwise what is reported for
        # one aggregate level depends on which other levels were requested before it
        rp_agg = lambda ev: {"target": "verif_replays:aggregate_independence_replay", "args": ["gaussian"], "check": "result['exc'] is None and result['ok']"}  # noqa: E731
        for nm_ in ("alpha_to_nonreporting_lower_bounds", "alpha_to_nonreporting_upper_bounds"):
            cache = self.attrs[nm_]
            vals = list(cache.values())
            sym = h.syms["nr_lower" if "lower" in nm_ else "nr_upper"](t.root.u)
            h.ensures(f"C13.{nm_}.left_as_it_was_found", len(vals) == 1 and isinstance(vals[0], V) and z3.eq(z3.simplify(vals[0].t), z3.simplify(sym)), why="the cached unit bounds of this level were modified by the aggregate call", replay=rp_agg)
        L = len(keys)
        rp = lambda ev: {"target": "verif_replays:gaussian_aggregate_replay", "args": [list(keys)], "check": "result['exc'] is None and result['ok']"}  # noqa: E731
        if not gmc.calls:
            # returned without fitting a model: only legitimate when nothing is outstanding, and then both bounds are the
            # counted votes of the group (reporting and attributable third-frame units)
            sR, dR = t.gsum("R", keys, t.res)
            sT, dT = t.gsum("T", keys, t.res)
            counted = sR if "county_classification" in keys else sR + sT
            lo0, up0 = (res.lower, res.upper) if hasattr(res, "lower") else res
            h.ensures("no_outstanding_units.only_then", t.nonrep.axis.n == 0, replay=rp)
            ok_shape = isinstance(lo0, V) and isinstance(up0, V) and len(lo0.axes) == 1 and len(up0.axes) == 1
            h.ensures("no_outstanding_units.bounds_are_series_over_the_groups", ok_shape, replay=rp)
            if not ok_shape:
                return
            wantR = t.member("R", keys)
            wantT = z3.BoolVal(False) if "county_classification" in keys else t.member("T", keys)
            h.ensures("no_outstanding_units.every_group_with_counted_votes_has_a_row", z3.Implies(z3.And(*t.root.facts(), z3.Or(wantR, wantT)), z3.And(lo0.axes[0].present(), up0.axes[0].present())), replay=rp)
            rows = z3.And(*lo0.axes[0].facts())
            h.ensures("no_outstanding_units.bounds_are_the_counted_votes", z3.Implies(rows, z3.And(real(lo0.t) == z3.ToReal(counted), real(up0.t) == z3.ToReal(counted))), replay=rp)
            return
        spec = gmc.calls[0]["spec"]
        h.ensures("one_fit_on_the_calibration_rows_at_this_aggregate", len(gmc.calls) == 1 and gmc.calls[0]["conf"] is cal and gmc.calls[0]["non"] is t.nonrep and gmc.calls[0]["aggregate"] == list(keys) and gmc.calls[0]["alpha"] is alpha, why="GaussianModel.fit must get the calibration frame of THIS call's unit intervals (not model state of the last unit step), this call's outstanding units, aggregate and level", replay=lambda ev: {"target": "verif_replays:level_independence_replay", "args": ["gaussian"], "check": "result['exc'] is None and result['ok']"})
        gs = spec.gs[L]
        facts = z3.And(*t.root.facts())
        pN = t.member("N", keys)  # the generic unit is an outstanding unit of the generic group
        # which level serves the generic group: its own if large enough, else the next coarser one that is, else everything
        def pick(c):
            v = spec.stats[0][c]
            for j in range(1, L + 1):
                v = z3.If(spec.n[j] >= spec.T, spec.stats[j][c], v)
            return v

        mb = self.attrs["modeled_bounds_agg"]
        if mb is None:
            # early return: no outstanding unit at all -> both bounds are the counted votes
            sR, dR = t.gsum("R", keys, t.res)
            sT, dT = t.gsum("T", keys, t.res)
            counted = sR if "county_classification" in keys else sR + sT
            lo0, up0 = res  # (the consumer reads positions 0 and 1)
            rows = z3.And(*lo0.axes[0].facts())
            h.ensures("no_outstanding_units.bounds_are_the_counted_votes", z3.Implies(rows, z3.And(real(lo0.t) == z3.ToReal(counted), real(up0.t) == z3.ToReal(counted))))
            h.ensures("no_outstanding_units.only_then", t.nonrep.axis.n == 0)
            return
        h.ensures("model_table_is_over_the_groups", isinstance(mb, frames.Frame) and mb.axis.root is gs)
        mult = mb.axis.multiplicity()
        h.ensures("exactly_one_model_row_per_group_with_outstanding_units", z3.Implies(z3.And(facts, pN), mult == 1), replay=rp)
        wN = frames.presence_instances(h.ctx, t.root, {k: gs.keyvars[k] for k in keys})
        some_N = z3.Or(*[z3.And(r >= 0, r < t.root.n, z3.substitute(pN, (t.root.u, r))) for r in wN])
        h.ensures("no_model_row_for_other_groups", z3.Implies(mult >= 1, some_N))
        for i, d in enumerate(mb.axis.doms):
            for c in STAT_COLS:
                col = mb.col(c)
                h.ensures(f"segment{i}.{c}.comes_from_the_right_level", z3.Implies(d, z3.And(real(mb.axis.seg_term(col.t, i)) == pick(c), z3.Not(mb.axis.seg_term(col.nan, i)) if col.nan is not None else z3.BoolVal(True))), replay=rp)
        # the interval
        from pyvc.theory_np import SQRT

        nrl, nru = h.syms["nr_lower"](t.root.u), h.syms["nr_upper"](t.root.u)
        Wn, dWn = t.gsum("N", keys, t.last)
        W2n, dW2n = t.gsum("N", keys, t.last * t.last)
        LB, _ = t.gsum("N", keys, z3.ToReal(t.last) * nrl)
        UB, _ = t.gsum("N", keys, z3.ToReal(t.last) * nru)
        resN, dresN = t.gsum("N", keys, t.res)
        sR, dR = t.gsum("R", keys, t.res)
        sT, dT = t.gsum("T", keys, t.res)
        counted = sR if "county_classification" in keys else sR + sT
        zs = sorted({str(d) for s_ in h.ctx.pc for d in _consts(s_) if str(d).startswith("z_q")})
        h.ensures("single_quantile_symbol", len(zs) == 1, why=str(zs))
        if len(zs) != 1:
            return
        z = z3.Real(zs[0])
        zq = [s_ for s_ in h.ctx.pc if zs[0] in str(s_)]
        h.ensures("quantile_level_is_three_plus_alpha_over_four", any("(3 + alpha)/4" in str(s_).replace("ToReal(3)", "3").replace("ToReal(4)", "4") for s_ in zq), why=str(zq)[:300])
        # the argument of the square root is never negative (sums of squares; kappa is a ratio of positive sums)
        sums.lemma_sum_nonneg(h.ctx, dW2n, name="lemma.squared_outstanding_weights_nonneg")
        for j in range(L + 1):
            arg_j = z3.ToReal(W2n) + spec.stats[j]["var_inflate"] * (z3.ToReal(Wn) * z3.ToReal(Wn))
            h.ensures(f"sqrt_argument_nonnegative.level{j}", z3.Implies(spec.D[j], arg_j >= 0))
            h.ctx.assume(z3.Implies(spec.D[j], arg_j >= 0))  # (just proved)
        kap = pick("var_inflate")
        root_term = SQRT(z3.ToReal(W2n) + kap * (z3.ToReal(Wn) * z3.ToReal(Wn)))
        lb = LB - (z3.ToReal(Wn) * pick("mu_lower_bound") + (pick("sigma_lower_bound") * root_term) * z)
        ub = UB + (z3.ToReal(Wn) * pick("mu_upper_bound") + (pick("sigma_upper_bound") * root_term) * z)
        pl = z3.If(z3.ToReal(Wn) + lb >= z3.ToReal(resN), z3.ToReal(Wn) + lb, z3.ToReal(resN))
        pu = z3.If(z3.ToReal(Wn) + ub >= z3.ToReal(resN), z3.ToReal(Wn) + ub, z3.ToReal(resN))
        lower, upper = res.lower, res.upper
        ax = lower.axes[0]
        rows = z3.And(*ax.facts())
        hasN = mult >= 1
        want_l = z3.If(hasN, pl, 0) + z3.ToReal(counted)
        want_u = z3.If(hasN, pu, 0) + z3.ToReal(counted)
        isrnd = lambda x: z3.is_app(x) and x.decl().name() == "round_to" and z3.is_int_value(x.arg(1)) and x.arg(1).as_long() == 0  # noqa: E731
        h.ensures("bounds_are_rounded_to_whole_numbers", isrnd(lower.t) and isrnd(upper.t))
        if not (isrnd(lower.t) and isrnd(upper.t)):
            return
        import os as _os

        if _os.environ.get("VERIF_DEBUG"):
            from pyvc.euf import abstract_nonlinear as _an

            items = {"code": lower.t.arg(0), "want": want_l, "hasN": hasN, "pl": pl, "counted": z3.ToReal(counted), "Wn": Wn, "resN": resN, "LB": LB, "lb": lb, "rows": rows, "pN_present": mb.axis.present()}
            for i_, d_ in enumerate(mb.axis.doms):
                items[f"d{i_}"] = d_
                for c_ in ("mu_lower_bound",):
                    items[f"seg{i_}.{c_}"] = mb.axis.seg_term(mb.col(c_).t, i_)
            for j_ in range(L + 1):
                items[f"n{j_}>=T"] = spec.n[j_] >= spec.T
                items[f"D{j_}"] = spec.D[j_]
            for c_ in ("nonreporting_aggregate_lower_bound", "nonreporting_weight_sum", "nonreporting_weight_ssum"):
                print("COL", c_, mb.axis.seg_term(mb.col(c_).t, 0), "| spec:", LB, Wn, W2n, flush=True)
            names_ = list(items)
            fs_ = _an(list(h.ctx.pc) + [items[k] for k in names_])
            pcs_, its_ = fs_[: len(h.ctx.pc)], dict(zip(names_, fs_[len(h.ctx.pc) :]))
            sv = z3.Solver()
            sv.set("timeout", 60000)
            sv.add(*pcs_)
            sv.add(its_["rows"], its_["code"] != its_["want"])
            r_ = sv.check()
            print("DEBUG check:", r_, flush=True)
            open("/tmp/dbg_code.txt", "w").write(z3.simplify(its_["code"]).sexpr())
            open("/tmp/dbg_want.txt", "w").write(z3.simplify(its_["want"]).sexpr())
            if r_ == z3.sat:
                m_ = sv.model()
                for k in names_:
                    print("  ", k, "=", m_.eval(its_[k], model_completion=True), flush=True)
        h.ensures_euf("lower_bound_formula", z3.Implies(rows, lower.t.arg(0) == want_l), replay=rp)
        h.ensures_euf("upper_bound_formula", z3.Implies(rows, upper.t.arg(0) == want_u), replay=rp)
        for nm, v in (("lower", lower), ("upper", upper)):
            h.ensures(f"{nm}.finite", z3.Implies(rows, z3.And(z3.Not(v.nan) if v.nan is not None else z3.BoolVal(True), z3.Not(v.inf) if v.inf is not None else z3.BoolVal(True))))
        for d in (dresN, dR, dT):
            sums.lemma_sum_int(h.ctx, d, name="lemma.sum_int")
        h.ctx.assume(z3.Implies(rows, z3.And(lower.t.arg(0) == want_l, upper.t.arg(0) == want_u)))  # (the two formulas just proved)
        # floors: the un-rounded value is at least the (whole) number of votes already counted, and rounding keeps whole floors
        kI = counted + z3.If(hasN, resN, z3.IntVal(0))
        x_, r_, k_ = z3.Real("x!lemma"), z3.Int("r!lemma"), z3.Int("k!lemma")
        h.lemma("lemma.rounding_keeps_whole_floors", z3.Implies(z3.And(x_ >= z3.ToReal(k_), z3.ToReal(r_) >= x_ - z3.RealVal("1/2")), r_ >= k_))
        for nm, v in (("lower", lower), ("upper", upper)):
            inner = v.t.arg(0)
            h.ensures_euf(f"C03.{nm}_floor.before_rounding", z3.Implies(rows, inner >= z3.ToReal(kI)))
            h.ctx.assume(z3.Implies(rows, inner >= z3.ToReal(kI)))  # (just proved)
            ri = theory_np.RNDI(inner)
            h.ctx.assume(z3.Implies(z3.And(inner >= z3.ToReal(kI), z3.ToReal(ri) >= inner - z3.RealVal("1/2")), ri >= kI))  # (instance of the lemma)
            h.ensures_euf(f"C03.{nm}_floor", z3.Implies(rows, real(v.t) >= z3.ToReal(kI)))
        h.ensures("C03.whole_numbers", z3.Implies(rows, z3.And(z3.IsInt(real(lower.t)), z3.IsInt(real(upper.t)))))

    return agg


for _n, _k in AGGS.items():
    _agg_intervals(_n, _k)


# ---- GaussianModel.fit returns the table of the statement (one step, the recursive calls under the SAME contract) -----
def parts_equiv(h, res, spec, L):
    """the table `res` (Frame / multi-level table) holds, at every level, exactly the rows and statistics of `spec`"""
    res_parts = res.parts if isinstance(res, levels.PartsFrame) else [res]
    known_roots = [spec.gs[j] for j in range(L + 1)]
    h.ensures("every_part_is_a_level_of_the_key_list", all(any(p.axis.root is g for g in known_roots) for p in res_parts), why=str([p.axis.root.name for p in res_parts]))
    for j in range(L + 1):
        gs = spec.gs[j]
        rp = [p for p in res_parts if p.axis.root is gs]
        mult = z3.IntVal(0)
        for p in rp:
            for d in p.axis.doms:
                mult = mult + z3.If(d, 1, 0)
        h.ensures(f"level{j}.exactly_the_rows_of_the_statement", mult == z3.If(spec.D[j], 1, 0))
        if j == 0 and L == 2:
            items = {f"dom{i}": d for i, p in enumerate(rp) for d in p.axis.doms}
            items.update({"D": spec.D[j], "ncal": spec.ncal, "T": spec.T})
            items.update({f"F{k}": spec.F[k] for k in spec.F})
            h.debug_model(mult == z3.If(spec.D[j], 1, 0), items)
        for i, p in enumerate(rp):
            if len(p.axis.doms) != 1:
                h.ensures(f"level{j}.part{i}.single_segment", False)
                continue
            d = p.axis.doms[0]
            for c in STAT_COLS:
                col = p.col(c)
                h.ensures(f"level{j}.part{i}.{c}", z3.Implies(d, z3.And(real(col.t) == spec.stats[j][c], z3.Not(col.nan) if col.nan is not None else z3.BoolVal(True))))
            keycols_ok = all(k in p.cols and z3.eq(p.col(k).t, gs.keyvars[k]) and p.col(k).nan is None for k in spec.keys[:j]) and all(k not in p.cols or z3.is_true(z3.simplify(p.col(k).nan if p.col(k).nan is not None else z3.BoolVal(False))) for k in spec.keys[j:])
            h.ensures(f"level{j}.part{i}.key_columns_of_the_level_and_null_below", keycols_ok)


def _fit_result(aggname, keys):
    @unit("C15", f"fit_result.{aggname}", fns=[f"{GM}.fit", f"{GM}._fit", f"{GM}._get_n_units_per_group", f"{GM}._empty_gaussian_model", "elexmodel.utils.pandas_utils.semi_join"])
    def result(h):
        """the REAL GaussianModel.fit (with _fit, _get_n_units_per_group, semi_join inlined; weighted median / bootstrapped
        scale and the two recursive self.fit calls under contract -- the recursive calls under the contract being proved)
        returns the multi-level table of the statement (FitSpec): partial correctness of the recursion by induction"""
        from pyvc import sums
        from pyvc.values import SymRaise

        t, inCal, cal = _cal_world(h)
        root = t.root
        ctx = h.ctx
        h.default_replay = lambda ev: {"target": "verif_replays:gaussian_aggregate_replay", "args": [list(keys) if keys else ["postal_code"]], "check": "result['exc'] is None and result['ok']"}
        h.contracts[WM] = theory_ext.weighted_median_contract
        h.contracts[BS] = theory_ext.boot_sigma_contract
        # precondition of fit (C14.gaussian.split.calibration_rows_ge_3 at the top-level call; kept by both recursive calls, units
        # fit_cascade_step.*): no calibration unit at all, or at least three
        h.requires("no_or_at_least_three_calibration_units", z3.Or(cal.axis.n == 0, cal.axis.n >= 3))
        # _fit is inlined here: its precondition "every group holds >= 2 calibration units" (what the bootstrapped scale needs) is
        # established for exactly the branch that reaches it by fit_cascade_step.*.single_fit.every_group_holds_at_least_three...
        h.interp.group_rows_at_least = 2
        alpha = h.real("alpha")
        calls = []

        def own_contract(interp, self_, conformalization_data, reporting_units, nonreporting_units, estimand, aggregate=None, alpha=None, reweight=False, top_level=True):
            spec = FitSpec(h, t, conformalization_data.axis.doms[0], nonreporting_units.axis.doms[0], list(aggregate), alpha)
            calls.append(dict(spec=spec, conf=conformalization_data, rep=reporting_units, non=nonreporting_units, aggregate=list(aggregate)))
            return spec.table()

        h.contracts[f"{GM}.fit"] = own_contract
        gm = h.obj(GM, **SETTINGS)
        clo = h.load(f"{GM}.fit")
        L = len(keys)
        top = FitSpec(h, t, inCal, t.N, keys, alpha)
        try:
            res = h.interp.call_closure(clo, [gm, cal, t.rep, t.nonrep, "turnout"], dict(aggregate=list(keys), alpha=alpha, reweight=False, top_level=True))
        except SymRaise as e:
            return h.fail("no_raise", f"raised {e.exc}")
        kv = [top.gs[L].keyvars[k] for k in keys]
        at_row = lambda r: [z3.substitute(t.keys[k], (root.u, r)) for k in keys]  # noqa: E731  (the key tuple of row r)
        mins = [e for e in ctx.__dict__.get("_extrema", []) if hasattr(e["root"], "keyvars")]
        if isinstance(res, frames.Frame) and res.axis.root is root:
            # no calibration row at all: the "empty model"
            h.ensures("no_calibration_rows.only_then", top.ncal == 0)
            h.ensures("no_calibration_rows.table_is_empty", res.axis.n == 0)
            for j in range(L + 1):
                h.ensures(f"no_calibration_rows.level{j}.the_statement_has_no_row_either", z3.Not(top.D[j]))
            return
        if L == 0:
            h.ensures("unit_level.no_recursion", not calls)
            # ghost: "some calibration row" as a count and as the presence of the single group are the same thing
            cw = frames.count_witness(ctx, root, inCal)
            pw0 = frames.presence_instances(ctx, root, {}, rows=[cw])
            frames.count_witness(ctx, root, inCal, rows=pw0)
            return parts_equiv(h, res, top, L)
        h.ensures("one_minimum_over_the_group_counts", len(mins) == 1)
        if len(mins) != 1:
            return
        mn = mins[0]
        if not calls:
            # ---- every group large enough: ONE per-group fit.  Ghost: no group is below the threshold ...
            r = top.Fw[L]
            pt = at_row(r)
            mn["instantiate"](ctx, pt)
            w2 = sums.sum_nonzero_witness(ctx, top.dn[L], list(zip(kv, pt)))
            frames.presence_instances(ctx, root, dict(zip(keys, pt)), rows=[r, w2])
            # ... and a group is a row of the fit iff it has >= T calibration rows (generic group)
            ws = sums.sum_nonzero_witness(ctx, top.dn[L])
            frames.presence_instances(ctx, root, dict(zip(keys, kv)), rows=[ws])
            return parts_equiv(h, res, top, L)
        # ---- fallback: [parent level on all data] + [this level on the large groups]
        h.ensures("fallback.two_recursive_calls", len(calls) == 2 and calls[0]["aggregate"] == list(keys[:-1]) and calls[1]["aggregate"] == list(keys))
        if len(calls) != 2:
            return
        small, large = calls
        h.ensures("fallback.parent_level_gets_all_the_data", small["conf"] is cal and small["non"] is t.nonrep)
        # (1) some group IS below the threshold: the group attaining the minimum
        wit = mn["witness"]
        ws2 = sums.sum_nonzero_witness(ctx, top.dn[L], list(zip(kv, wit)))
        pw = frames.presence_instances(ctx, root, dict(zip(keys, wit)), rows=[ws2])
        for r in list(pw) + [ws2]:
            top.Finst[L](r)
        h.ensures("fallback.some_group_is_below_the_threshold", top.F[L])
        ctx.assume(top.F[L])
        # (2) the large-group call: its data are exactly the rows of the groups with >= T calibration rows ...
        Lg = large["spec"]
        calD2, nonD2 = large["conf"].axis.doms[0], large["non"].axis.doms[0]
        own = [t.keys[k] for k in keys]
        grp_ok = lambda point: z3.substitute(top.n[L], *list(zip(kv, point))) >= top.T  # noqa: E731
        wso = sums.sum_nonzero_witness(ctx, top.dn[L], list(zip(kv, own)))
        frames.presence_instances(ctx, root, dict(zip(keys, own)), rows=[wso])
        facts = z3.And(*root.facts())
        h.ensures("fallback.large_call.calibration_rows", z3.Implies(facts, calD2 == z3.And(inCal, grp_ok(own))))
        h.ensures("fallback.large_call.outstanding_rows", z3.Implies(facts, nonD2 == z3.And(t.N, grp_ok(own))))
        pd_ = ctx.__dict__.get("_present_defs", {})
        items = {"nonD2": nonD2, "N": t.N, "grp_ok": grp_ok(own), "calD2(wso)": z3.substitute(calD2, (root.u, wso)), "inCal(wso)": z3.substitute(inCal, (root.u, wso)), "wso_in": z3.And(wso >= 0, wso < root.n), "n(own)": z3.substitute(top.n[L], *list(zip(kv, own))), "T": top.T}
        for nm_, (p_, mem_, r_) in pd_.items():
            items[nm_ + "(own)"] = z3.substitute(p_, *list(zip(kv, own))) if p_.num_args() == len(kv) else p_
            items[nm_ + ".member(wso)"] = z3.substitute(mem_, (root.u, wso), *list(zip(kv, own))) if p_.num_args() == len(kv) else mem_
        h.debug_model(z3.Implies(facts, nonD2 == z3.And(t.N, grp_ok(own))), items)
        # ... so inside a large group nothing changed (guarded congruence), the subset has no more calibration rows ...
        r2 = Lg.Fw[L]
        pt2 = at_row(r2)
        wsr2 = sums.sum_nonzero_witness(ctx, top.dn[L], list(zip(kv, pt2)))
        frames.presence_instances(ctx, root, dict(zip(keys, pt2)), rows=[r2, wsr2])
        ws_g = sums.sum_nonzero_witness(ctx, top.dn[L])
        ws_g2 = sums.sum_nonzero_witness(ctx, Lg.dn[L])
        frames.presence_instances(ctx, root, dict(zip(keys, kv)), rows=[ws_g, ws_g2])
        guard = grp_ok(kv)
        sums.lemma_sum_congr(ctx, Lg.dn[L], top.dn[L], name="lemma.large_group_counts_unchanged", guard=guard, points=[list(zip(kv, own)), list(zip(kv, pt2))])
        frames.lemma_count_mono(ctx, root, calD2, inCal, name="lemma.subset_has_no_more_calibration_rows")
        frames.count_witness(ctx, root, calD2, rows=[ws_g, ws_g2])
        # ... hence the large call does not fall back again and its level-L rows are the statement's
        h.ensures("fallback.large_call.no_further_fallback", z3.Not(Lg.F[L]))
        ctx.assume(z3.Not(Lg.F[L]))
        h.ensures("fallback.large_call.rows_are_the_large_groups", Lg.D[L] == top.D[L])
        ctx.assume(Lg.D[L] == top.D[L])
        dl, dt_ = Lg.stats[L]["_defs"], top.stats[L]["_defs"]
        sums.lemma_sum_congr(ctx, dl["W"], dt_["W"], name="lemma.large_group_weights_unchanged", guard=guard)
        sums.lemma_sum_congr(ctx, dl["W2"], dt_["W2"], name="lemma.large_group_squared_weights_unchanged", guard=guard)
        for c in ("mu_lower_bound", "mu_upper_bound", "sigma_lower_bound", "sigma_upper_bound"):
            sums.lemma_stat_congr(ctx, dl[c], dt_[c], guard=guard, name=f"lemma.large_group_{c}_unchanged")
        return parts_equiv(h, res, top, L)

    return result


for _n, _k in list(AGGS.items()) + [("all", [])]:
    _fit_result(_n, _k)


# the aggregate-interval units also decide the gaussian clauses of C02 (rows aligned with the estimates table, counted
# votes inside the bounds), C03 (floors, whole numbers) and C10 (the bound of a group is a function of ITS OWN outstanding
# rows and of calibration statistics of reporting units only -- the formula obligations -- and floor terms are combined
# with the rows of their own group -- the alignment obligations): registered there under their own ids
from pyvc.api import UNITS  # noqa: E402

for _u in list(UNITS.get("C15", [])):
    if _u["name"] == "unit_intervals.formula":
        # C03 at the unit level under the gaussian estimator: both bounds floored at the counted votes, whole numbers
        if not any(x["name"] == "gaussian.unit_intervals" for x in UNITS.get("C03", [])):
            UNITS.setdefault("C03", []).append(dict(_u, prop="C03", name="gaussian.unit_intervals"))
    if _u["name"].startswith("aggregate_intervals."):
        for _p in ("C02", "C03", "C10", "C13"):
            if not any(x["name"] == "gaussian." + _u["name"] for x in UNITS.get(_p, [])):
                UNITS.setdefault(_p, []).append(dict(_u, prop=_p, name="gaussian." + _u["name"]))
