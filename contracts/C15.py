"""C15 -- gaussian intervals use a group's own calibration if big enough, else its parent (DESIGN section 4, C15).

Proved (unit `unit_intervals.formula`): the gaussian unit-level interval formula and floors on the real
get_unit_prediction_intervals with GaussianModel.fit under contract.
Bounded (NOT counted as proved): the recursive fit cascade and the matching loop of the aggregate function --
frames whose rows live at different aggregation levels with null keys, positional `iloc`/indicator tricks -- are
outside the frame theory; the real functions are compared with an oracle written from the statement over an
enumerated small scope (bounded/c15_gaussian.py)."""
import z3

import contracts.C03 as C03
from contracts.common import Three
from pyvc import frames, theory_ext
from pyvc.api import unit
from pyvc.theory_np import round_half_even_t
from pyvc.values import NamedTuple, Obj, V, real

LEVEL = "other"
GA = C03.GA
GM = "elexmodel.distributions.GaussianModel.GaussianModel"
EXPLANATION = "mixed: the unit-level formula/floors are proved from the real AST (obligations listed); the group-selection cascade and aggregate alignment are an exhaustive-small-scope bounded stand-in on the real code (coverage.bounded), not a proof"
ASSUMPTIONS = C03.ASSUMPTIONS + [
    "A-SIGMA: the bootstrapped scale (scipy) is finite and positive; scipy.stats.norm.ppf(q, loc, scale) = loc + scale*z_q",
    "bounded part: group structures up to 2 states x 3 sub-groups, calibration counts in {0,3,9,10,11,25}, two- and one-level aggregates",
]
BOUNDED = [{"name": "group_selection_and_alignment", "script": "c15_gaussian.py", "timeout": 2400}]


class GMContract:
    """contract of GaussianModel(model_settings).fit(conformalization, rep, nonrep, estimand, aggregate=[], alpha): at the
    unit level (aggregate == []) ONE row of statistics of all calibration units: mu_lower/upper (weighted medians),
    sigma_lower/upper > 0 finite (A-SIGMA), var_inflate >= 0"""

    def __init__(self, interp, model_settings):
        self.interp = interp

    def pyvc_getattr(self, interp, name):
        if name != "fit":
            raise Exception(name)

        def fit(conformalization_data, reporting_units, nonreporting_units, estimand, aggregate=None, alpha=None, **kw):
            if aggregate:
                raise Exception("GMContract is the unit-level contract")
            interp.call_log.append(("gaussian.fit", dict(conf=conformalization_data, alpha=alpha)))
            vals = {}
            for k in ("mu_lower_bound", "mu_upper_bound", "sigma_lower_bound", "sigma_upper_bound", "var_inflate"):
                vals[k] = V(z3.Real(f"gm_{k}"))
            interp.ctx.assume(z3.And(vals["sigma_lower_bound"].t > 0, vals["sigma_upper_bound"].t > 0, vals["var_inflate"].t >= 0))
            return NamedTuple("GaussianFit", list(vals), list(vals.values()))

        return fit


@unit("C15", "unit_intervals.formula", fns=[f"{GA}.get_unit_prediction_intervals", f"{C03.CO}.get_unit_prediction_interval_bounds"])
def unit_formula(h):
    t = Three(h, "turnout", extra=("residuals_turnout", "f1"))
    h.contracts[C03.FEAT] = theory_ext.featurizer_contract
    h.contracts[GM] = lambda interp, ms: GMContract(interp, ms)
    alpha = h.real("alpha")
    h.requires("alpha_open", 0 < alpha, alpha < 1)
    self = C03.model(h, GA, features=["f1"])
    from pyvc.theory_np import SeqLen

    self.attrs["n_train"] = SeqLen(t.rep.axis)
    k0, m = h.call_method(self, "get_minimum_reporting_units", alpha)
    h.requires("gate", t.rep.axis.n >= m.t if isinstance(m, V) else t.rep.axis.n >= z3.RealVal(m))
    kind, res = h.call_method(self, "get_unit_prediction_intervals", t.rep, t.nonrep, alpha, "turnout")
    if kind == "raise":
        return h.fail("C14.totality_above_the_gate", f"raised {res}")
    rows = z3.And(*t.nonrep.axis.facts())
    lower, upper = res.lower, res.upper
    h.ensures("C03.lower_floor", z3.Implies(rows, lower.t >= t.res))
    h.ensures("C03.upper_floor", z3.Implies(rows, upper.t >= t.res))
    h.ensures("C03.whole_numbers", z3.Implies(rows, z3.And(z3.IsInt(real(lower.t)), z3.IsInt(real(upper.t)))))
    fits = [c for c in h.interp.call_log if c[0] == "gaussian.fit"]
    h.ensures("statistics_come_from_the_calibration_rows", len(fits) == 1 and fits[0][1]["conf"] is res.conformalization)
    qs = h.interp.qr_models
    lraw, uraw = qs[0].predict(C03._holdout(h, t)), qs[1].predict(C03._holdout(h, t))
    # the normal quantile at (3+alpha)/4: z_q > 0 for alpha in (0,1)
    zq = [s for s in h.ctx.pc if "z_q" in str(s)]
    h.ensures("one_quantile_level", len({str(s) for s in zq}) >= 1)
    mu_lo, mu_hi, s_lo, s_hi, kap = (z3.Real(f"gm_{k}") for k in ("mu_lower_bound", "mu_upper_bound", "sigma_lower_bound", "sigma_upper_bound", "var_inflate"))
    # recover the z value the code used from the ppf contract (a single fresh symbol per distinct q term)
    zs = sorted({str(d) for s in h.ctx.pc for d in _consts(s) if str(d).startswith("z_q")})
    h.ensures("single_quantile_symbol", len(zs) == 1, why=str(zs))
    if len(zs) != 1:
        return
    z = z3.Real(zs[0])
    sq = [d for s in h.ctx.pc for d in _consts(s) if str(d).startswith("sqrt")]
    sroot = z3.Real(str(sq[0])) if sq else None
    h.ensures("scale_inflation_is_sqrt_of_var_inflate_plus_one", sroot is not None)
    lc = mu_lo + (sroot * s_lo) * z
    uc = mu_hi + (sroot * s_hi) * z
    want_l = z3.If((lraw.t - lc) * t.last + t.last >= t.res, (lraw.t - lc) * t.last + t.last, t.res)
    want_u = z3.If((uraw.t + uc) * t.last + t.last >= t.res, (uraw.t + uc) * t.last + t.last, t.res)
    h.ensures("formula", z3.Implies(rows, z3.And(lower.t == z3.ToReal(round_half_even_t(want_l)), upper.t == z3.ToReal(round_half_even_t(want_u)))))
    # the quantile level: ppf was asked at (3 + alpha)/4
    h.ensures("quantile_level_is_three_plus_alpha_over_four", any("(3 + alpha)/4" in str(s).replace("ToReal(3)", "3").replace("ToReal(4)", "4") or "3 + alpha" in str(s) for s in zq), why=str(zq)[:300])


def _consts(t):
    out, stack, seen = [], [t], set()
    while stack:
        x = stack.pop()
        if x.get_id() in seen:
            continue
        seen.add(x.get_id())
        if z3.is_const(x) and x.decl().kind() == z3.Z3_OP_UNINTERPRETED:
            out.append(x)
        elif z3.is_app(x):
            stack.extend(x.children())
        elif z3.is_quantifier(x):
            stack.append(x.body())
    return out
