"""C06 -- bootstrap intervals ordered, nested by level, margins in [-1,1].  See DESIGN.md section 4 (C06)."""
import z3

from pyvc.api import unit
from pyvc.values import V, at_u2

BEM = "elexmodel.models.BootstrapElectionModel.BootstrapElectionModel"
LEVEL = "proof"
ASSUMPTIONS = ["A-REAL: python/numpy floats are treated as mathematical reals"]


def _replay_quantiles(alpha, B, check):
    def rp(ev):
        return {
            "target": f"elexmodel.models.BootstrapElectionModel:BootstrapElectionModel._get_quantiles",
            "self": {"class": "elexmodel.models.BootstrapElectionModel:BootstrapElectionModel", "init": None, "attrs": {"B": ev(B)}},
            "args": [ev(alpha)],
            "check": check,
        }

    return rp


@unit("C06", "ranks", fn=f"{BEM}._get_quantiles")
def ranks(h):
    alpha = h.real("alpha")
    B = h.int("B")
    k = h.int("k_parity")  # ghost: parity witness, makes the floor/ceil arithmetic linear for z3
    h.requires("alpha_open", 0 < alpha, alpha < 1)
    h.requires("B_ge_2", B >= 2)
    h.requires("ghost_parity", (B == 2 * k) | (B == 2 * k + 1))
    self = h.obj(BEM, B=B)
    kind, res = h.call_method(self, "_get_quantiles", alpha)
    if kind == "raise":
        return h.fail("no_raise", f"raised {res}")
    lo, hi = res
    rp = _replay_quantiles(alpha, B, "exc is None and 0 <= result[0] <= result[1] <= 1 and result[1] <= (self_obj.B-1)/self_obj.B")
    h.ensures("valid", (0 <= lo) & (lo <= hi) & (hi <= 1), replay=rp)
    h.ensures("upper_below_one", hi * B <= B - 1, replay=rp)


@unit("C06", "ranks_monotone", fn=f"{BEM}._get_quantiles")
def ranks_monotone(h):
    a = h.real("alpha_a")
    b = h.real("alpha_b")
    B = h.int("B")
    h.requires("levels", 0 < a, a < b, b < 1)
    h.requires("B_ge_2", B >= 2)
    self = h.obj(BEM, B=B)
    k1, ra = h.call_method(self, "_get_quantiles", a)
    k2, rb = h.call_method(self, "_get_quantiles", b)
    if k1 == "raise" or k2 == "raise":
        return h.fail("no_raise", "raised")

    def rp(ev):
        return {
            "target": f"elexmodel.models.BootstrapElectionModel:BootstrapElectionModel._get_quantiles",
            "self": {"class": "elexmodel.models.BootstrapElectionModel:BootstrapElectionModel", "init": None, "attrs": {"B": ev(B)}},
            "args": [ev(a)],
            "setup": f"B_={ev(B)}; b_={ev(b)!r}",
            "check": "(lambda rb: rb[0] <= result[0] and result[1] <= rb[1])(type(self_obj)._get_quantiles(self_obj, b_))",
        }

    h.ensures("nested_ranks", (rb[0] <= ra[0]) & (ra[1] <= rb[1]), replay=rp)


# ---- clip ranges, unit intervals ------------------------------------------------------------------------
from pyvc import frames, sums  # noqa: E402
from pyvc.values import ONE, Space  # noqa: E402


def quantiles_contract(registry):
    """contract of BootstrapElectionModel._get_quantiles as proved in units `ranks` / `ranks_monotone`:
    requires 0 < alpha < 1, B >= 2; ensures 0 <= lower_q <= upper_q <= (B-1)/B and nesting for nested levels."""

    def con(interp, self, alpha):
        a = alpha if isinstance(alpha, V) else V(z3.RealVal(repr(alpha)))
        B = self.attrs["B"]
        Bt = B.t if isinstance(B, V) else z3.IntVal(B)
        interp.ctx.oblige("_get_quantiles.pre.alpha_open", z3.And(a.t > 0, a.t < 1), kind="callee-pre")
        interp.ctx.oblige("_get_quantiles.pre.B_ge_2", Bt >= 2, kind="callee-pre")
        from pyvc.values import tid

        key = tid(a.t)
        if key not in registry:
            lq, uq = z3.Real(f"lower_q!{len(registry)}"), z3.Real(f"upper_q!{len(registry)}")
            interp.ctx.assume(z3.And(0 <= lq, lq <= uq, uq * z3.ToReal(Bt) <= z3.ToReal(Bt) - 1, uq <= 1))
            for (a2, l2, u2) in registry.values():
                interp.ctx.assume(z3.Implies(a.t <= a2, z3.And(l2 <= lq, uq <= u2)))
                interp.ctx.assume(z3.Implies(a2 <= a.t, z3.And(lq <= l2, u2 <= uq)))
            registry[key] = (a.t, lq, uq)
        _, lq, uq = registry[key]
        return (V(lq, meta="numpy"), V(uq, meta="numpy"))

    return con


def boot_self(h, **attrs):
    B = h.int("B")
    h.requires("B_ge_2", B >= 2)
    a = dict(B=B)
    a.update(attrs)
    return h.obj(BEM, **a), B


@unit("C06", "nonreporting_bounds.margin", fn=f"{BEM}._generate_nonreporting_bounds")
def bounds_margin(h):
    sp, f = frames.unit_universe("units")
    h.ctx.assume(z3.And(*sp.facts()))
    u = sp.u
    pev = z3.Function("pev", z3.IntSort(), z3.RealSort())(u)
    y = z3.Function("results_normalized_margin", z3.IntSort(), z3.RealSort())(u)
    N = z3.Function("inNonrep", z3.IntSort(), z3.BoolSort())(u)
    h.syms.update(pev=z3.Function("pev", z3.IntSort(), z3.RealSort()), results_normalized_margin=z3.Function("results_normalized_margin", z3.IntSort(), z3.RealSort()))
    fr = frames.base_frame(sp, N, {"percent_expected_vote": pev, "results_normalized_margin": y}, None)
    h.requires("V2", pev >= 0, y >= -1, y <= 1)
    ylo, yhi = h.real("y_unobserved_lower_bound"), h.real("y_unobserved_upper_bound")
    h.requires("V6", -1 <= ylo, ylo <= yhi, yhi <= 1)
    self = h.obj(BEM, y_unobserved_lower_bound=ylo, y_unobserved_upper_bound=yhi)
    kind, res = h.call_method(self, "_generate_nonreporting_bounds", fr, "results_normalized_margin")
    if kind == "raise":
        return h.fail("no_raise", f"raised {res}")
    lo, hi = res

    def rp(ev):
        return {"target": "verif_replays:nonreporting_bounds", "args": ["results_normalized_margin", float(ev(pev)), float(ev(y)), float(ev(ylo)), float(ev(yhi))], "check": "result['exc'] is None and -1 <= result['lo'] <= result['hi'] <= 1"}

    rows = z3.And(*fr.axis.facts())
    h.ensures("margin_bounds_within_minus_one_one", z3.Implies(rows, z3.And(-1 <= lo.t, lo.t <= 1, -1 <= hi.t, hi.t <= 1)), replay=rp)
    h.ensures("margin_bounds_ordered", z3.Implies(rows, lo.t <= hi.t), replay=rp)
    h.ensures("margin_bounds_finite", z3.Implies(rows, z3.And(z3.Not(lo.nf()) if lo.nf() is not None else True, z3.Not(hi.nf()) if hi.nf() is not None else True)))
    h.ensures("one_row_per_unit_column_vector", lo.axes == (fr.axis, ONE) and hi.axes == (fr.axis, ONE))


@unit("C06", "nonreporting_bounds.turnout_factor", fn=f"{BEM}._generate_nonreporting_bounds")
def bounds_turnout(h):
    sp, f = frames.unit_universe("units")
    h.ctx.assume(z3.And(*sp.facts()))
    u = sp.u
    pev = z3.Function("pev", z3.IntSort(), z3.RealSort())(u)
    z = z3.Function("turnout_factor", z3.IntSort(), z3.RealSort())(u)
    N = z3.Function("inNonrep", z3.IntSort(), z3.BoolSort())(u)
    fr = frames.base_frame(sp, N, {"percent_expected_vote": pev, "turnout_factor": z}, None)
    h.requires("V2", pev >= 0, z >= 0)
    zlo, zhi, err = h.real("z_unobserved_lower_bound"), h.real("z_unobserved_upper_bound"), h.real("percent_expected_vote_error_bound")
    h.requires("V6", 0 <= zlo, zlo <= zhi, err >= 0)
    self = h.obj(BEM, z_unobserved_lower_bound=zlo, z_unobserved_upper_bound=zhi, percent_expected_vote_error_bound=err)
    kind, res = h.call_method(self, "_generate_nonreporting_bounds", fr, "turnout_factor")
    if kind == "raise":
        return h.fail("no_raise", f"raised {res}")
    lo, hi = res
    rows = z3.And(*fr.axis.facts())
    def rp(ev):
        # the generic outstanding unit of the counter-model as a one-row frame of the REAL function
        def fl(t_, d):
            v = ev(t_)
            try:
                return float(v) if v is not None else d
            except Exception:  # noqa
                return d

        return {"target": "verif_replays:nonreporting_bounds", "args": ["turnout_factor", fl(pev, 55.0), fl(z, 1.0), fl(zlo.t, 0.5), fl(zhi.t, 1.5), fl(err.t, 0.6)], "check": "result['exc'] is None and result['lo'] >= 0 and result['hi'] >= 0 and result['lo'] == result['lo'] and result['hi'] == result['hi']"}

    h.ensures("turnout_bounds_non_negative", z3.Implies(rows, z3.And(lo.t >= 0, hi.t >= 0)), replay=rp)
    h.ensures("turnout_bounds_finite", z3.Implies(rows, z3.And(z3.Not(lo.nf()) if lo.nf() is not None else True, z3.Not(hi.nf()) if hi.nf() is not None else True)))


class _Opq:
    """a value of the un-modelled prefix of compute_bootstrap_errors (never inspected)"""

    def pyvc_getattr(self, interp, name):
        return _Opq()


@unit("C06", "bootstrap_tail.ranges", fns=[f"{BEM}.compute_bootstrap_errors", f"{BEM}._generate_nonreporting_bounds"])
def tail(h):
    """the statements of compute_bootstrap_errors from the final clip of the bootstrapped margins to the end,
    executed from the real AST with everything computed before them ARBITRARY (fits, residuals, draws are
    unconstrained arrays of shape (n_test, B)); the clip bounds are the real _generate_nonreporting_bounds."""
    sp, f = frames.unit_universe("units")
    h.ctx.assume(z3.And(*sp.facts()))
    u = sp.u
    I, R = z3.IntSort(), z3.RealSort()
    pev = z3.Function("pev", I, R)(u)
    y = z3.Function("results_normalized_margin", I, R)(u)
    zf = z3.Function("turnout_factor", I, R)(u)
    w = z3.Function("baseline_weights", I, R)(u)
    N = z3.Function("inNonrep", I, z3.BoolSort())(u)
    fr = frames.base_frame(sp, N, {"percent_expected_vote": pev, "results_normalized_margin": y, "turnout_factor": zf, "baseline_weights": w}, None)
    h.requires("V2", pev >= 0, y >= -1, y <= 1, zf >= 0, w >= 0)
    ylo, yhi = h.real("y_unobserved_lower_bound"), h.real("y_unobserved_upper_bound")
    zlo, zhi, err = h.real("z_unobserved_lower_bound"), h.real("z_unobserved_upper_bound"), h.real("percent_expected_vote_error_bound")
    h.requires("V6", -1 <= ylo, ylo <= yhi, yhi <= 1, 0 <= zlo, zlo <= zhi, err >= 0)
    self, B = boot_self(h, y_unobserved_lower_bound=ylo, y_unobserved_upper_bound=yhi, z_unobserved_lower_bound=zlo, z_unobserved_upper_bound=zhi, percent_expected_vote_error_bound=err)
    kind, yb = h.call_method(self, "_generate_nonreporting_bounds", fr, "results_normalized_margin")
    kind2, zb = h.call_method(self, "_generate_nonreporting_bounds", fr, "turnout_factor")
    if kind == "raise" or kind2 == "raise":
        return h.fail("bounds.no_raise", "raised")
    draws = Space("draws", n=B.t)
    h.ctx.assume(z3.And(*draws.facts()))

    def arr(name):
        fn = z3.Function(name, I, I, R)
        return V(fn(u, draws.u), (fr.axis, draws))

    zraw = arr("z_model_draw")
    # the earlier statement `z_test_pred_B = (...).clip(min=z_partial_reporting_lower, max=z_partial_reporting_upper)`
    class _Pred:
        def __init__(self, v):
            self.v = v

        def pyvc_getattr(self, interp, name):
            return lambda *a, **k: self.v

    class _Ind:
        def pyvc_binop(self, interp, op, o, rev):
            return V(z3.RealVal(0))

    k, env1 = h.slice(f"{BEM}.compute_bootstrap_errors", first_assign="z_test_pred_B", last_assign="z_test_pred_B", env={"self": self, "ols_z_B": _Pred(zraw), "x_test": _Opq(), "aggregate_indicator_test": _Ind(), "epsilon_z_hat_B": _Opq(), "z_partial_reporting_lower": zb[0], "z_partial_reporting_upper": zb[1]})
    if k == "raise":
        return h.fail("z_clip.no_raise", f"raised {env1}")
    h.contracts[f"{BEM}._sample_test_errors"] = lambda interp, s, *a, **kw: (arr("test_residual_y"), arr("test_residual_z"))
    env = {"self": self, "y_test_pred_B": arr("y_model_draw"), "z_test_pred_B": env1["z_test_pred_B"], "y_partial_reporting_lower": yb[0], "y_partial_reporting_upper": yb[1], "z_partial_reporting_lower": zb[0], "z_partial_reporting_upper": zb[1], "weights_test": V(w, (fr.axis, ONE)), "contest_indicator": _Opq()}
    for nm in ("residuals_y", "residuals_z", "epsilon_y_hat", "epsilon_z_hat", "x_test_strata", "stratum_ppfs_delta_y", "stratum_ppfs_delta_z", "aggregate_indicator_train", "aggregate_indicator_test"):
        env[nm] = _Opq()
    # the tail starts right after the last compound statement that still modifies the margin draws (the presidential
    # correction block): whatever happened to them before -- model draws, blend with the extrapolation, correction -- is
    # arbitrary here, so the range clauses rest on what the tail itself does (the final clip)
    k, out = h.slice(f"{BEM}.compute_bootstrap_errors", after_last_compound_storing="y_test_pred_B", last_assign="self.ran_bootstrap", env=env)
    if k == "raise":
        return h.fail("tail.no_raise", f"raised {out}")
    rows = z3.And(*fr.axis.facts(), *draws.facts())
    yB = out["y_test_pred_B"]
    h.ensures("every_bootstrapped_margin_in_range", z3.Implies(rows, z3.And(-1 <= yB.t, yB.t <= 1)), replay=lambda ev: {"target": "verif_replays:run_seed_demo", "args": ["C06b"], "check": "result['exit'] == 0"})
    zB = env1["z_test_pred_B"]
    h.ensures("every_bootstrapped_turnout_factor_non_negative", z3.Implies(rows, zB.t >= 0))
    ypred, zpred = out["y_test_pred"], out["z_test_pred"]
    # lemma sum_bound on the two bootstrap means (lean/FrameSums.lean): entries in [lo,hi] => mean in [lo,hi]
    for v, lo_, hi_, nm in ((ypred, z3.RealVal(-1), z3.RealVal(1), "y"), (zpred, z3.RealVal(0), None, "z")):
        d = v.meta[1]
        sums.lemma_sum_bound(h.ctx, d, B.t, lo=lo_, hi=hi_, name=f"lemma.mean_bound.{nm}")
    h.ensures("predicted_margin_in_range", z3.Implies(rows, z3.And(-1 <= ypred.t, ypred.t <= 1)))
    h.ensures("predicted_turnout_factor_non_negative", z3.Implies(rows, zpred.t >= 0))
    wz, wyz = self.attrs["weighted_z_test_pred"], self.attrs["weighted_yz_test_pred"]
    h.ensures("unit_predicted_turnout_non_negative", z3.Implies(rows, wz.t >= 0))
    h.ensures("unit_predicted_margin_bounded_by_turnout", z3.Implies(rows, z3.And(wyz.t <= wz.t, -wyz.t <= wz.t)))
    e1, e2, e3, e4 = (self.attrs[f"errors_B_{i}"] for i in (1, 2, 3, 4))
    h.ensures("bootstrap_draws_margin_bounded_by_turnout", z3.Implies(rows, z3.And(e3.t >= 0, e4.t >= 0, e1.t <= e3.t, -e1.t <= e3.t, e2.t <= e4.t, -e2.t <= e4.t)))
    h.ensures("shapes", e1.axes == (fr.axis, draws) and wyz.axes == (fr.axis, ONE))


# ---- bootstrap aggregate predictions: turnout/margin identities, range, race calls -------------------------
from contracts.common import AGGS, symlist  # noqa: E402


def format_contract(interp, self, lhs, rhs, contests, lhs_value, rhs_value, fill_value):
    """contract of _format_called_contests as proved in C07.format: raises the dedicated error iff the lists are
    contradictory or name an unknown contest; otherwise entry(c) = lhs_value / rhs_value / fill_value."""
    from pyvc.values import ExcVal, SymRaise

    x = z3.String("x_c")
    C = contests.mem()
    L = lhs.mem() if hasattr(lhs, "mem") else (lambda t: z3.BoolVal(False))
    Rr = rhs.mem() if hasattr(rhs, "mem") else (lambda t: z3.BoolVal(False))
    bad = z3.Exists([x], z3.Or(z3.And(L(x), Rr(x)), z3.And(L(x), z3.Not(C(x))), z3.And(Rr(x), z3.Not(C(x)))))
    if interp.ctx.branch(V(bad), "format-called-raises"):
        raise SymRaise(ExcVal("BootstrapElectionModelException", ("contradictory or unknown contests",), ("Exception",)))
    interp.ctx.assume(z3.And(*contests.facts()))
    c = contests.elem
    from pyvc.values import to_term

    def tt(v):
        return to_term(v) if v is not None else z3.IntVal(-999)

    lv, rv, fv = tt(lhs_value), tt(rhs_value), tt(fill_value)
    if lv.sort() != fv.sort():
        raise Exception("format contract: mixed value sorts")
    val = z3.If(L(c), lv, z3.If(Rr(c), rv if rv.sort() == fv.sort() else fv, fv))
    return V(val, (contests.space,))


class BootWorld:
    """three frames with the columns the bootstrap aggregate functions read"""

    def __init__(self, h):
        from contracts.common import Three

        self.t = t = Three(h, "margin", extra=("baseline_weights", "turnout_factor", "results_normalized_margin"), int_extra=("results_dem", "results_gop", "baseline_dem", "baseline_gop", "baseline_turnout"))
        u = t.root.u
        I, R = z3.IntSort(), z3.RealSort()
        self.h = h
        c = t.rep.cols
        dem, gop = c["results_dem"].t, c["results_gop"].t
        self.dem, self.gop = dem, gop
        self.rw = dem + gop
        for f_ in (t.rep, t.nonrep, t.third):
            f_.cols["results_weights"] = V(dem + gop, (f_.axis,), f_.index)
        self.bw, self.tf = c["baseline_weights"].t, c["turnout_factor"].t
        # V2 and the post-state of C09: margin = dem - gop, counts non-negative; on reporting rows the baseline
        # weight is not zero and turnout_factor = results_weights / baseline_weights
        h.forall_rows(t.root, z3.And(dem >= 0, gop >= 0, t.res == dem - gop))
        h.forall_rows(t.root, z3.Implies(t.R, z3.And(self.bw > 0, self.tf * self.bw == dem + gop)))
        self.y = c["results_normalized_margin"].t
        h.forall_rows(t.root, z3.And(self.y * z3.ToReal(dem + gop) == z3.ToReal(t.res), -1 <= self.y, self.y <= 1))
        B = h.int("B")
        h.requires("B_ge_2", B >= 2)
        self.B = B
        self.draws = Space("draws", n=B.t)
        h.ctx.assume(z3.And(*self.draws.facts()))
        self.wz = z3.Function("weighted_z_test_pred", I, R)(u)
        self.wyz = z3.Function("weighted_yz_test_pred", I, R)(u)
        # post-state of unit `bootstrap_tail.ranges`
        h.forall_rows(t.root, z3.Implies(t.N, z3.And(self.wz >= 0, self.wyz <= self.wz, -self.wyz <= self.wz)))
        # unit-level columns written by ModelResultsHandler.add_unit_predictions
        t.rep.cols["pred_margin"] = t.rep.cols["results_margin"]
        t.third.cols["pred_margin"] = t.third.cols["results_margin"]
        t.nonrep.cols["pred_margin"] = V(self.wyz, (t.nonrep.axis,), t.nonrep.index)

    def model(self, **attrs):
        t = self.t
        a = dict(B=self.B, lhs_called_threshold=0.005, rhs_called_threshold=-0.005, weighted_z_test_pred=V(self.wz, (t.nonrep.axis, ONE)), weighted_yz_test_pred=V(self.wyz, (t.nonrep.axis, ONE)), called_contests=None, stop_model_call=None)
        a.update(attrs)
        return self.h.obj(BEM, **a)


def _boot_agg(aggname, keys):
    @unit("C06", f"aggregate_predictions.{aggname}", fns=[f"{BEM}.get_aggregate_predictions", f"{BEM}._adjust_called_contests", f"{BEM}._is_top_level_aggregate", "elexmodel.models.BaseElectionModel.BaseElectionModel.get_aggregate_predictions"])
    def agg(h):
        w = BootWorld(h)
        t = w.t
        h.contracts[f"{BEM}._format_called_contests"] = format_contract
        self = w.model()
        lhs, rhs = symlist(h, "lhs"), symlist(h, "rhs")
        # post-state of get_units (C11.unexpected_units.*): a requested county/district key is never null on the
        # third frame (unexpected units get it from their id, non-modelled units from the baseline)
        for k in keys[1:]:
            if k != "county_classification":
                h.forall_rows(t.root, z3.Not(t.knullT[k]))
        kind, res = h.call_method(self, "get_aggregate_predictions", t.rep, t.nonrep, t.third, list(keys), "margin", lhs_called_contests=lhs, rhs_called_contests=rhs)
        classification = "county_classification" in keys
        if kind == "raise":
            if res.clsname == "BootstrapElectionModelException":
                return h.ensures("raises_only_through_call_validation", True)
            if res.clsname == "TypeError" and classification:
                # third-frame units without a classification (every unexpected unit) reach "_".join as NaN
                return h.fail("C11.classification.join_args_are_strings", f"raised {res}", replay=lambda ev: {"target": "verif_replays:bootstrap_classification_unexpected", "args": [], "check": "result['exc'] is None"})
            return h.fail("C11.no_failure_other_than_call_validation", f"raised {res}")
        if not classification:
            pass
        rows = z3.And(*res.axis.facts())
        zR, dzR = t.gsum("R", keys, w.bw * w.tf)
        zT, dzT = t.gsum("T", keys, w.rw)
        zN, dzN = t.gsum("N", keys, w.wz)
        mR, dmR = t.gsum("R", keys, t.res)
        mT, dmT = t.gsum("T", keys, t.res)
        mN, dmN = t.gsum("N", keys, w.wyz)
        rN, drN = t.gsum("N", keys, t.res)
        pt = res.col("pred_turnout")
        # the units attributable to a group: third-frame units count for state/county/district groups, never for
        # classification groups (C01) -- numerator and denominator range over the SAME units (statement of C02)
        zT_attr = z3.RealVal(0) if classification else zT
        rp_id = lambda ev: {"target": "verif_replays:bootstrap_aggregate_identity_replay", "args": [], "check": "result['exc'] is None and result['ok']"}  # noqa: E731
        h.ensures("C02.pred_turnout_is_sum_of_unit_turnout", z3.Implies(rows, pt.t == zT_attr + zR + zN), replay=rp_id)
        num_pred = (mR if classification else mR + mT) + mN
        pm = res.col("pred_margin")
        top = (len(keys) == 1 and "postal_code" in keys) or (len(keys) == 2 and "postal_code" in keys and "district" in keys)
        den = zT_attr + zR + zN
        ratio = z3.If(den == 0, z3.RealVal(0), z3.ToReal(num_pred) / den) if z3.is_int(num_pred) else z3.If(den == 0, z3.RealVal(0), num_pred / den)
        if not top:
            h.ensures("C02.pred_margin_is_sum_of_unit_margins_over_turnout", z3.Implies(z3.And(rows, z3.Or(den != 0, num_pred == 0)), pm.t == ratio), replay=rp_id)
        # C01, margin estimand: the counted-votes column of a group is the live margin of its attributable units
        # divided by the group's predicted two-party turnout -- numerator and denominator over the SAME units
        num_res = (mR if classification else mR + mT) + rN
        rm = res.col("results_margin")
        ratio_res = z3.If(den == 0, z3.RealVal(0), (z3.ToReal(num_res) if z3.is_int(num_res) else num_res) / den)
        h.ensures("C01.results_margin_is_counted_margin_of_the_same_units_over_predicted_turnout", z3.Implies(z3.And(rows, z3.Or(den != 0, num_res == 0)), rm.t == ratio_res), replay=lambda ev: {"target": "verif_replays:bootstrap_counted_margin_replay", "args": [list(keys)], "check": "result['exc'] is None and result['ok']"})
        # lemma wavg_bounds (lean/FrameSums.lean): |Σ n_i| <= Σ d_i when |n_i| <= d_i pointwise
        for dn, dd, nm in ((dmR, dzR, "R"), (dmT, dzT, "T"), (dmN, dzN, "N")):
            lemma_abs(h, dn, dd, f"lemma.wavg_bounds.{nm}")
        h.ensures("pred_turnout_non_negative", z3.Implies(rows, pt.t >= 0))
        h.ensures("pred_margin_in_range", z3.Implies(rows, z3.And(-1 <= pm.t, pm.t <= 1)))
        h.ensures("no_nan", pm.nan is None and pt.nan is None)
        if top:
            called = self.attrs["aggregate_pred_margin"]
            gs = frames.keyspace(list(keys), {k: z3.StringSort() for k in keys})
            cname = gs.keyvars[keys[0]]
            for k in keys[1:]:
                cname = z3.Concat(cname, z3.StringVal("_"), gs.keyvars[k])
            L, Rr = lhs.mem()(cname), rhs.mem()(cname)
            h.ensures("C07.called_left_pred_at_least_threshold", z3.Implies(z3.And(rows, L), pm.t >= z3.RealVal("0.005")))
            h.ensures("C07.called_right_pred_at_most_threshold", z3.Implies(z3.And(rows, Rr), pm.t <= z3.RealVal("-0.005")))
            h.ensures("C07.uncalled_pred_unchanged", z3.Implies(z3.And(rows, z3.Not(L), z3.Not(Rr), z3.Or(den != 0, num_pred == 0)), pm.t == ratio))
            h.ensures("C08.summary_state_written_at_top_level", "aggregate_pred_margin" in self.written)
        else:
            h.ensures("C08.summary_state_not_touched_below_top_level", "aggregate_pred_margin" not in self.written and "aggregate_baseline_margin" not in self.written)

    return agg


def lemma_abs(h, dn, dd, name):
    """|Σ_A n| <= Σ_A d  when |n| <= d pointwise on A (same domain)"""
    if dn.space is not dd.space or not z3.eq(dn.dom, dd.dom):
        raise Exception("lemma_abs over different domains")
    sums._use("wavg_bounds")
    h.ctx.oblige(name + "/side.pointwise", z3.Implies(z3.And(*(dn.space.facts() + [dn.dom])), z3.And(dn.summand <= dd.summand, -dn.summand <= dd.summand)), kind="lemma-side")
    h.ctx.assume(z3.And(dn.sym <= dd.sym, -dn.sym <= dd.sym))


for _n, _k in AGGS.items():
    _boot_agg(_n, _k)


def _errors(h, w):
    t = w.t
    u = t.root.u
    I, R = z3.IntSort(), z3.RealSort()
    out = {}
    for i in (1, 2, 3, 4):
        fn = z3.Function(f"errors_B_{i}", I, I, R)
        out[f"errors_B_{i}"] = V(fn(u, w.draws.u), (t.nonrep.axis, w.draws))
    return out


@unit("C06", "unit_predictions", fns=[f"{BEM}.get_unit_predictions"])
def unit_predictions(h):
    """the unit-level column `pred_margin` that get_aggregate_predictions sums and the state the interval functions are
    centred on (weighted_yz_test_pred / weighted_z_test_pred) are assumed to be ONE array in the aggregate units above
    (BootWorld): this is the contract of get_unit_predictions that discharges it -- on both paths (bootstrap already run /
    run now) the REAL function returns exactly the model's state, entry by entry"""
    w = BootWorld(h)
    t = w.t
    u = t.root.u
    ran = h.bool("ran_bootstrap")
    fresh_yz = z3.Function("weighted_yz_test_pred_of_this_run", z3.IntSort(), z3.RealSort())(u)
    fresh_z = z3.Function("weighted_z_test_pred_of_this_run", z3.IntSort(), z3.RealSort())(u)
    calls = []

    def cbe_contract(interp, self_, reporting_units, nonreporting_units, unexpected_units):
        # post-state of compute_bootstrap_errors (unit bootstrap_tail.ranges): the two prediction arrays, one entry per
        # outstanding unit, and the flag
        calls.append((reporting_units, nonreporting_units, unexpected_units))
        self_.attrs["weighted_yz_test_pred"] = V(fresh_yz, (t.nonrep.axis, ONE))
        self_.attrs["weighted_z_test_pred"] = V(fresh_z, (t.nonrep.axis, ONE))
        self_.attrs["ran_bootstrap"] = True
        return None

    h.contracts[f"{BEM}.compute_bootstrap_errors"] = cbe_contract
    self = w.model(ran_bootstrap=ran)
    rp = lambda ev: {"target": "verif_replays:bootstrap_unit_predictions_replay", "args": [], "check": "result['exc'] is None and result['ok']"}  # noqa: E731
    h.default_replay = rp
    kind, res = h.call_method(self, "get_unit_predictions", t.rep, t.nonrep, "margin", unexpected_units=t.third)
    if kind == "raise":
        return h.fail("no_raise", f"raised {res}", replay=rp)
    h.ensures("two_arrays", isinstance(res, tuple) and len(res) == 2 and all(isinstance(x, V) for x in res), replay=rp)
    pm, pz = res
    rows = z3.And(*t.nonrep.axis.facts())
    st_yz, st_z = self.attrs["weighted_yz_test_pred"], self.attrs["weighted_z_test_pred"]
    from pyvc.values import same_axis

    h.ensures("one_entry_per_outstanding_unit", len(pm.axes) >= 1 and same_axis(pm.axes[0], t.nonrep.axis) and len(pz.axes) >= 1 and same_axis(pz.axes[0], t.nonrep.axis), replay=rp)
    h.ensures("unit_margin_is_the_state_the_aggregate_functions_use", z3.Implies(rows, pm.t == st_yz.t), replay=rp)
    h.ensures("unit_turnout_is_the_state_the_aggregate_functions_use", z3.Implies(rows, pz.t == st_z.t), replay=rp)
    h.ensures("no_missing_values_introduced", pm.nan is None and pz.nan is None, replay=rp)
    h.ensures("bootstrap_is_run_exactly_when_it_has_not_been", z3.Implies(z3.BoolVal(bool(calls)), z3.Not(ran.t if isinstance(ran, V) else ran)) if calls else (ran.t if isinstance(ran, V) else ran), replay=rp)
    if calls:
        h.ensures("bootstrap_is_run_on_the_three_frames_of_this_call", calls[0][0] is t.rep and calls[0][1] is t.nonrep and calls[0][2] is t.third, replay=rp)


@unit("C06", "unit_intervals", fns=[f"{BEM}.get_unit_prediction_intervals"])
def unit_intervals(h):
    w = BootWorld(h)
    t = w.t
    reg = {}
    h.contracts[f"{BEM}._get_quantiles"] = quantiles_contract(reg)
    self = w.model(**_errors(h, w))
    a, b = h.real("alpha_a"), h.real("alpha_b")
    h.requires("levels", 0 < a, a < b, b < 1)
    k1, ra = h.call_method(self, "get_unit_prediction_intervals", t.rep, t.nonrep, a, "margin")
    k2, rb = h.call_method(self, "get_unit_prediction_intervals", t.rep, t.nonrep, b, "margin")
    if k1 == "raise" or k2 == "raise":
        return h.fail("no_raise", f"raised {ra if k1 == 'raise' else rb}")
    rows = z3.And(*t.nonrep.axis.facts())
    h.ensures("lower_le_upper", z3.Implies(rows, z3.And(ra.lower.t <= ra.upper.t, rb.lower.t <= rb.upper.t)))
    h.ensures("nested_by_level", z3.Implies(rows, z3.And(rb.lower.t <= ra.lower.t, ra.upper.t <= rb.upper.t)))
    h.ensures("shape", ra.lower.axes == (t.nonrep.axis, ONE) and ra.upper.axes == (t.nonrep.axis, ONE))
    h.ensures("whole_numbers", z3.Implies(rows, z3.And(z3.IsInt(ra.lower.t), z3.IsInt(ra.upper.t))))


def _boot_int(aggname, keys):
    @unit("C06", f"aggregate_intervals.{aggname}", fns=[f"{BEM}.get_aggregate_prediction_intervals", f"{BEM}.get_aggregate_predictions", f"{BEM}._is_top_level_aggregate"])
    def ints(h):
        w = BootWorld(h)
        t = w.t
        reg = {}
        h.contracts[f"{BEM}._get_quantiles"] = quantiles_contract(reg)
        h.contracts[f"{BEM}._format_called_contests"] = format_contract
        self = w.model(**_errors(h, w))
        lhs, rhs, stop = symlist(h, "lhs"), symlist(h, "rhs"), symlist(h, "stop")
        for k in keys[1:]:
            if k != "county_classification":
                h.forall_rows(t.root, z3.Not(t.knullT[k]))
        kind, est = h.call_method(self, "get_aggregate_predictions", t.rep, t.nonrep, t.third, list(keys), "margin", lhs_called_contests=lhs, rhs_called_contests=rhs)
        if kind == "raise":
            return h.ensures("predictions_raise_only_through_call_validation", res_is_validation(est))
        a, b = h.real("alpha_a"), h.real("alpha_b")
        h.requires("levels", 0 < a, a < b, b < 1)
        out = []
        for al in (a, b):
            kind, r = h.call_method(self, "get_aggregate_prediction_intervals", t.rep, t.nonrep, t.third, list(keys), al, None, "margin", lhs_called_contests=lhs, rhs_called_contests=rhs, stop_model_call=stop)
            if kind == "raise":
                return h.ensures("intervals_raise_only_through_call_validation", res_is_validation(r))
            out.append(r)
        ra, rb = out
        # w*y*z of a reporting unit IS its counted margin (C09 derived quantities): the interval function sums the
        # former, the estimates table the latter -- lemma sum_congr_dom links the two group sums
        mR_spec, dR_spec = t.gsum("R", keys, t.res)
        for d in list(h.ctx.__dict__.get("_sums", [])):
            if d.space is t.root and z3.eq(d.dom, dR_spec.dom) and all(n in str(d.summand) for n in ("results_normalized_margin", "baseline_weights", "turnout_factor")) and "errors_B" not in str(d.summand):
                sums.lemma_sum_congr(h.ctx, d, dR_spec, name="lemma.sum_congr.reporting_margin")
        # |Σ margin| <= Σ turnout per frame (lemma wavg_bounds), so a zero denominator comes with a zero numerator
        for fr_, n_, d_ in (("R", t.res, w.bw * w.tf), ("T", t.res, w.rw), ("N", w.wyz, w.wz)):
            _, dn = t.gsum(fr_, keys, n_)
            _, dd = t.gsum(fr_, keys, d_)
            lemma_abs(h, dn, dd, f"lemma.wavg_bounds.{fr_}")
        top = (len(keys) == 1 and "postal_code" in keys) or (len(keys) == 2 and "postal_code" in keys and "district" in keys)
        pm = est.col("pred_margin")
        rows = z3.And(*est.axis.facts())
        gs = frames.keyspace(list(keys), {k: z3.StringSort() for k in keys})
        cname = gs.keyvars[keys[0]]
        for k in keys[1:]:
            cname = z3.Concat(cname, z3.StringVal("_"), gs.keyvars[k])
        from pyvc.values import same_axis

        h.ensures("C02.interval_rows_are_the_rows_of_the_estimates_table", same_axis(ra.lower.axes[0], est.axis) and same_axis(ra.upper.axes[0], est.axis))
        lo_a, up_a, lo_b, up_b = ra.lower.t, ra.upper.t, rb.lower.t, rb.upper.t
        if top:
            L, Rr, S = lhs.mem()(cname), rhs.mem()(cname), stop.mem()(cname)
        else:
            L = Rr = S = z3.BoolVal(False)
        free = z3.And(z3.Not(L), z3.Not(Rr), z3.Not(S))
        rpn = lambda ev: {"target": "verif_replays:bootstrap_interval_nesting_replay", "args": [], "check": "result['exc'] is None and result['ok']"}  # noqa: E731
        h.ensures("uncalled_straddle", z3.Implies(z3.And(rows, free), z3.And(lo_a < pm.t, pm.t < up_a, lo_b < pm.t, pm.t < up_b)), replay=rpn)
        h.ensures("uncalled_nested_by_level", z3.Implies(z3.And(rows, free), z3.And(lo_b <= lo_a, up_a <= up_b)), replay=rpn)
        h.ensures("lower_le_upper_unless_called_or_stopped", z3.Implies(z3.And(rows, free), lo_a <= up_a))
        if top:
            for nm, lo, up in (("a", lo_a, up_a), ("b", lo_b, up_b)):
                h.ensures(f"C07.called_left_lower_not_negative_unless_stopped[{nm}]", z3.Implies(z3.And(rows, L, z3.Not(S)), lo >= 0))
                h.ensures(f"C07.called_right_upper_not_positive_unless_stopped[{nm}]", z3.Implies(z3.And(rows, Rr, z3.Not(S)), up <= 0))
                if h.udesc["prop"] == "C07":
                    # the literal right-hand clause of the statement (no 'unless stop-listed'): a recorded known finding
                    h.ensures(f"C07.called_right_upper_not_positive_literal[{nm}]", z3.Implies(z3.And(rows, Rr), up <= 0), replay=lambda ev: {"target": "verif_replays:called_and_stopped", "args": [], "check": "result['upper'] <= 0"})
                h.ensures(f"C07.stopped_uncalled_interval_contains_zero[{nm}]", z3.Implies(z3.And(rows, S, z3.Not(L), z3.Not(Rr)), z3.And(lo <= 0, 0 <= up)), replay=lambda ev: {"target": "verif_replays:stopped_thin_race_replay", "args": ["left" if (ev(lo) or 0) > 0 else "right"], "check": "result['exc'] is None and result['ok']"})
            h.ensures("C08.summary_state_written_at_top_level", "called_contests" in self.written and "stop_model_call" in self.written)
        else:
            h.ensures("C08.call_state_not_touched_below_top_level", "called_contests" not in self.written and "stop_model_call" not in self.written and "aggregate_pred_margin" not in self.written)
        h.ensures("C08.bootstrap_error_state_owner", ("divided_error_B_1" in self.written) == top, why="divided_error_B_1/2 are what get_national_summary_estimates reads: they must describe the top-level contests, so only a top-level call may write them")

    return ints


def res_is_validation(exc):
    return exc.clsname == "BootstrapElectionModelException"


for _n, _k in AGGS.items():
    _boot_int(_n, _k)
