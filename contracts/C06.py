"""C06 -- bootstrap intervals ordered, nested by level, margins in [-1,1].  See DESIGN.md section 4 (C06)."""
import z3

from pyvc.api import unit
from pyvc.values import V, at_u2

BEM = "elexmodel.models.BootstrapElectionModel.BootstrapElectionModel"
LEVEL = "proof"
ASSUMPTIONS = ["A-REAL: python/numpy floats are treated as mathematical reals"]


def _replay_quantiles(alpha, B, check):
    def rp(ev):
        return {
            "target": f"elexmodel.models.BootstrapElectionModel:BootstrapElectionModel._get_quantiles",
            "self": {"class": "elexmodel.models.BootstrapElectionModel:BootstrapElectionModel", "init": None, "attrs": {"B": ev(B)}},
            "args": [ev(alpha)],
            "check": check,
        }

    return rp


@unit("C06", "ranks", fn=f"{BEM}._get_quantiles")
def ranks(h):
    alpha = h.real("alpha")
    B = h.int("B")
    k = h.int("k_parity")  # ghost: parity witness, makes the floor/ceil arithmetic linear for z3
    h.requires("alpha_open", 0 < alpha, alpha < 1)
    h.requires("B_ge_2", B >= 2)
    h.requires("ghost_parity", (B == 2 * k) | (B == 2 * k + 1))
    self = h.obj(BEM, B=B)
    kind, res = h.call_method(self, "_get_quantiles", alpha)
    if kind == "raise":
        return h.fail("no_raise", f"raised {res}")
    lo, hi = res
    rp = _replay_quantiles(alpha, B, "exc is None and 0 <= result[0] <= result[1] <= 1 and result[1] <= (self_obj.B-1)/self_obj.B")
    h.ensures("valid", (0 <= lo) & (lo <= hi) & (hi <= 1), replay=rp)
    h.ensures("upper_below_one", hi * B <= B - 1, replay=rp)


@unit("C06", "ranks_monotone", fn=f"{BEM}._get_quantiles")
def ranks_monotone(h):
    a = h.real("alpha_a")
    b = h.real("alpha_b")
    B = h.int("B")
    h.requires("levels", 0 < a, a < b, b < 1)
    h.requires("B_ge_2", B >= 2)
    self = h.obj(BEM, B=B)
    k1, ra = h.call_method(self, "_get_quantiles", a)
    k2, rb = h.call_method(self, "_get_quantiles", b)
    if k1 == "raise" or k2 == "raise":
        return h.fail("no_raise", "raised")

    def rp(ev):
        return {
            "target": f"elexmodel.models.BootstrapElectionModel:BootstrapElectionModel._get_quantiles",
            "self": {"class": "elexmodel.models.BootstrapElectionModel:BootstrapElectionModel", "init": None, "attrs": {"B": ev(B)}},
            "args": [ev(a)],
            "setup": f"B_={ev(B)}; b_={ev(b)!r}",
            "check": "(lambda rb: rb[0] <= result[0] and result[1] <= rb[1])(type(self_obj)._get_quantiles(self_obj, b_))",
        }

    h.ensures("nested_ranks", (rb[0] <= ra[0]) & (ra[1] <= rb[1]), replay=rp)
