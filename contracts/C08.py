"""C08 -- the national summary is bounded, ordered, and depends only on the contests (DESIGN section 4, C08)."""
import z3

import contracts.C06 as C06
from pyvc import frames, sums
from pyvc.api import UNITS, unit
from pyvc.theory_misc import SymDict
from pyvc.values import ONE, Space, V

BEM = C06.BEM
LEVEL = "proof"
MRH = "elexmodel.handlers.data.ModelResults.ModelResultsHandler"
ASSUMPTIONS = [
    "A-REAL; the keys of the weight dictionary are the contest names (the code checks only its size): stated precondition",
    "weights are non-negative",
    "np.argsort / fancy indexing contracts: a column selected at a valid position of [B_1 | B_2] is SOME bootstrap column (arbitrary)",
    "nat_sum_data_dict=None (equal weights): units summary.*.no_weight_dictionary ({i: 1 for i in range(n)} as a dict with n entries in index order)",
]

# typestate: which calls write the state the summary reads (proved on the real aggregate functions)
for _u in list(UNITS.get("C06", [])):
    if _u["name"].startswith("aggregate_intervals.") or _u["name"].startswith("aggregate_predictions."):
        UNITS.setdefault("C08", []).append(dict(_u, prop="C08", name="typestate." + _u["name"]))


def _setup(h, hard, corr, with_calls=True):
    C = Space("contests")
    h.syms["n_contests"] = C.n
    h.ctx.assume(z3.And(*C.facts()))
    B = h.int("B")
    h.requires("B_ge_2", B >= 2)
    D = Space("draws", n=B.t)
    h.ctx.assume(z3.And(*D.facts()))
    I, R = z3.IntSort(), z3.RealSort()

    def arr2(name):
        f = z3.Function(name, I, I, R)
        h.syms[name] = f
        return V(f(C.u, D.u), (C, D))

    def arr1(name, sort=R):
        f = z3.Function(name, I, sort)
        h.syms[name] = f
        return f(C.u)

    e1, e2 = arr2("divided_error_B_1"), arr2("divided_error_B_2")
    pm = arr1("aggregate_pred_margin")
    called = arr1("called", I)
    stop = arr1("stop", z3.BoolSort())
    wt = arr1("weight")
    h.requires("called_values", z3.Or(called == 1, called == 0, called == -1))
    x = z3.Int("x!c")
    h.ctx.assume(z3.ForAll([x], z3.Implies(z3.And(x >= 0, x < C.n), z3.substitute(wt >= 0, (C.u, x)))))
    h.requires("weights_non_negative", wt >= 0)
    attrs = dict(B=B, T=h.real("T"), hard_threshold=hard, national_summary_correlation=corr, divided_error_B_1=e1, divided_error_B_2=e2, aggregate_pred_margin=V(pm, (C, ONE)), called_contests=V(called, (C, ONE)) if with_calls else None, stop_model_call=V(stop, (C, ONE)) if with_calls else None)
    from contracts.common import init_defaults

    self = h.obj(BEM, **{**init_defaults(BEM), **attrs})
    reg = {}
    h.contracts[f"{BEM}._get_quantiles"] = C06.quantiles_contract(reg)
    ndict = h.int("n_dict")
    h.requires("dict_size", ndict >= 0)
    d = SymDict(C, ndict.t, wt)
    return self, C, D, d, ndict, dict(pm=pm, called=called, stop=stop, wt=wt, e1=e1, e2=e2, B=B)


def _summary(hard, corr, name, none=False):
    @unit("C08", f"summary.{name}", fns=[f"{BEM}.get_national_summary_estimates"])
    def summary(h, name=name):
        self, C, D, d, ndict, s = _setup(h, hard, corr)
        alpha = h.real("alpha")
        h.requires("alpha_open", 0 < alpha, alpha < 1)
        base = h.real("base_to_add")
        if none:
            # no weight dictionary (Senate / House): the function builds {i: 1 for i in range(#contests)} itself -- every
            # contest weighs 1 and the size check can never fire
            s["wt"] = z3.IntVal(1)
            h.requires("no_dictionary_so_its_size_is_the_number_of_contests", ndict.t == C.n)
            d = None
        # scenario for the paths that leave the subset: non-monotone weights, a contest whose margin is exactly 0
        h.default_replay = (lambda ev: {"target": "verif_replays:national_summary_weights_replay", "args": [bool(corr)], "check": "result['exc'] is None and result['ok']"}) if hard else (lambda ev: {"target": "verif_replays:national_summary_function", "args": [bool(corr), bool(hard)], "check": "result['exc'] is None and result['lower'] <= result['pred'] <= result['upper']"})
        kind, res = h.call_method(self, "get_national_summary_estimates", d, base, alpha)
        wrong = ndict.t != C.n
        rps = lambda ev: {"target": "verif_replays:national_summary_dict_size_replay", "args": [bool(corr), bool(hard)], "check": "result['exc'] is None and result['ok']"}  # noqa: E731
        if kind == "raise":
            h.ensures("raises_only_the_dedicated_error", res.clsname == "BootstrapElectionModelException", why=f"raised {res}", replay=rps)
            h.ensures("raises_only_on_a_wrong_size_dictionary", wrong, replay=rps)
            return
        h.ensures("accepts_only_a_right_size_dictionary", z3.Not(wrong), replay=rps)
        pred, lower, upper = res["margin"]
        wt, pm = s["wt"], s["pm"]
        tot, dtot = sums.formal_sum_dom(h.ctx, C, z3.BoolVal(True), wt)
        sums.lemma_sum_nonneg(h.ctx, dtot, name="lemma.total_weight_nonneg")

        def rp(ev):
            return {"target": "verif_replays:national_summary_function", "args": [bool(corr), bool(hard)], "check": "result['exc'] is None and result['lower'] <= result['pred'] <= result['upper']"}

        if hard:
            win, dwin = sums.formal_sum_dom(h.ctx, C, z3.BoolVal(True), wt * z3.If(pm > 0, 1, 0))
            from pyvc.theory_np import round_half_even_t

            h.ensures("pred_is_base_plus_weights_of_contests_with_positive_margin", pred.t == z3.ToReal(round_half_even_t((win + base.t) * 100)) / 100, replay=lambda ev: {"target": "verif_replays:national_summary_weights_replay", "args": [bool(corr)], "check": "result['exc'] is None and result['ok']"})
        # ordering lower <= pred <= upper: the uncertainty terms Σ w*losses and Σ w*gains must be non-negative
        # (lemma sum_nonneg; its pointwise side condition is the real content: no contest may carry a NEGATIVE
        # potential loss or gain)
        unc = [dd for dd in list(h.ctx.__dict__.get("_sums", [])) if dd.space is C and (none or "weight" in str(dd.summand)) and dd is not dtot and ("called" in str(dd.summand) or "stop" in str(dd.summand))]
        h.ensures("two_uncertainty_terms", len(unc) == 2)
        for i, dd in enumerate(unc):
            side = "losses" if i == 0 else "gains"
            h.ctx.oblige(f"C08.summary.{name}.ordering.potential_{side}_never_negative", z3.Implies(z3.And(*C.facts()), dd.summand >= 0), kind="ensures", replay=rp, why="a contest with a negative potential loss/gain pushes the bound to the wrong side of the prediction")
            h.ctx.assume(dd.sym >= 0)
            sums._use("sum_mono (against 0)")
        h.ensures("lower_le_pred_le_upper", z3.And(lower.t <= pred.t, pred.t <= upper.t), replay=rp)
        # called contests contribute no uncertainty (unless they are also stop-listed)
        for i, dd in enumerate(unc):
            h.ensures(f"called_contests_contribute_no_uncertainty[{'losses' if i == 0 else 'gains'}]", z3.Implies(z3.And(*C.facts(), s["called"] != -1, z3.Not(s["stop"])), dd.summand == 0), replay=lambda ev: {"target": "verif_replays:called_contests_no_uncertainty_replay", "args": [bool(corr), bool(hard)], "check": "result['exc'] is None and result['ok']"})
        if hard:
            for i, dd in enumerate(unc):
                # losses only among predicted winners, gains only among predicted losers, each at most the weight
                lim = wt * z3.If(pm > 0, 1, 0) if i == 0 else wt * z3.If(pm > 0, 0, 1)
                h.ensures(f"threshold_mode.{'losses' if i == 0 else 'gains'}_bounded_by_own_side", z3.Implies(z3.And(*C.facts()), dd.summand <= lim))
            lose, dlose = sums.formal_sum_dom(h.ctx, C, z3.BoolVal(True), wt * z3.If(pm > 0, 0, 1))
            # Σ w [m>0] + Σ w [m<=0] = Σ w ; the two uncertainty sums are bounded by the two halves (sum_mono)
            h.ctx.oblige(f"C08.summary.{name}.lemma.split_total/side.pointwise", z3.Implies(z3.And(*C.facts()), dwin.summand + dlose.summand == wt), kind="lemma-side")
            h.ctx.assume(win + lose == tot)
            h.ctx.assume(z3.And(win >= 0, lose >= 0))
            h.ctx.oblige(f"C08.summary.{name}.lemma.split_nonneg/side.pointwise", z3.Implies(z3.And(*C.facts()), z3.And(dwin.summand >= 0, dlose.summand >= 0)), kind="lemma-side")
            h.ctx.assume(z3.And(unc[0].sym <= win, unc[1].sym <= lose))
            from pyvc.theory_np import round_half_even_t as rh

            lo_b = z3.ToReal(rh(base.t * 100)) / 100
            hi_b = z3.ToReal(rh((base.t + tot) * 100)) / 100
            h.ensures("threshold_mode.all_three_within_base_and_total_weight", z3.And(lo_b <= lower.t, lower.t <= pred.t, pred.t <= upper.t, upper.t <= hi_b))

    return summary


@unit("C08", "summary.second_call_with_other_weights", fns=[f"{BEM}.get_national_summary_estimates"])
def summary_twice(h):
    """'depends only on the contests': the summary is asked twice on ONE model object with two different weight dictionaries
    (first a count of contests won, then electoral votes): the second answer is base + the SECOND dictionary's weights of
    the contests with a positive margin (threshold mode)"""
    from pyvc.theory_np import round_half_even_t

    self, C, D, d, ndict, s = _setup(h, True, False)
    h.requires("right_size", ndict.t == C.n)
    alpha = h.real("alpha")
    h.requires("alpha_open", 0 < alpha, alpha < 1)
    wt2 = z3.Function("weight_second_call", z3.IntSort(), z3.RealSort())(C.u)
    h.requires("second_weights_non_negative", wt2 >= 0)
    d2 = SymDict(C, ndict.t, wt2)
    base1, base2 = h.real("base_first_call"), h.real("base_second_call")
    rp = lambda ev: {"target": "verif_replays:national_summary_two_calls_replay", "args": [], "check": "result['exc'] is None and result['ok']"}  # noqa: E731
    h.default_replay = rp
    k1, r1 = h.call_method(self, "get_national_summary_estimates", d, base1, alpha)
    if k1 == "raise":
        return h.fail("first_call.no_raise", f"raised {r1}", replay=rp)
    k2, r2 = h.call_method(self, "get_national_summary_estimates", d2, base2, alpha)
    if k2 == "raise":
        return h.fail("second_call.no_raise", f"raised {r2}", replay=rp)
    pred2 = r2["margin"][0]
    win2, _ = sums.formal_sum_dom(h.ctx, C, z3.BoolVal(True), wt2 * z3.If(s["pm"] > 0, 1, 0))
    h.ensures("second_call.pred_is_base_plus_the_second_dictionarys_weights_of_contests_with_positive_margin", pred2.t == z3.ToReal(round_half_even_t((win2 + base2.t) * 100)) / 100, replay=rp)


for _hard, _corr, _nm in ((True, True, "threshold.correlated"), (True, False, "threshold.independent"), (False, True, "sigmoid.correlated"), (False, False, "sigmoid.independent")):
    _summary(_hard, _corr, _nm)
    _summary(_hard, _corr, _nm + ".no_weight_dictionary", none=True)
