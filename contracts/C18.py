"""C18 -- nothing is persisted unless asked; results saved before a too-few-units error (DESIGN section 4, C18)."""
import ast

import z3

from pyvc import effects, frames, source
from pyvc.api import unit
from pyvc.values import Obj, V

LEVEL = "proof"
CL = "elexmodel.client.ModelClient"
CDH = "elexmodel.handlers.data.CombinedData.CombinedDataHandler"
MRH = "elexmodel.handlers.data.ModelResults.ModelResultsHandler"
GM = "elexmodel.distributions.GaussianModel.GaussianModel"
ASSUMPTIONS = [
    "call resolution of the guard derivation is by name with receiver-class inference (a sound over-approximation of dynamic dispatch inside the package); calls that leave the package are effect-free unless they are one of the sink primitives: <client>.put_object, open(.., 'w'/'a'), json.dump, DataFrame.to_csv(<path>), os.makedirs",
    "key components (election id, office, unit type, estimand, aggregate name, level) contain no whitespace: precondition on the caller's arguments",
    "boto3 / the file system are not modelled beyond 'this call persists something'",
]

W = ("'w'", '"w"', "'a'", '"a"', "'wb'", '"wb"')


def sink_sites(fi):
    out = []
    for n in ast.walk(fi.node):
        if not isinstance(n, ast.Call):
            continue
        t = ast.unparse(n.func)
        if t.endswith("put_object"):
            out.append((n, "remote", t))
        elif t == "open":
            mode = ast.unparse(n.args[1]) if len(n.args) > 1 else next((ast.unparse(k.value) for k in n.keywords if k.arg == "mode"), "'r'")
            if mode in W:
                out.append((n, "local", "open(w)"))
        elif t in ("json.dump", "os.makedirs", "os.mkdir", "shutil.copy", "pickle.dump"):
            out.append((n, "local", t))
        elif t.endswith(".to_csv") or t.endswith(".to_json") or t.endswith(".to_parquet") or t.endswith(".to_pickle"):
            # writing to an in-memory buffer created in the same function is not persistence
            a0 = n.args[0] if n.args else None
            buf = isinstance(a0, ast.Name) and any(isinstance(x, ast.Assign) and any(isinstance(tg, ast.Name) and tg.id == a0.id for tg in x.targets) and "StringIO" in ast.unparse(x.value) for x in ast.walk(fi.node))
            if a0 is not None and not buf:
                out.append((n, "local", t))
        elif t.endswith("upload_file") or t.endswith("upload_fileobj") or t.endswith("put_item"):
            out.append((n, "remote", t))
    return out


def to_z3(e, atoms):
    """python boolean expression -> z3 formula over atoms named by their source text"""
    if isinstance(e, ast.BoolOp):
        parts = [to_z3(v, atoms) for v in e.values]
        return z3.And(*parts) if isinstance(e.op, ast.And) else z3.Or(*parts)
    if isinstance(e, ast.UnaryOp) and isinstance(e.op, ast.Not):
        return z3.Not(to_z3(e.operand, atoms))
    if isinstance(e, ast.Constant):
        return z3.BoolVal(bool(e.value))
    if isinstance(e, (ast.List, ast.Tuple, ast.Dict, ast.Set)):
        n = len(e.elts) if not isinstance(e, ast.Dict) else len(e.keys)
        return z3.BoolVal(n > 0)
    txt = ast.unparse(e)
    if txt not in atoms:
        atoms[txt] = z3.Bool(f"atom[{txt}]")
    return atoms[txt]


NONLOCAL = "APP_ENV != 'local'"


def opt(name):
    return f"'{name}' in kwargs.get('save_output', ['results'])"


@unit("C18", "guards.get_estimates", fns=[f"{CL}.get_estimates", f"{CDH}.write_data", f"{MRH}.write_data", f"{GM}.fit", f"{GM}._write_conformalization_data", f"{GM}._write_gaussian_bounds", "elexmodel.handlers.config.ConfigHandler.__init__", "elexmodel.handlers.config.ConfigHandler.save", "elexmodel.handlers.data.PreprocessedData.PreprocessedDataHandler.save_data", "elexmodel.handlers.s3.S3Util.put"])
def guards(h):
    idx = effects.Index()
    paths = effects.find_paths(idx, f"{CL}.get_estimates", sink_sites)
    h.ensures("sink_inventory_not_empty", len(paths) >= 5, why=f"{len(paths)} sink paths")
    seen = set()
    for p in paths:
        atoms = {}
        g = z3.And(*[to_z3(e, atoms) if pol else z3.Not(to_z3(e, atoms)) for e, pol in p.guards]) if p.guards else z3.BoolVal(True)
        chain = " > ".join(".".join(c.split(".")[-2:]) for c in p.chain)

        def atom(txt):
            if txt not in atoms:
                atoms[txt] = z3.Bool(f"atom[{txt}]")
            return atoms[txt]

        if "CombinedDataHandler.write_data" in chain or "ModelResultsHandler.write_data" in chain:
            need, what = z3.And(atom(NONLOCAL), atom(opt("results"))), "live results / prediction tables: only outside the local environment and only with 'results'"
        elif "GaussianModel._write_" in chain:
            need, what = z3.And(atom("self.save_conformalization")), "conformalization data: only when requested"
        elif "ConfigHandler.save" in chain:
            need, what = atom(opt("config")), "config file: only with 'config'"
        elif "PreprocessedDataHandler.save_data" in chain:
            need, what = atom(opt("data")), "preprocessed data file: only with 'data'"
        else:
            need, what = z3.BoolVal(False), "a persistence site that the statement does not allow at all"
        name = f"guard[{chain} :: {p.detail}]"
        if name in seen:
            continue
        seen.add(name)
        h.lemma(name, z3.Implies(g, need))
        # with no options nothing is written anywhere: every guard is false when all four options are absent
        none = z3.And(*[z3.Not(atom(opt(o))) for o in ("results", "data", "config", "conformalization")], atom("self.save_conformalization") == atom(opt("conformalization")))
        h.lemma(f"silent_without_options[{chain} :: {p.detail}]", z3.Implies(none, z3.Not(g)))


@unit("C18", "guards.national_summary", fns=[f"{CL}.get_national_summary_votes_estimates"])
def guards_summary(h):
    idx = effects.Index()
    paths = effects.find_paths(idx, f"{CL}.get_national_summary_votes_estimates", sink_sites)
    h.ensures("sink_inventory_not_empty", len(paths) >= 1)
    seen = set()
    for p in paths:
        atoms = {}
        g = z3.And(*[to_z3(e, atoms) if pol else z3.Not(to_z3(e, atoms)) for e, pol in p.guards]) if p.guards else z3.BoolVal(True)
        chain = " > ".join(".".join(c.split(".")[-2:]) for c in p.chain)
        need = z3.And(atoms.get(NONLOCAL, z3.BoolVal(False)), atoms.get("self.save_results", z3.BoolVal(False))) if "ModelResultsHandler.write_data" in chain else z3.BoolVal(False)
        name = f"guard[{chain} :: {p.detail}]"
        if name not in seen:
            seen.add(name)
            h.lemma(name, z3.Implies(g, need))
    # self.save_results is only ever set from the 'results' option (or None before the first run)
    assigns = [ast.unparse(v) for fi, v in effects._attr_single_assign(idx, "ModelClient", "save_results")]
    h.ensures("save_results_flag_is_the_results_option", sorted(assigns) == sorted(["None", "'results' in save_output"]), why=str(assigns))


@unit("C18", "conformalization_flag", fns=[f"{CL}.get_estimates", f"{GM}.__init__", "elexmodel.models.GaussianElectionModel.GaussianElectionModel.__init__"])
def conformalization_flag(h):
    """the flag guarding the gaussian writes IS the 'conformalization' option: the real statements of get_estimates that
    build model_settings are executed, then the real __init__ chain of the estimator and of GaussianModel"""
    want = h.bool("conformalization_requested")
    import pyvc.seq as seq

    class Opts:
        """save_output: only membership tests are made"""

        def pyvc_contains(self, interp, x):
            if x == "conformalization":
                return want
            return V(z3.Bool(f"opt_{x}"))

    class KW(dict):
        pass

    kw = {"save_output": Opts()}
    self = h.obj(CL)
    kind, env = h.slice(f"{CL}.get_estimates", first_assign="features", last_assign="model_settings", env={"self": self, "kwargs": kw, "office": "S", "election_id": "e", "geographic_unit_type": "county", "model_parameters": {}})
    if kind == "raise":
        return h.fail("settings.no_raise", f"raised {env}")
    ms = env["model_settings"]
    import contracts.C03 as C03
    from pyvc.interp import ClassRef

    for cls in (C03.GA,):
        parts = cls.split(".")
        mod = source.module(".".join(parts[:-1]))
        model = ClassRef(mod, mod.classes[parts[-1]]).instantiate(h.interp, [], {"model_settings": ms})
        gmod = source.module("elexmodel.distributions.GaussianModel")
        gm = ClassRef(gmod, gmod.classes["GaussianModel"]).instantiate(h.interp, [model.attrs["model_settings"]], {})
        flag = gm.attrs["save_conformalization"]
        h.ensures("gaussian_write_flag_equals_the_option", isinstance(flag, V) and z3.eq(flag.t, want.t), why=f"flag = {flag!r}")


@unit("C18", "order.results_saved_before_the_gate", fns=[f"{CL}.get_estimates"])
def order(h):
    fs = source.load(f"{CL}.get_estimates")
    body = fs.node.body
    iw = ir = None
    for i, st in enumerate(body):
        if isinstance(st, ast.If) and any(isinstance(n, ast.Call) and ast.unparse(n.func).endswith("data.write_data") for n in ast.walk(st)) and iw is None:
            iw = i
            test = ast.unparse(st.test)
        if ir is None and any(isinstance(n, ast.Raise) and n.exc is not None and "ModelNotEnoughSubunitsException" in ast.unparse(n.exc) for n in ast.walk(st)):
            ir = i
    h.ensures("both_statements_are_top_level_statements_of_get_estimates", iw is not None and ir is not None, why=f"write at {iw}, raise at {ir}")
    if iw is None or ir is None:
        return
    h.ensures("live_results_are_written_before_the_gate", iw < ir, why=f"write_data is top-level statement #{iw}, the gate is #{ir}", replay=lambda ev: {"target": "verif_replays:results_saved_before_gate_replay", "args": [], "check": "result['exc'] is None and result['ok']"})
    between = body[iw + 1 : ir]
    h.ensures("nothing_between_them_can_leave_the_function", not any(isinstance(n, (ast.Return, ast.Raise)) for st in between for n in ast.walk(st)))
    h.ensures("write_guard_is_exactly_nonlocal_and_results", test == "APP_ENV != 'local' and self.save_results", why=test, replay=lambda ev: {"target": "verif_replays:results_saved_before_gate_replay", "args": [], "check": "result['exc'] is None and result['ok']"})


class FakeS3:
    """contract of s3.S3CsvUtil(bucket): put(key, data) persists one object under `key` (recorded)"""

    def __init__(self, log):
        self.log = log

    def pyvc_getattr(self, interp, name):
        if name == "put":
            return lambda path, data, **k: self.log.append(path)
        raise Exception(name)


def _components(h, names):
    out = {}
    for n in names:
        s = h.string(n)
        for ws in (" ", "\t", "\n", "\r"):
            h.requires("no_whitespace", V(z3.Not(z3.Contains(s.t, z3.StringVal(ws)))))
        out[n] = s
    return out


def _pieces(t):
    """flatten a z3 string concatenation"""
    if z3.is_app(t) and t.decl().kind() == z3.Z3_OP_SEQ_CONCAT:
        out = []
        for c in t.children():
            out += _pieces(c)
        return out
    return [t]


def _key_obligations(h, name, key, root, election_id):
    kt = key.t if isinstance(key, V) else z3.StringVal(key)
    ps = _pieces(kt)
    # a whitespace character cannot straddle two pieces: the key is whitespace-free iff every piece is
    conds = []
    for p in ps:
        for ws in (" ", "\t", "\n", "\r"):
            conds.append(z3.Not(z3.Contains(p, z3.StringVal(ws))))
    h.ensures(f"{name}.no_whitespace", z3.And(*conds), why=f"key = {kt}")
    prefix = z3.Concat(z3.StringVal(root + "/"), election_id.t, z3.StringVal("/"))
    lead = z3.Concat(*ps[:3]) if len(ps) >= 3 else kt
    h.ensures(f"{name}.under_root_and_election_id", z3.PrefixOf(prefix, kt) if len(ps) < 3 else z3.And(lead == prefix) if False else z3.PrefixOf(prefix, z3.Concat(*ps[:4]) if len(ps) >= 4 else kt), why=f"key = {kt}")


@unit("C18", "keys_and_counts", fns=[f"{CDH}.write_data", f"{MRH}.write_data", f"{GM}._write_conformalization_data", f"{GM}._write_gaussian_bounds"])
def keys(h):
    c = _components(h, ["election_id", "office", "geographic_unit_type", "estimand", "aggregate_name"])
    log = []
    fake = lambda bucket, **k: FakeS3(log)  # noqa: E731
    import pyvc.theory_ext as te

    h.interp.theories["elexmodel.handlers"] = {}
    root = "r-dev"

    class S3Mod:
        def pyvc_getattr(self, interp, name):
            if name in ("S3CsvUtil", "S3JsonUtil", "S3Util"):
                return fake
            raise Exception(name)

    # --- ModelResultsHandler.write_data: one put per returned table -------------------------------------------
    for ntab in (1, 2, 4):
        del log[:]
        tabs = {k: "<table>" for k in ["state_data", "unit_data", "county_data", "district_data"][:ntab]}
        mr = h.obj(MRH, final_results=tabs)
        clo = h.method(mr, "write_data")
        clo.env.overrides.update({"s3": S3Mod(), "convert_df_to_csv": lambda df: "csv", "S3_FILE_PATH": root, "TARGET_BUCKET": "b"})
        clo(c["election_id"], c["office"], c["geographic_unit_type"])
        h.ensures(f"prediction_tables.one_put_per_table[{ntab}]", len(log) == ntab)
        for i, k in enumerate(log):
            _key_obligations(h, f"prediction_tables[{ntab}].key{i}", k, root, c["election_id"])
    # --- gaussian writers -----------------------------------------------------------------------------------------
    for fn in ("_write_conformalization_data", "_write_gaussian_bounds"):
        del log[:]
        gm = h.obj(GM)
        clo = h.method(gm, fn)
        clo.env.overrides.update({"s3": S3Mod(), "convert_df_to_csv": lambda df: "csv", "S3_FILE_PATH": root, "TARGET_BUCKET": "b"})
        clo("<frame>", c["election_id"], c["office"], c["geographic_unit_type"], c["estimand"], [c["aggregate_name"]], 0.9)
        h.ensures(f"gaussian.{fn}.one_put", len(log) == 1)
        for i, k in enumerate(log):
            _key_obligations(h, f"gaussian.{fn}.key", k, root, c["election_id"])
    # --- CombinedDataHandler.write_data: the live results twice ------------------------------------------------------
    del log[:]
    rootu, fips = frames.unit_universe("units")
    h.ctx.assume(z3.And(*rootu.facts()))
    cur = frames.base_frame(rootu, z3.Function("inFeed", z3.IntSort(), z3.BoolSort())(rootu.u), {"geographic_unit_fips": fips(rootu.u)}, "geographic_unit_fips")
    # the rest of the handler's state is arbitrary (any joined frame, any baseline frame): what is written may not depend on it
    anyf = lambda nm: frames.base_frame(rootu, z3.Function(nm, z3.IntSort(), z3.BoolSort())(rootu.u), {"geographic_unit_fips": fips(rootu.u)}, "geographic_unit_fips")  # noqa: E731
    cd = h.obj(CDH, current_data=cur, data=anyf("inJoined"), preprocessed_data=anyf("inBaseline"), geographic_unit_type=c["geographic_unit_type"])
    clo = h.method(cd, "write_data")
    clo.env.overrides.update({"s3": S3Mod(), "convert_df_to_csv": lambda df: "csv", "S3_FILE_PATH": root, "TARGET_BUCKET": "b"})
    clo(c["election_id"], c["office"])
    h.ensures("live_results.two_puts", len(log) == 2, replay=lambda ev: {"target": "verif_replays:results_saved_before_gate_replay", "args": [], "check": "result['exc'] is None and result['ok']"})
    for i, k in enumerate(log):
        _key_obligations(h, f"live_results.key{i}", k, root, c["election_id"])
