"""C04 -- nonparametric intervals are conformally calibrated (deterministic clause; DESIGN section 4, C04)."""
import z3

import contracts.C03 as C03
from pyvc import frames, sums
from pyvc.api import UNITS, unit
from pyvc.values import V, real

NP = C03.NP
LEVEL = "proof"
ASSUMPTIONS = C03.ASSUMPTIONS + [
    "prefix-sum contract of sort_values + cumsum (lean/FrameSums.lean prefix_*), np.quantile contract",
    "NOT decided (DESIGN section 5): the probabilistic clause (coverage >= alpha for exchangeable units) -- a statement about a distribution of elections; the contracts prove the deterministic calibration invariant that the split-conformal theorem takes as its hypothesis",
]

for _u in list(UNITS.get("C03", [])):
    if _u["name"] == "nonparametric.unit_intervals":
        UNITS.setdefault("C04", []).append(dict(_u, prop="C04", name="unit_intervals"))
for _u in list(UNITS.get("C13", [])):
    if _u["name"] == "nonparametric.two_estimands_one_model":
        UNITS.setdefault("C04", []).append(dict(_u, prop="C04", name="two_estimands_one_model"))


@unit("C04", "population_correction", fn=f"{NP}._compute_population_correction")
def population_correction(h):
    root, fips = frames.unit_universe("units")
    h.ctx.assume(z3.And(*root.facts()))
    u = root.u
    I, R = z3.IntSort(), z3.RealSort()
    inCal = z3.Function("inCal", I, z3.BoolSort())
    last = z3.Function("last_turnout", I, I)
    score = z3.Function("score", I, R)
    h.syms.update(inCal=inCal, last_turnout=last, score=score)
    cal = frames.base_frame(root, inCal(u), {"last_election_results_turnout": last(u), "scores_src": score(u)}, None)
    h.forall_rows(root, last(u) >= 1)
    h.requires("calibration_set_not_empty", cal.axis.n >= 1, inCal(z3.Int("some_cal_row")), z3.Int("some_cal_row") >= 0, z3.Int("some_cal_row") < root.n)
    q = h.real("correction_quantile")
    h.requires("quantile_in_range", 0 < q, q < 1)  # exported by C14 (quantile_lt_1) / C03 (C04.quantile_level)
    scores = V(score(u), (cal.axis,), cal.index)
    # the weights are the normalised previous results: their sum S is at least the number of calibration units
    S, dS = sums.formal_sum_dom(h.ctx, root, inCal(u), last(u))
    sums.lemma_sum_bound(h.ctx, dS, cal.axis.n, lo=z3.RealVal(1), name="lemma.weight_sum_positive")
    h.interp.ghost_rows = [z3.Int("some_cal_row")]  # a row the theory entries may instantiate their facts at
    self = h.obj(NP)
    h.default_replay = lambda ev: {"target": "verif_replays:population_correction_replay", "args": [], "check": "result['exc'] is None and result['ok']"}
    kind, c = h.call_method(self, "_compute_population_correction", cal, scores, q, "turnout")
    if kind == "raise":
        return h.fail("no_raise", f"raised {c}")
    cs = h.ctx.__dict__.get("_cumsums", [])
    ex0 = [e for e in h.ctx.__dict__.get("_extrema", []) if e["root"] is root]
    if len(cs) != 1 or len(ex0) != 1:
        # the body is not of the shape this contract's ghost argument follows (one running total of a sorted frame, one minimum
        # over its rows): outside the verified subset -- the scenario replay decides
        from pyvc.values import Undecided

        raise Undecided(f"_compute_population_correction does not compute one running total and one minimum ({len(cs)} / {len(ex0)})")
    h.ensures("one_sorted_cumulative_sum", len(cs) == 1)
    m = cs[0]
    Wle, total = m["Wle"], m["total"]
    # ghost instantiation of the prefix-sum / minimum facts at the rows the argument talks about
    ex = [e for e in h.ctx.__dict__.get("_extrema", []) if e["root"] is root]
    h.ensures("one_minimum", len(ex) == 1)
    mn = ex[0]
    w_ = mn["witness"]
    for i in (z3.Int("some_cal_row"), w_, m["last"](u), m["last"](w_), m["lastrow"]):
        m["instantiate"](h.ctx, i)
        mn["instantiate"](h.ctx, i)
    m["wle_at"](h.ctx, c.t)
    h.ensures("weights_are_normalised_previous_results", z3.Implies(z3.And(*cal.axis.facts()), m["weight"] == z3.ToReal(last(u)) / z3.ToReal(S)))
    h.ensures("weights_sum_to_one", total == 1)
    h.ensures("scores_are_the_given_scores", z3.eq(m["score"], score(u)))
    h.ensures("a_correction_exists", c.nan is None or z3.Not(c.nan), why="the query 'percent > q' selects at least the last row (cumulative weight 1 > q)")
    # calibration invariant: the weighted share of calibration units with score <= c exceeds q ...
    rpc = lambda ev: {"target": "verif_replays:population_correction_replay", "args": [], "check": "result['exc'] is None and result['ok']"}  # noqa: E731
    h.ensures("calibration.weighted_share_covered_exceeds_q", Wle(c.t) > q.t, replay=rpc)
    # ... and c is the smallest calibration score with that property
    h.ensures("calibration.minimal", z3.Implies(z3.And(*cal.axis.facts(), score(u) < c.t), Wle(score(u)) <= q.t), replay=rpc)
    h.ensures("correction_is_a_calibration_score", z3.And(w_ >= 0, w_ < root.n, inCal(w_), score(w_) == c.t))


@unit("C04", "covered_iff_score_le_correction", fns=[f"{NP}.get_unit_prediction_intervals"])
def covered_iff(h):
    """pointwise algebra behind 'share of units whose true value lies inside their widened interval': with
    lower_bounds = lowerfit - r and upper_bounds = r - upperfit (C03 unit: scores are their maximum), the residual r
    lies in [lowerfit - c, upperfit + c] exactly when the score is <= c."""
    r, lf, uf, c = z3.Reals("r lowerfit upperfit c")
    lb, ub = lf - r, r - uf
    sc = z3.If(lb >= ub, lb, ub)
    h.lemma("covered_iff_score_le_c", z3.And(lf - c <= r, r <= uf + c) == (sc <= c))


@unit("C04", "unit_intervals.robust_option", fns=[f"{NP}.get_unit_prediction_intervals"])
def unit_intervals_robust(h):
    """with the robust option the single correction is the LARGER of the population correction and the plain
    alpha*(1+1/n_cal) quantile of the calibration scores -- so it satisfies both calibration conditions of the statement"""
    from pyvc.theory_np import round_half_even_t

    t, self, alpha, kind, res = C03.run_np_intervals(h, robust=True)
    rpr = lambda ev: {"target": "verif_replays:robust_correction_replay", "args": [], "check": "result['exc'] is None and result['ok']"}  # noqa: E731
    if kind == "raise":
        return h.fail("C14.totality_above_the_gate", f"raised {res}", budget_factor=3, replay=rpr)
    lower, upper, conf = res.lower, res.upper, res.conformalization
    pc = [c for c in h.interp.call_log if c[0] == "popcorr"]
    h.ensures("one_population_correction", len(pc) == 1)
    sc, q = pc[0][1]["scores"], pc[0][1]["q"]
    # the plain quantile the body computed: the np.quantile contract's value for (these scores, this level)
    arrays = h.ctx.__dict__.get("_quant_arrays", {})
    mine = [(fn, x, ax) for (fn, x, ax) in arrays.values() if z3.eq(x.t, sc.t)]
    h.ensures("one_plain_quantile_of_the_calibration_scores", len(mine) == 1, replay=rpr)
    if len(mine) != 1:
        return
    fn = mine[0][0]
    plain = fn(real(q.t))
    ca = conf.axis
    h.ensures("quantile_level_is_alpha_times_one_plus_one_over_n_cal", q.t == alpha.t * (1 + 1 / z3.ToReal(ca.n)), replay=rpr)
    popc = z3.Real("population_correction")
    c = z3.If(plain >= popc, plain, popc)
    qs = h.interp.qr_models
    rows = z3.And(*t.nonrep.axis.facts())
    lraw, uraw = qs[0].predict(C03._holdout(h, t)), qs[1].predict(C03._holdout(h, t))
    want_l = z3.If((lraw.t - c) * t.last + t.last >= t.res, (lraw.t - c) * t.last + t.last, t.res)
    want_u = z3.If((uraw.t + c) * t.last + t.last >= t.res, (uraw.t + c) * t.last + t.last, t.res)
    h.ensures("robust.single_correction_is_the_larger_of_the_two", z3.Implies(rows, z3.And(lower.t == z3.ToReal(round_half_even_t(want_l)), upper.t == z3.ToReal(round_half_even_t(want_u)))), replay=rpr)
