#!/bin/bash
# tools/refactor_matrix.sh [jobs]: every SEMANTICS-PRESERVING refactoring of selftest/refactors/ (written by an independent
# sub-agent; all 16 together pass the pinned suite) is applied to its own scratch worktree of /repo's HEAD, and the checks of
# the properties whose functions it touches (selftest/refactors/MAP.txt) are run: none may raise an alarm (exit 1).
# exit 2 (undecided) / 3 (checker error) are reported: they are not alarms but they are brittleness.
cd "$(dirname "$0")/.."
jobs=${1:-4}
run_one() {
  id=$1; shift; props="$*"; f=/verif/selftest/refactors/$id.diff; W=/tmp/refwt_$id
  rm -rf $W; git -C /repo worktree add -q --detach $W HEAD || { echo "$id: no worktree"; return; }
  if ! git -C $W apply $f 2>/dev/null; then echo "$id: patch does not apply"; git -C /repo worktree remove --force $W; return; fi
  res=""
  for p in $props; do
    VERIF_REPO=$W VERIF_NO_EVIDENCE=1 /verif/check $p > /tmp/ref_${id}_$p.log 2>&1; rc=$?
    [ $rc -ne 0 ] && res="$res $p=$rc"
  done
  git -C /repo worktree remove --force $W
  echo "$id:${res:- all 0} ($props)"
}
export -f run_one
cat selftest/refactors/MAP.txt | xargs -P $jobs -L 1 bash -c 'run_one "$@"' _ | sort
