#!/bin/bash
# like seeded_matrix.sh, but every seeded change is applied to its OWN scratch worktree of /repo's HEAD (VERIF_REPO), so
# the runs can go in parallel and /repo itself is never touched.  usage: tools/seeded_matrix_par.sh [out] [jobs] [ids...]
cd "$(dirname "$0")/.."
out=${1:-/tmp/seeded_matrix.txt}; jobs=${2:-4}; shift 2 2>/dev/null
ids=${@:-$(ls seeded | grep '^C')}
: > $out
run_one() {
  id=$1; prop=${id:0:3}; W=/tmp/seedwt_$id
  rm -rf $W; git -C /repo worktree add -q --detach $W HEAD || { echo "$id: no worktree"; return; }
  if ! git -C $W apply /verif/seeded/$id/patch.diff 2>/dev/null; then echo "$id: patch does not apply"; git -C /repo worktree remove --force $W; return; fi
  VERIF_REPO=$W VERIF_NO_EVIDENCE=1 ./check $prop > /tmp/seeded_$id.log 2>&1; rc=$?
  git -C /repo worktree remove --force $W
  n=$(grep -c "^VIOLATION" /tmp/seeded_$id.log)
  conf=$(grep "^VIOLATION" /tmp/seeded_$id.log | grep -vc "no-failing-input-found")
  first=$(grep "^VIOLATION" /tmp/seeded_$id.log | head -3 | sed 's/.*replays\/[^/]*\///; s/\.json.*//' | tr '\n' ';')
  echo "$id exit=$rc violations=$n replayed_on_real_code=$conf :: $first"
}
export -f run_one
printf "%s\n" $ids | xargs -P $jobs -I{} bash -c 'run_one {}' | sort > $out
cat $out
