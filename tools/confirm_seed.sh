#!/bin/bash
# tools/confirm_seed.sh <id> [patchfile] : confirm a seeded change independently in a scratch worktree of /repo HEAD:
# demo passes unchanged / fails changed, full test-suite still 156 passes. Writes /verif/seeded/<id>/
id=$1; src=/tmp/seedout/$id; patch=${2:-$src/patch.diff}
W=/tmp/confirm/$id; rm -rf $W; mkdir -p /tmp/confirm
git -C /repo worktree add -q --detach $W HEAD || exit 9
cd $W
if ! git apply $patch; then echo "$id: PATCH DOES NOT APPLY"; git -C /repo worktree remove --force $W; exit 8; fi
ENVV="APP_ENV=local DATA_ENV=dev MODEL_S3_BUCKET=b MODEL_S3_PATH_ROOT=r"
env $ENVV PYTHONPATH=/repo/src /venv/bin/python $src/demo.py > /tmp/confirm/$id.unchanged.log 2>&1; a=$?
env $ENVV PYTHONPATH=$W/src /venv/bin/python $src/demo.py > /tmp/confirm/$id.changed.log 2>&1; b=$?
PYTHONPATH=$W/src /venv/bin/python -m pytest -q -p no:cacheprovider --timeout=900 --deselect tests/handlers/test_live_data.py::test_sample_overweight --deselect tests/utils/test_file_utils.py::test_get_directory_path > /tmp/confirm/$id.tests.log 2>&1; t=$?
tests=$(tail -1 /tmp/confirm/$id.tests.log)
echo "$id: demo unchanged exit=$a changed exit=$b tests: $tests"
if [ $a -eq 0 ] && [ $b -ne 0 ] && echo "$tests" | grep -q "156 passed"; then
  mkdir -p /verif/seeded/$id
  git diff > /verif/seeded/$id/patch.diff
  cp $src/demo.py /verif/seeded/$id/demo.py
  python3 - "$id" "$a" "$b" "$tests" <<'PY'
import json,sys,subprocess
id,a,b,tests=sys.argv[1:5]
try: m=json.load(open(f'/tmp/seedout/{id}/meta.json'))
except Exception: m={}
head=subprocess.check_output(['git','-C','/repo','log','--format=%h','-1']).decode().strip()
out={"property":id[:3],"seed":id,"summary":m.get("summary"),"needs_to_manifest":m.get("needs_to_manifest"),"files_changed":m.get("files_changed"),
 "author":"independent sub-agent given only the property text and a scratch worktree",
 "confirmed_by_me":{"repo_head":head,"demo_unchanged_exit":int(a),"demo_changed_exit":int(b),"test_suite":tests,
   "ran":[f"git worktree add /tmp/confirm/{id} HEAD; git apply patch.diff","PYTHONPATH=/repo/src /venv/bin/python demo.py -> exit "+a,f"PYTHONPATH=/tmp/confirm/{id}/src /venv/bin/python demo.py -> exit "+b,"full pytest suite in the changed worktree: "+tests]}}
json.dump(out,open(f'/verif/seeded/{id}/meta.json','w'),indent=1)
PY
  echo "$id: KEPT"
else
  echo "$id: NOT KEPT"
fi
git -C /repo worktree remove --force $W
