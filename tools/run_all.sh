#!/bin/bash
# run every registered quick check (in parallel batches) and summarise
cd "$(dirname "$0")/.."
tier=${1:-quick}
ids=$(python3 -c "import json;print(' '.join(c['property_id'] for c in json.load(open('MANIFEST.json'))['checks']))")
mkdir -p /tmp/runall
for p in $ids; do ( ./check $p --tier $tier > /tmp/runall/$p.log 2>&1; echo "$p exit=$?" >> /tmp/runall/summary.txt ) & 
  while [ $(jobs -r | wc -l) -ge 4 ]; do sleep 1; done
done
wait
sort /tmp/runall/summary.txt
