#!/usr/bin/env python3
"""Regenerates /verif/MANIFEST.json from the table below (keeps it schema-valid at all times)."""
import json
import os

HERE = os.path.dirname(os.path.dirname(os.path.abspath(__file__)))
GUARD = "ELEX_LIVE_MODEL_VERIF"

CLAIMED = {
    # id: (category, text, note, technique, design_ref)
    "C06": ("proof", "rank arithmetic of _get_quantiles proved for all alpha in (0,1) and all integer B>=2 from the real AST (valid ranks, upper rank <= (B-1)/B, ranks nested for nested levels)", "A-REAL (floats as reals); numpy.floor/ceil contracts", "contract-based deductive verification: VCs generated from the real Python AST by pyvc, discharged by z3/cvc5", "DESIGN 4 C06"),
    "C07": ("proof", "_format_called_contests (raises iff contradictory/unknown, entry values; unbounded list lengths via the pointwise loop rule) and _adjust_called_contests (decision table) proved from the real AST", "A-REAL; numpy.isclose/maximum/minimum contracts; list membership as uninterpreted predicates", "contract-based deductive verification: VCs from the real AST, z3/cvc5", "DESIGN 4 C07"),
    "C14": ("proof", "minimum/conf-frac/split arithmetic for all alpha and all n >= minimum (>=1 training row, >=1 calibration row, quantile < 1) and the gate (raises iff n < max minimum) proved from the real expressions/statements", "A-REAL; round-half-even exact; gate proved for 1..3 requested levels (configuration bound); slices of get_estimates executed with the prefix havoc'd", "contract-based deductive verification: VCs from the real AST (slice execution), z3/cvc5", "DESIGN 4 C14"),
}
REASON_WIP = "check under construction in this session: no contract-based check is registered yet (see DESIGN.md section 4 for the planned contracts)"
ALL = [f"C{i:02d}" for i in range(1, 21)]


def main():
    checks = []
    for pid, (cat, text, note, tech, ref) in sorted(CLAIMED.items()):
        checks.append(
            {
                "property_id": pid,
                "quick_cmd": f"./check {pid} --tier quick",
                "thorough_cmd": f"./check {pid} --tier thorough",
                "evidence_file": f"evidence/{pid}.json",
                "replay_cmd_template": f"./check {pid} --replay {{path}}",
                "engine": "pyvc",
                "level_claimed": {"category": cat, "text": text, "design_ref": ref},
                "level_note": note,
                "technique": tech,
            }
        )
    na = [{"property_id": p, "reason": NA.get(p, REASON_WIP)} for p in ALL if p not in CLAIMED]
    m = {
        "version": 1,
        "setup_cmd": "./setup.sh",
        "hooks": {
            "guard": GUARD,
            "enable": f"{GUARD}=1 (reserved; the machinery uses sidecar contracts and needs no hooks in /repo)",
            "baseline_off_cmd": "cd /repo && /venv/bin/python -m pytest -ra -q -p no:cacheprovider --timeout=900 --continue-on-collection-errors",
            "source_commits": [],
            "add_only": True,
        },
        "engines": [
            {"name": "pyvc", "path": "pyvc/", "serves_properties": sorted(CLAIMED), "kind_free_text": "purpose-built VC generator: ast -> z3 symbolic executor over the real /repo source, sidecar contracts under contracts/, z3 5.1 + cvc5 back ends, Lean lemma base for finite sums, bounded stand-ins run the real code under /venv"}
        ],
        "checks": checks,
        "not_applicable": na,
        "notes": "Exit codes of ./check: 0 held, 1 violation (VIOLATION line), 2 undecided, 3 checker error. Known findings: known_findings.json. See DESIGN.md.",
    }
    json.dump(m, open(os.path.join(HERE, "MANIFEST.json"), "w"), indent=1)


NA = {}

if __name__ == "__main__":
    main()
