#!/usr/bin/env python3
"""Regenerates /verif/MANIFEST.json from the table below (keeps it schema-valid at all times)."""
import json
import os

HERE = os.path.dirname(os.path.dirname(os.path.abspath(__file__)))
GUARD = "ELEX_LIVE_MODEL_VERIF"

TECH = "contract-based deductive verification: VCs generated from the real Python AST by pyvc (sidecar contracts), discharged by z3 5.1 with cvc5 on unknown"
CLAIMED = {
    # id: (category, text, note, technique, design_ref)
    "C01": ("proof", "partition (every feed unit exactly once, one category, live count kept) proved on the real CombinedDataHandler.__init__ + get_units for both unreporting policies; counted-votes / reporting-count conservation proved for the real _get_reporting_aggregate_votes and get_aggregate_predictions at state, county, classification and district level; unit table of ModelResultsHandler (C02 module)", "A-REAL; V1 unique ids; V2; V7 under policy zero only; A-OBJSUM; pandas contracts listed in evidence.trusted_base; outlier models abstracted as arbitrary row filters; bootstrap margin clause: see C06", TECH + "; KFrame/GFrame theory, formal sums with Lean-backed lemma instances", "DESIGN 4 C01"),
    "C02": ("proof", "base/nonparametric aggregate identities (pred = counted + sum of unit preds; lower/upper likewise), row alignment of interval columns with the estimates table, unit table contents, and the side conditions of the sum_fiberwise lemma (levels agree) proved from the real code", "as C01/C03; gaussian interval rows: the C15 aggregate units (exactly one model row per outstanding group, positional alignment obligations) registered here as well; 'levels agree' = Lean lemma sum_fiberwise + proved per-table contracts", TECH, "DESIGN 4 C02"),
    "C03": ("proof", "floors, whole numbers and finality proved on the real get_unit_predictions, nonparametric get_unit_prediction_intervals (incl. the whole calibration split executed symbolically), nonparametric and gaussian aggregate intervals; zero width without outstanding units", "A-REAL; V2; A-QR; Featurizer via its row-preserving contract; gaussian estimator: unit formula and the aggregate function proved with GaussianModel.fit under the contract proved in C15 (A-WM, A-SIGMA)", TECH, "DESIGN 4 C03"),
    "C05": ("proof", "with no features/fixed effects the REAL Featurizer is executed: the solver is asked the intercept-only weighted-median problem on exactly the reporting rows (weights = previous results, tau = 1/2, unregularised intercept) and every prediction is round(max((1+m)*baseline, partial count)) for the one returned m", "A-QR and L-WM (the returned m IS the weighted median) are assumptions about the external LP solver, not proved", TECH, "DESIGN 4 C05"),
    "C06": ("proof", "rank arithmetic of _get_quantiles proved for all alpha in (0,1) and all integer B>=2 from the real AST (valid ranks, upper rank <= (B-1)/B, ranks nested for nested levels)", "A-REAL (floats as reals); numpy.floor/ceil contracts", TECH, "DESIGN 4 C06"),
    "C07": ("proof", "_format_called_contests (raises iff contradictory/unknown, entry values; unbounded list lengths via the pointwise loop rule) and _adjust_called_contests (decision table) proved from the real AST", "A-REAL; numpy.isclose/maximum/minimum contracts; list membership as uninterpreted predicates", TECH, "DESIGN 4 C07"),
    "C09": ("proof", "iff-characterisation of the three frames, first-applicable-reason categories, joined table and derived quantities (0 instead of NaN/inf at zero denominators) proved on the real get_units, _get_non_modeled_units, _get_unexpected_units, __init__ and Estimandizer for both policies and three estimand sets", "A-REAL; V1; V2; outlier models abstracted by their contract (row filter of the frame they receive); np.isclose/nan_to_num contracts", TECH, "DESIGN 4 C09"),
    "C14": ("proof", "minimum/conf-frac/split arithmetic for all alpha and all n >= minimum (>=1 training row, >=1 calibration row, quantile < 1) and the gate (raises iff n < max minimum) proved from the real expressions/statements; totality of the nonparametric interval path above the gate (C03 unit)", "A-REAL; round-half-even exact (cross-checked in CPython floats by the bounded grid companion for alpha = k/1000, n <= 5000); the gate is proved for an arbitrary number of requested levels with a loop invariant (and for 1..3 levels by unrolling); slices of get_estimates executed with the prefix havoc'd", TECH, "DESIGN 4 C14"),
    "C04": ("proof", "deterministic clause: the real _compute_population_correction returns the smallest calibration score whose baseline-weighted covered share exceeds q (sorted prefix sums), the interval is the raw pair widened by ONE correction on both sides, un-normalised, floored, rounded; split disjoint/exhaustive; own correction per estimand", "prefix-sum contract of sort_values+cumsum (Lean lemmas), np.quantile contract; the probabilistic coverage clause is NOT decided (see DESIGN section 5)", TECH + "; ghost instantiation of prefix-sum lemma instances", "DESIGN 4 C04"),
    "C08": ("proof", "get_national_summary_estimates in all four modes: size check iff, lower <= pred <= upper, threshold mode within [base, base+total weight] and pred = base + weights of positive-margin contests, called contests contribute no uncertainty; typestate: only top-level aggregate calls write the state it reads (proved on the real aggregate functions for four aggregate lists)", "A-REAL; dictionary keys = contest names (precondition); None-weights variant not covered; argsort/gather contracts", TECH, "DESIGN 4 C08"),
    "C13": ("proof", "schema of the merged unit/state tables for 1..3 estimands and non-ascending levels (key/category columns once, every level's column carries that level's interval), own conformal correction per estimand on one model object", "cross-request independence of VALUES for bootstrap/gaussian is not covered by a proof here (see DESIGN)", TECH, "DESIGN 4 C13"),
    "C15": ("proof", "proved from the real AST: GaussianModel._fit computes every group's statistics over exactly its own calibration rows; one step of the fallback cascade of GaussianModel.fit (threshold min(10, #cal), exact row sets of the two recursive calls) and, with the recursive calls under the same contract, the multi-level result table of the statement (induction over the recursion); GaussianElectionModel.get_aggregate_prediction_intervals with fit under that contract: exactly one model row per group with outstanding units from the right level (own / state / all), the interval formula (quantile at (3+alpha)/4, sigma*sqrt(W2+kappa*W^2)), floors, whole numbers, finiteness; plus the unit-level formula", "A-WM / A-SIGMA (weighted median and bootstrapped scale are functions of the multiset of their rows), norm.ppf = loc + scale*z_q, sqrt/round axiomatised; termination of the recursion not proved; interval formulas proved as generalisations (products as AC uninterpreted functions); a bounded end-to-end companion on real floats is kept and not counted as proved", TECH, "DESIGN 0.4 / 4 C15"),
    "C16": ("proof", "the real Featurizer (prepare_data, _expand_fixed_effects, _sort_features, filter_to_active_features, generate_holdout_data) executed symbolically on a frame of ARBITRARILY many units with arbitrary level assignment: column order and equality of the two matrices, one absorbed observed level per effect, non-constant fitted dummies, fitted-or-absorbed iff observed in fitting, indicator / equal share 1/(k+1), centring, 'other' pooling, per-state copies; plus the call-site alignment units and the no-covariate configuration", "configuration bound: the level names of a fixed effect range over a finite universe (3 + 2 names, plus 'other'), which is what makes the data-dependent column set concrete per path; <= 2 effects, listed feature / selected-level / state lists; scale_features not covered; >= 1 fitting row required (C14 gate); pandas get_dummies / column-wise reductions as stated contracts; bounded companion on real pandas kept", TECH, "DESIGN 0.4 / 4 C16"),
    "C17": ("proof", "the nested compute_estimated_margin executed from the real AST: accepted histories are monotone with possible batches only, every whole percent 0..latest, imputed margin in [-1,1] (convex combination), first margin before the first observation, 0 at 0%, correction = final - imputed; discarded histories return 101 rows of missing values with the error type", "A-REAL (the bounded companion runs float64 AND int64 histories on the real code: it found the integer truncation defect F13, now fixed), V2, numpy positional contracts, lemma mono_of_succ", TECH + "; ghost instantiation, generalisation of nonlinear subterms", "DESIGN 4 C17"),
    "C10": ("proof", "self-composition on the real code: changing the count of an outstanding / blocklisted / zero-baseline / unexpected unit leaves every other unit's frame, category, prediction and interval unchanged (get_units, conformal unit predictions and intervals with the solver / featurizer / outlier model as functions of their requests), group sums change only in the unit's own groups, historical results below the threshold are hidden; bounded pairs of real runs for all three estimators (not counted as proved)", "A-QR / Featurizer / outlier model are functions of their inputs; extrapolation and presidential-correction paths not verified; bootstrap and gaussian estimators only through the bounded companions", TECH + "; relational (two-state) VCs", "DESIGN 4 C10"),
    "C11": ("proof", "two-state proofs on the real code: adding a feed unit outside the baseline leaves the modelled frames unchanged and adds exactly one 'unexpected' row whose county/district are the right id components; counted votes, prediction and both bounds of exactly its groups grow by exactly its votes at state/county/district level, classification tables unchanged, new groups created; bootstrap totality (no TypeError) proved with the aggregate units; bootstrap value-independence bounded", "V8 (id shapes); the bootstrap new-state case is a recorded known finding (F9)", TECH + "; relational (two-state) VCs, sum_split / singleton lemma instances", "DESIGN 4 C11"),
    "C12": ("proof", "effect contracts derived from the real ASTs of everything reachable from get_estimates / the national summary: every RNG construction, DataFrame.sample and scipy bootstrap is seeded from the seed setting, draws come from the per-model generator, no ambient inputs, set iteration order never reaches a value, mutable defaults are not mutated, client fields are written before read, a fresh model per run; plus bounded repeat runs of the real client (not counted as proved)", "call resolution by name (over-approximation); library calls outside the classification table are assumed to be functions of their arguments; same-process float reduction order", "contract-based deductive verification: effect/guard contracts discharged by a sound derivation over the real package ASTs (pyvc.effects) + bounded real runs", "DESIGN 4 C12"),
    "C18": ("proof", "every persistence site reachable from the two entry points is inventoried from the ASTs and its interprocedural guard implies the option the statement names (z3 over guard atoms); with no options every guard is false; the gaussian write flag IS the 'conformalization' option (real __init__ chains executed); live results are written before the gate; one put per returned table, two for live results, one per gaussian object; every key is whitespace-free under root/election id", "sink primitives listed in contracts/C18.py; components of keys are whitespace-free (precondition); boto3/file system not modelled", "contract-based deductive verification: guard derivation over the package call graph + symbolic execution of the writer functions, z3", "DESIGN 4 C18"),
    "C19": ("proof", "list_versions proved for all listings, page sizes and windows (open or closed) by induction with the function's own contract at the recursive call: exactly the versions in the window after the marker, each once, in order; the early stop is justified by newest-first order; get / make_request / wait_for_versions proved from the real AST for any listing and any subset of failing downloads: every sample-th listed version requested once with its own VersionId and size, failing downloads skipped without aborting, every surviving file stamped with its own version's modification time in the configured timezone, None when the window is empty, an error only when no sampled download succeeded", "A-S3 service model (assumed); get(): generator run eagerly, queue.Queue as single-threaded FIFO, TransferManager / pandas constructors as stated contracts, versions[::k] as 'rank multiple of k'; a bounded companion runs the real queue / pandas code", TECH, "DESIGN 0.4 / 4 C19"),
    "C20": ("proof", "the retry binds against the INSTALLED QuantileRegressionSolver.fit signature, repeats x, y, tau, weights, lambda_, intercept with normalize_weights=False, both failure kinds reach the single non-re-raising handler, every model fit goes through fit_model", "A-QR (how failures surface); numerical sameness of the re-solve not decided", TECH, "DESIGN 4 C20"),
}
REASON_WIP = "check under construction in this session: no contract-based check is registered yet (see DESIGN.md section 4 for the planned contracts)"
ALL = [f"C{i:02d}" for i in range(1, 21)]


def main():
    checks = []
    for pid, (cat, text, note, tech, ref) in sorted(CLAIMED.items()):
        checks.append(
            {
                "property_id": pid,
                "quick_cmd": f"./check {pid} --tier quick",
                "thorough_cmd": f"./check {pid} --tier thorough",
                "evidence_file": f"evidence/{pid}.json",
                "replay_cmd_template": f"./check {pid} --replay {{path}}",
                "engine": "pyvc",
                "level_claimed": {"category": cat, "text": text, "design_ref": ref},
                "level_note": note,
                "technique": tech,
            }
        )
    na = [{"property_id": p, "reason": NA.get(p, REASON_WIP)} for p in ALL if p not in CLAIMED]
    m = {
        "version": 1,
        "setup_cmd": "./setup.sh",
        "hooks": {
            "guard": GUARD,
            "enable": f"{GUARD}=1 (reserved; the machinery uses sidecar contracts and needs no hooks in /repo)",
            "baseline_off_cmd": "cd /repo && /venv/bin/python -m pytest -ra -q -p no:cacheprovider --timeout=900 --continue-on-collection-errors",
            "source_commits": [],
            "add_only": True,
        },
        "engines": [
            {"name": "pyvc", "path": "pyvc/", "serves_properties": sorted(CLAIMED), "kind_free_text": "purpose-built VC generator: ast -> z3 symbolic executor over the real /repo source, sidecar contracts under contracts/, z3 5.1 + cvc5 back ends, Lean lemma base for finite sums, bounded stand-ins run the real code under /venv"}
        ],
        "checks": checks,
        "not_applicable": na,
        "notes": "Exit codes of ./check: 0 held, 1 violation (VIOLATION line), 2 undecided, 3 checker error. Known findings: known_findings.json. See DESIGN.md.",
    }
    json.dump(m, open(os.path.join(HERE, "MANIFEST.json"), "w"), indent=1)


NA = {}

if __name__ == "__main__":
    main()
