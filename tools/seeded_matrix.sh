#!/bin/bash
# for every seeded change: apply it to /repo, run the check of the property it breaks, undo it; print what caught it
cd "$(dirname "$0")/.."
out=${1:-/tmp/seeded_matrix.txt}; : > $out
for d in seeded/C*/; do
  id=$(basename $d); prop=${id:0:3}   # seeded/C15b is a second change for property C15
  git -C /repo apply /verif/$d/patch.diff || { echo "$id: patch does not apply" >> $out; continue; }
  VERIF_NO_EVIDENCE=1 ./check $prop > /tmp/seeded_$id.log 2>&1; rc=$?
  git -C /repo checkout -- .
  n=$(grep -c "^VIOLATION" /tmp/seeded_$id.log)
  first=$(grep "^VIOLATION" /tmp/seeded_$id.log | head -3 | sed 's/.*replays\/[^/]*\///; s/\.json.*//' | tr '\n' ';')
  conf=$(grep "^VIOLATION" /tmp/seeded_$id.log | grep -vc "no-failing-input-found")
  echo "$id exit=$rc violations=$n replayed_on_real_code=$conf :: $first" >> $out
done
cat $out
