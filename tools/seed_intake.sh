#!/bin/bash
# tools/seed_intake.sh <id>: confirm a delivered seeded change (tools/confirm_seed.sh), and if kept run the property's
# check against it in its own scratch worktree (no /repo edit); prints the matrix line.
cd "$(dirname "$0")/.."
id=$1
tools/confirm_seed.sh $id | tail -2
[ -d seeded/$id ] || exit 1
for d in /tmp/seed4/$id /tmp/seed5/$id /tmp/seed6/$id /tmp/seed7/$id /tmp/seed8/$id /tmp/seed9/$id /tmp/seed10/$id /tmp/seed11/$id; do git -C /repo worktree remove --force $d 2>/dev/null; done
tools/seeded_matrix_par.sh /tmp/seeded_intake_$id.txt 1 $id
