"""Bounded stand-in for C15 (and the gaussian clauses of C02/C03/C10): the REAL
GaussianElectionModel.get_aggregate_prediction_intervals / GaussianModel.fit against an oracle written from the
statement, over an enumerated small scope of group structures:
  1-2 states x up to 3 sub-groups, calibration units per group in {0, 3, T-1, T, T+1, 25} (T = min(10, all)),
  groups that exist only among outstanding units, single- and two-level aggregates, levels 0.7 / 0.9,
  partial counts that do and do not exceed the gaussian bound.
Checked per group with outstanding units: exactly one finite interval on the row of its own group, computed from
the group's own calibration statistics if it holds >= T calibration units, else its state's, else all units';
bounds = summed unit bounds shifted by the normal quantile at (3+alpha)/4; lower/upper >= counted votes."""
import argparse
import itertools
import json

ap = argparse.ArgumentParser()
ap.add_argument("--tier", default="quick")
ap.add_argument("--seed", type=int, default=0)
a = ap.parse_args()

import numpy as np  # noqa: E402
import pandas as pd  # noqa: E402
from scipy import stats  # noqa: E402

import verif_replays as v  # noqa: F401,E402
from elexmodel.models.GaussianElectionModel import GaussianElectionModel  # noqa: E402
from elexmodel.models.ConformalElectionModel import PredictionIntervals  # noqa: E402
from elexmodel.utils import math_utils  # noqa: E402

E = "turnout"
LAST, RES = f"last_election_results_{E}", f"results_{E}"
rng = np.random.default_rng(a.seed + 11)


def build(layout, nonrep_groups, big_partial):
    return v.gaussian_scene(layout, nonrep_groups, big_partial, rng)


oracle = v.gaussian_oracle


counts = [0, 3, 9, 10, 11, 25] if a.tier != "quick" else [0, 3, 10, 25]
layouts = []
for c1, c2, c3 in itertools.product(counts, counts[:3], counts[1:3] if a.tier == "quick" else counts[:4]):
    layouts.append({("AA", "a1"): c1, ("AA", "a2"): c2, ("BB", "b1"): c3})
    layouts.append({("AA", "a1"): c1, ("AA", "a2"): c2})
viol, samples, evals, nontriv = [], [], 0, 0
for layout in layouts:
    if sum(layout.values()) < 2:
        continue
    groups = list(layout)
    for nonrep_groups in ([g for g in groups], groups[:1] + [("AA", "only_outstanding")]):
        for aggregate in (["postal_code", "county_fips"], ["postal_code"]):
            for alpha, big in ((0.9, False), (0.7, True)):
                conf, rep, non, unx = build(layout, nonrep_groups, big)
                evals += 1
                m = GaussianElectionModel({"save_conformalization": False, "election_id": "e", "office": "S", "geographic_unit_type": "county"})
                lo_u, hi_u = rng.normal(-0.05, 0.02, len(non)), rng.normal(0.08, 0.02, len(non))
                m.alpha_to_nonreporting_lower_bounds[alpha] = lo_u.copy()
                m.alpha_to_nonreporting_upper_bounds[alpha] = hi_u.copy()
                for f_ in (rep, non, unx):
                    f_[f"pred_{E}"] = f_[RES]
                try:
                    est = m.get_aggregate_predictions(rep, non, unx, aggregate, E)
                    pi = m.get_aggregate_prediction_intervals(rep, non, unx, aggregate, alpha, PredictionIntervals(None, None, conf), E)
                except Exception as e:  # noqa
                    viol.append({"id": f"exc{evals}", "layout": {"/".join(k): n for k, n in layout.items()}, "aggregate": aggregate, "alpha": alpha, "exc": f"{type(e).__name__}: {e}"})
                    continue
                keys, exp = oracle(conf, rep, non, unx, aggregate, alpha, lo_u, hi_u)
                got_keys = list(map(tuple, est[aggregate].values.tolist()))
                lower, upper = np.asarray(pi.lower, dtype=float), np.asarray(pi.upper, dtype=float)
                T = min(10, len(conf))
                kinds = {("own" if layout.get(g, 0) >= T else "fallback") for g in set(map(tuple, non[aggregate].values.tolist()))} if len(aggregate) > 1 else {"own"}
                nontriv += int(len(kinds) > 1 or big)
                ok = got_keys == keys and len(lower) == len(keys) and len(upper) == len(keys) and np.isfinite(lower).all() and np.isfinite(upper).all()
                bad = None
                if ok:
                    for i, g in enumerate(keys):
                        el, eu = exp[g]
                        if abs(lower[i] - el) > 1 + 1e-6 * abs(el) or abs(upper[i] - eu) > 1 + 1e-6 * abs(eu):
                            ok, bad = False, {"group": g, "observed": [lower[i], upper[i]], "expected": [el, eu]}
                            break
                        counted_all = est[RES].iloc[i]
                        if lower[i] < counted_all - 1e-9 or upper[i] < counted_all - 1e-9:
                            ok, bad = False, {"group": g, "observed": [lower[i], upper[i]], "counted_votes": counted_all}
                            break
                if len(samples) < 3 and len(kinds) > 1:
                    samples.append({"layout": {"/".join(k): n for k, n in layout.items()}, "aggregate": aggregate, "alpha": alpha, "groups": [list(k) for k in keys], "lower": lower.tolist()[:4]})
                if not ok:
                    viol.append({"id": f"v{evals}", "layout": {"/".join(k): n for k, n in layout.items()}, "outstanding_groups": [list(g) for g in nonrep_groups], "aggregate": aggregate, "alpha": alpha, "partial_counts_exceed_bound": big, "rows": [list(k) for k in got_keys], "expected_rows": [list(k) for k in keys], "detail": bad})
print(json.dumps({"evaluations": evals, "distinct_nontrivial": nontriv, "rule": "calibration layouts x outstanding-group sets x {two-level, state} aggregates x (alpha, partial counts); non-trivial = own-model and fallback groups in the same table, or binding partial counts", "samples": samples, "violations": viol[:6], "exhaustive": a.tier != "quick"}, default=str))
