#!/usr/local/bin/python3-vt
"""Conformance (differential) test of the theory entries behind the C16 proof (frame get_dummies, column-wise reductions,
.loc[mask, cols] = c, astype, Series.where / unique, np.where on strings, label-mask selection of names):

the symbolic result of executing the REAL Featurizer with pyvc is evaluated on random small concrete frames (every input
symbol is pinned, exactly one explored path must be consistent with the frame, the result terms are evaluated by z3) and
compared cell by cell with what the real pandas code returns for the same frame under /venv/bin/python.
A disagreement means a theory entry or the interpreter is wrong.  A test of assumptions, not a proof."""
import argparse
import json
import os
import random
import subprocess
import sys
from fractions import Fraction

HERE = os.path.dirname(os.path.dirname(os.path.abspath(__file__)))
sys.path.insert(0, HERE)
import z3  # noqa: E402

from pyvc import SRC, VENV_PY, api  # noqa: E402
from pyvc.interp import Explorer, InfeasiblePath, PathCtx  # noqa: E402

ap = argparse.ArgumentParser()
ap.add_argument("--tier", default="thorough")
ap.add_argument("--seed", type=int, default=0)
ap.add_argument("--n", type=int, default=12)
a = ap.parse_args()
rnd = random.Random(a.seed + 5)
N = 6

REAL = r'''
import json, sys
import pandas as pd
from elexmodel.handlers.data.Featurizer import Featurizer
p = json.load(sys.stdin)
df = pd.DataFrame(p["rows"])
fz = Featurizer(list(p["features"]), p["fixed_effects"], states_for_separate_model=list(p["states"]))
x = fz.prepare_data(df, center_features=True, scale_features=False, add_intercept=True)
fit = fz.filter_to_active_features(x)
hold = fz.generate_holdout_data(x)
print(json.dumps({"complete": list(x.columns), "active": list(fit.columns), "fit": fit.astype(float).values.tolist(), "hold": hold.astype(float).values.tolist(), "x": x.astype(float).values.tolist()}))
'''


def real(payload):
    p = subprocess.run([VENV_PY, "-c", REAL], input=json.dumps(payload), capture_output=True, text=True, env=dict(os.environ, PYTHONPATH=SRC + os.pathsep + HERE, APP_ENV="local", DATA_ENV="dev", MODEL_S3_BUCKET="b", MODEL_S3_PATH_ROOT="r"), cwd=HERE)
    lines = [l for l in p.stdout.splitlines() if l.startswith("{")]
    if not lines:
        return {"error": (p.stdout + p.stderr)[-800:]}
    return json.loads(lines[-1])


def main():
    import importlib

    C16 = importlib.import_module("contracts.C16")
    from pyvc import source
    from pyvc.interp import ClassRef

    evals, viol, samples = 0, [], []
    configs = [(["fe1"], None, ["f1"], ()), (["fe1"], {"fe1": ["b", "c"]}, [], ()), (["fe1", "fe2"], None, ["f1"], ()), ([], None, ["f1"], ("AA", "BB"))]
    for trial in range(a.n):
        fes, params, features, states = configs[trial % len(configs)]
        rows = []
        for i in range(N):
            r = {"postal_code": rnd.choice(["AA", "BB"]), "geographic_unit_fips": f"u{i}", "reporting": 1 if (i == 0 or rnd.random() < 0.5) else 0, "unit_category": "expected" if (i == 0 or rnd.random() < 0.8) else "unexpected"}
            for f_ in features:
                r[f_] = rnd.choice([-1.5, -0.25, 0.0, 0.5, 2.0, 3.25])
            for fe in fes:
                r[fe] = rnd.choice(C16.LEVELS[fe])
            rows.append(r)
        fixed = {fe: (params[fe] if params else "all") for fe in fes} if params else list(fes)
        exp = real({"rows": rows, "features": features, "fixed_effects": fixed, "states": list(states)})
        if "error" in exp:
            viol.append({"id": f"t{trial}", "what": "real run failed", "detail": exp["error"][-300:]})
            continue
        ex = Explorer()
        ex.pending = [[]]
        found = 0
        n_paths = 0
        while ex.pending:
            dec = ex.pending.pop()
            ctx = PathCtx(dec, ex)
            h = api.Harness(ctx, {"prop": "CONF", "name": "featurizer", "fns": []}, "quick")
            try:
                root, df, cols = C16._world(h, fes, features, states)
                parts = C16.FEATQ.split(".")
                mod = source.module(".".join(parts[:-1]))
                fz = ClassRef(mod, mod.classes[parts[-1]]).instantiate(h.interp, [list(features), fixed], {"states_for_separate_model": list(states)})
                k1, x_all = h.call_method(fz, "prepare_data", df, center_features=True, scale_features=False, add_intercept=True)
                if k1 == "raise":
                    continue
                k2, fit = h.call_method(fz, "filter_to_active_features", x_all)
                k3, hold = h.call_method(fz, "generate_holdout_data", x_all)
            except InfeasiblePath:
                continue
            n_paths += 1
            if k2 == "raise" or k3 == "raise":
                continue
            s = z3.Solver()
            s.set("timeout", 30000)
            for f in ctx.pc:
                s.add(f)
            s.add(root.n == N)
            fn = h.syms
            for i, r in enumerate(rows):
                s.add(fn["fips_units"](i) == z3.StringVal(r["geographic_unit_fips"]), fn["postal_code"](i) == z3.StringVal(r["postal_code"]), fn["reporting"](i) == r["reporting"], fn["unit_category"](i) == z3.StringVal(r["unit_category"]))
                for f_ in features:
                    fr = Fraction(r[f_]).limit_denominator(1000)
                    s.add(fn[f_](i) == z3.RealVal(f"{fr.numerator}/{fr.denominator}"))
                for fe in fes:
                    s.add(fn[fe](i) == z3.StringVal(r[fe]))
            # the reductions are uninterpreted symbols tied to the rows only through lemma instances: for a CONCRETE
            # frame of N rows give them their definition (finite sum / disjunction / count over the N rows)
            from pyvc import frames as _fr

            at = lambda t, i: z3.substitute(t, (root.u, z3.IntVal(i)))  # noqa: E731
            for d in ctx.__dict__.get("_sums", []):
                if d.space is root and not d.rest_idx:
                    s.add(d.sym == z3.Sum([z3.If(at(d.dom, i), at(d.summand, i), 0) for i in range(N)]))
            for rec in ctx.__dict__.get("_anyall", []):
                if rec["root"] is root:
                    s.add(rec["hit"] == z3.Or(*[rec["body"](z3.IntVal(i)) for i in range(N)]))
            for (rn, _k), (c, dom) in list(_fr._COUNTS.items()):
                if rn == root.name and z3.is_const(c):
                    s.add(c == z3.Sum([z3.If(at(dom, i), 1, 0) for i in range(N)]))
            if s.check() != z3.sat:
                continue
            found += 1
            m = s.model()
            evals += 1

            def table(fr_):
                out = []
                for i in range(N):
                    row = []
                    for c in fr_.cols:
                        v = m.eval(z3.substitute(fr_.col(c).t, (root.u, z3.IntVal(i))), model_completion=True)
                        if z3.is_int_value(v):
                            row.append(float(v.as_long()))
                        elif z3.is_rational_value(v):
                            row.append(float(Fraction(v.numerator_as_long(), v.denominator_as_long())))
                        elif z3.is_algebraic_value(v):
                            row.append(float(v.approx(12).as_fraction()))
                        else:
                            row.append(None)
                    out.append(row)
                return out

            bad = None
            if list(x_all.cols) != exp["complete"] or list(fit.cols) != exp["active"] or list(hold.cols) != exp["active"]:
                bad = {"columns": [list(x_all.cols), exp["complete"], list(fit.cols), exp["active"]]}
            else:
                for nm, fr_, want in (("prepared", x_all, exp["x"]), ("fit", fit, exp["fit"]), ("prediction", hold, exp["hold"])):
                    got = table(fr_)
                    for i in range(N):
                        for j, (g, w) in enumerate(zip(got[i], want[i])):
                            if g is None or abs(g - w) > 1e-9:
                                bad = bad or {"matrix": nm, "row": i, "column": list(fr_.cols)[j], "symbolic": g, "pandas": w}
            if bad:
                viol.append({"id": f"t{trial}", "what": "symbolic result and real pandas result differ", "config": [fes, params, features, list(states)], "rows": rows, **bad})
            elif len(samples) < 2:
                samples.append({"config": [fes, params, features, list(states)], "columns": exp["active"], "paths_explored": n_paths})
        if found != 1:
            viol.append({"id": f"t{trial}", "what": f"{found} symbolic paths are consistent with the concrete frame (exactly one expected)", "config": [fes, params, features, list(states)], "rows": rows})
    print(json.dumps({"evaluations": evals, "distinct_nontrivial": evals, "rule": f"random frames of {N} units evaluated through the symbolic result of the real Featurizer vs the real pandas run (complete / active column lists and every cell of the prepared, fitting and prediction matrices)", "samples": samples, "violations": viol[:5], "exhaustive": False}))


if __name__ == "__main__":
    from pyvc.values import Undecided as _Undecided

    try:
        main()
    except _Undecided as _e:
        print(json.dumps({"status": "undecided", "note": f"the symbolic side left the modelled subset: {_e}", "evaluations": 0, "violations": []}))
