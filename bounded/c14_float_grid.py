"""Bounded companion of C14 (cross-check of A-REAL): the REAL functions and the REAL statements
`train_rows = ...` / `correction_quantile = ...` (compiled from /repo's source text) are evaluated in CPython floats
for every alpha = k/1000 (quick: k/100) and every n from the model's minimum up to 5000:
train_rows >= 1, calibration rows >= 1, 0 < correction quantile < 1."""
import argparse
import ast
import inspect
import json
import math
import textwrap

ap = argparse.ArgumentParser()
ap.add_argument("--tier", default="quick")
ap.add_argument("--seed", type=int, default=0)
a = ap.parse_args()

import elexmodel.models.ConformalElectionModel as CM  # noqa: E402
import elexmodel.models.NonparametricElectionModel as NM  # noqa: E402


def stmt(fn, name, supplied=()):
    """the right-hand side of the real statement `name = ...`; a local it reads that ONE earlier top-level statement of the
    function defines (and nothing else stores to) is replaced by that statement's right-hand side -- so that extracting a
    sub-expression into a local just before the statement keeps the check on the real text"""
    src = textwrap.dedent(inspect.getsource(fn))
    fdef = ast.parse(src).body[0]
    body = fdef.body
    idx = [i for i, n in enumerate(body) if isinstance(n, ast.Assign) and len(n.targets) == 1 and isinstance(n.targets[0], ast.Name) and n.targets[0].id == name]
    if not idx:
        for n in ast.walk(fdef):
            if isinstance(n, ast.Assign) and len(n.targets) == 1 and isinstance(n.targets[0], ast.Name) and n.targets[0].id == name:
                return compile(ast.Expression(n.value), "<real statement>", "eval"), ast.unparse(n.value)
        raise SystemExit(f"statement {name} not found")
    i0 = idx[-1]
    expr = body[i0].value
    for _ in range(8):
        reads = {x.id for x in ast.walk(expr) if isinstance(x, ast.Name) and isinstance(x.ctx, ast.Load)}
        done = True
        for nm in reads - set(supplied):
            defs = [j for j in range(i0) if isinstance(body[j], ast.Assign) and len(body[j].targets) == 1 and isinstance(body[j].targets[0], ast.Name) and body[j].targets[0].id == nm]
            stores = [j for j in range(i0) if any(isinstance(x, ast.Name) and x.id == nm and isinstance(x.ctx, ast.Store) for x in ast.walk(body[j]))]
            if len(defs) == 1 and stores == defs:

                class Sub(ast.NodeTransformer):
                    def visit_Name(self, node, nm=nm, val=body[defs[0]].value):
                        return val if (node.id == nm and isinstance(node.ctx, ast.Load)) else node

                expr = ast.fix_missing_locations(Sub().visit(expr))
                done = False
        if done:
            break
    return compile(ast.Expression(expr), "<real statement>", "eval"), ast.unparse(expr)


train_code, train_src = stmt(CM.ConformalElectionModel.get_unit_prediction_interval_bounds, "train_rows", supplied=("math", "self", "conf_frac", "max", "min"))
q_code, q_src = stmt(NM.NonparametricElectionModel.get_unit_prediction_intervals, "correction_quantile", supplied=("alpha", "prediction_intervals"))
m = NM.NonparametricElectionModel({})


class Obj:
    pass


class Shape:
    def __init__(self, n):
        self.shape = (n,)


step = 10 if a.tier == "quick" else 1
viol, evals, nontriv, samples = [], 0, 0, []
for k in range(step, 1000, step):
    alpha = k / 1000
    mn = m.get_minimum_reporting_units(alpha)
    if mn > 5000:
        continue
    for n in range(mn, 5001):
        conf = m._compute_conf_frac(n, alpha)
        s = Obj()
        s.n_train = n
        train = eval(train_code, {"math": math, "self": s, "conf_frac": conf, "max": max, "min": min})
        ncal = n - train
        evals += 1
        ok = train >= 1 and ncal >= 1
        if ok:
            pi = Obj()
            pi.conformalization = Shape(ncal)
            q = eval(q_code, {"alpha": alpha, "prediction_intervals": pi})
            ok = 0 < q < 1
        if n == mn:
            nontriv += 1
            if len(samples) < 3:
                samples.append({"alpha": alpha, "n": n, "conf_frac": conf, "train_rows": train, "calibration_rows": ncal})
        if not ok:
            viol.append({"id": f"a{k}n{n}", "alpha": alpha, "n": n, "conf_frac": conf, "train_rows": train, "calibration_rows": ncal})
            if len(viol) > 5:
                break
    if len(viol) > 5:
        break
print(json.dumps({"evaluations": evals, "distinct_nontrivial": nontriv, "rule": f"alpha = k/1000 step {step}, n from the minimum to 5000; real statements: train_rows = {train_src}; correction_quantile = {q_src}; non-trivial = n exactly at the minimum", "samples": samples, "violations": viol, "exhaustive": True}))
