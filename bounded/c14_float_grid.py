"""Bounded companion of C14 (cross-check of A-REAL): the REAL functions and the REAL statements
`train_rows = ...` / `correction_quantile = ...` (compiled from /repo's source text) are evaluated in CPython floats
for every alpha = k/1000 (quick: k/100) and every n from the model's minimum up to 5000:
train_rows >= 1, calibration rows >= 1, 0 < correction quantile < 1."""
import argparse
import ast
import inspect
import json
import math
import textwrap

ap = argparse.ArgumentParser()
ap.add_argument("--tier", default="quick")
ap.add_argument("--seed", type=int, default=0)
a = ap.parse_args()

import elexmodel.models.ConformalElectionModel as CM  # noqa: E402
import elexmodel.models.NonparametricElectionModel as NM  # noqa: E402


def stmt(fn, name):
    src = textwrap.dedent(inspect.getsource(fn))
    for n in ast.walk(ast.parse(src)):
        if isinstance(n, ast.Assign) and len(n.targets) == 1 and isinstance(n.targets[0], ast.Name) and n.targets[0].id == name:
            return compile(ast.Expression(n.value), "<real statement>", "eval"), ast.unparse(n.value)
    raise SystemExit(f"statement {name} not found")


train_code, train_src = stmt(CM.ConformalElectionModel.get_unit_prediction_interval_bounds, "train_rows")
q_code, q_src = stmt(NM.NonparametricElectionModel.get_unit_prediction_intervals, "correction_quantile")
m = NM.NonparametricElectionModel({})


class Obj:
    pass


class Shape:
    def __init__(self, n):
        self.shape = (n,)


step = 10 if a.tier == "quick" else 1
viol, evals, nontriv, samples = [], 0, 0, []
for k in range(step, 1000, step):
    alpha = k / 1000
    mn = m.get_minimum_reporting_units(alpha)
    if mn > 5000:
        continue
    for n in range(mn, 5001):
        conf = m._compute_conf_frac(n, alpha)
        s = Obj()
        s.n_train = n
        train = eval(train_code, {"math": math, "self": s, "conf_frac": conf, "max": max, "min": min})
        ncal = n - train
        evals += 1
        ok = train >= 1 and ncal >= 1
        if ok:
            pi = Obj()
            pi.conformalization = Shape(ncal)
            q = eval(q_code, {"alpha": alpha, "prediction_intervals": pi})
            ok = 0 < q < 1
        if n == mn:
            nontriv += 1
            if len(samples) < 3:
                samples.append({"alpha": alpha, "n": n, "conf_frac": conf, "train_rows": train, "calibration_rows": ncal})
        if not ok:
            viol.append({"id": f"a{k}n{n}", "alpha": alpha, "n": n, "conf_frac": conf, "train_rows": train, "calibration_rows": ncal})
            if len(viol) > 5:
                break
    if len(viol) > 5:
        break
print(json.dumps({"evaluations": evals, "distinct_nontrivial": nontriv, "rule": f"alpha = k/1000 step {step}, n from the minimum to 5000; real statements: train_rows = {train_src}; correction_quantile = {q_src}; non-trivial = n exactly at the minimum", "samples": samples, "violations": viol, "exhaustive": True}))
