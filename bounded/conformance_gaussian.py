#!/usr/local/bin/python3-vt
"""Conformance (differential) test of the theory entries behind the C15 / C02 / C03 gaussian aggregate proof (multi-level
tables, coarse/fine and cross merges, groupby.apply, merge indicator + index positions + iloc, concat / flatten, fillna,
assign with lambdas, norm.ppf, sqrt, rounding):

the symbolic result of executing the REAL GaussianElectionModel.get_aggregate_prediction_intervals with pyvc (fit under the
contract FitSpec) is evaluated on random small concrete elections -- every input symbol pinned, every reduction symbol
given its finite definition, the per-level statistics pinned to what the real GaussianModel._fit returns -- and compared,
group by group, with the bounds the real pandas code returns under /venv/bin/python.  A test of assumptions, not a proof."""
import argparse
import itertools
import json
import os
import random
import subprocess
import sys
from fractions import Fraction

HERE = os.path.dirname(os.path.dirname(os.path.abspath(__file__)))
sys.path.insert(0, HERE)
import z3  # noqa: E402

from pyvc import SRC, VENV_PY, api, frames, theory_np  # noqa: E402
from pyvc.interp import Explorer, InfeasiblePath, PathCtx  # noqa: E402

ap = argparse.ArgumentParser()
ap.add_argument("--tier", default="thorough")
ap.add_argument("--seed", type=int, default=0)
ap.add_argument("--n", type=int, default=6)
a = ap.parse_args()
rnd = random.Random(a.seed + 17)
KEYCOLS = ["postal_code", "county_fips", "county_classification", "district"]

REAL = r'''
import json, sys
import numpy as np, pandas as pd
from scipy import stats
from elexmodel.models.GaussianElectionModel import GaussianElectionModel
from elexmodel.distributions.GaussianModel import GaussianModel
from elexmodel.models.ConformalElectionModel import PredictionIntervals
p = json.load(sys.stdin)
rows, keys, alpha = p["rows"], p["keys"], p["alpha"]
E = "turnout"
def frame(kind):
    rs = [r for r in rows if r["kind"] == kind]
    df = pd.DataFrame({"postal_code": [r["postal_code"] for r in rs], "county_fips": [r["county_fips"] for r in rs], "county_classification": [r["county_classification"] for r in rs], "district": [r["district"] for r in rs], "geographic_unit_fips": [r["id"] for r in rs], "results_turnout": [float(r["res"]) for r in rs], "reporting": 1 if kind == "R" else 0})
    if kind != "T":
        df["last_election_results_turnout"] = [float(r["last"]) for r in rs]
        df["unit_category"] = "expected"
    else:
        df["unit_category"] = "unexpected"
    df["pred_turnout"] = df["results_turnout"]
    return df, rs
rep, rs_rep = frame("R"); non, rs_non = frame("N"); unx, _ = frame("T")
cal_rs = [r for r in rs_rep if r["cal"]]
conf = rep[rep.geographic_unit_fips.isin([r["id"] for r in cal_rs])].copy().reset_index(drop=True)
conf["lower_bounds"] = [next(r["lb"] for r in cal_rs if r["id"] == i) for i in conf.geographic_unit_fips]
conf["upper_bounds"] = [next(r["ub"] for r in cal_rs if r["id"] == i) for i in conf.geographic_unit_fips]
settings = {"save_conformalization": False, "election_id": "e", "office": "S", "geographic_unit_type": "county"}
m = GaussianElectionModel(settings)
m.alpha_to_nonreporting_lower_bounds[alpha] = np.array([r["nrl"] for r in rs_non])
m.alpha_to_nonreporting_upper_bounds[alpha] = np.array([r["nru"] for r in rs_non])
est = m.get_aggregate_predictions(rep, non, unx, keys, E)
pi = m.get_aggregate_prediction_intervals(rep, non, unx, keys, alpha, PredictionIntervals(None, None, conf), E)
out = {"groups": [list(map(str, g)) for g in est[keys].values.tolist()], "lower": [float(x) for x in np.asarray(pi[0])], "upper": [float(x) for x in np.asarray(pi[1])], "zq": float(stats.norm.ppf((3 + alpha) / 4)), "stats": {}}
gm = GaussianModel(settings)
for j in range(len(keys) + 1):
    tab = gm._fit(conf, E, keys[:j], alpha)
    d = {}
    for _, r in tab.iterrows():
        g = "|".join(str(r[k]) for k in keys[:j])
        d[g] = {c: float(r[c]) for c in ("mu_lower_bound", "mu_upper_bound", "sigma_lower_bound", "sigma_upper_bound", "var_inflate")}
    out["stats"][str(j)] = d
print(json.dumps(out))
'''


def real(payload):
    p = subprocess.run([VENV_PY, "-W", "ignore", "-c", REAL], input=json.dumps(payload), capture_output=True, text=True, env=dict(os.environ, PYTHONPATH=SRC + os.pathsep + HERE, APP_ENV="local", DATA_ENV="dev", MODEL_S3_BUCKET="b", MODEL_S3_PATH_ROOT="r"), cwd=HERE)
    lines = [l for l in p.stdout.splitlines() if l.startswith("{")]
    if not lines:
        return {"error": (p.stdout + p.stderr)[-1200:]}
    return json.loads(lines[-1])


def rv(x):
    fr = Fraction(x).limit_denominator(10**9) if not isinstance(x, int) else Fraction(x)
    return z3.RealVal(f"{fr.numerator}/{fr.denominator}")


def world(layout):
    """layout: list of (state, sub, n_cal, n_rep_extra, n_non, n_third)"""
    rows, i = [], 0
    for st, sub, ncal, nrep, nnon, nthird in layout:
        for kind, n, cal in (("R", ncal, True), ("R", nrep, False), ("N", nnon, False), ("T", nthird, False)):
            for _ in range(n):
                last = rnd.choice([300, 500, 900, 1500])
                rows.append({"id": f"u{i}", "kind": kind, "cal": cal, "postal_code": st, "county_fips": sub, "county_classification": sub, "district": sub, "res": int(last * (1.05 if kind == "R" else rnd.choice([0.1, 0.3, 2.5]))), "last": last + 1, "lb": round(rnd.uniform(-0.05, 0.07), 4), "ub": round(rnd.uniform(-0.03, 0.08), 4), "nrl": rnd.choice([-0.06, -0.03, -0.08]), "nru": rnd.choice([0.05, 0.09, 0.12])})
                i += 1
    return rows


def main():
    import importlib

    C15 = importlib.import_module("contracts.C15")
    evals, viol, samples, skipped = 0, [], [], []
    layouts = [
        [("AA", "a1", 11, 0, 1, 0), ("AA", "a2", 2, 1, 1, 1), ("BB", "b1", 2, 0, 1, 0)],
        [("AA", "a1", 3, 0, 1, 0), ("AA", "a2", 2, 0, 0, 1), ("BB", "b1", 4, 1, 2, 0), ("BB", "b2", 0, 0, 1, 0)],
        [("AA", "a1", 10, 0, 1, 0), ("BB", "b1", 12, 0, 1, 1)],
    ]
    keysets = [["postal_code", "county_fips"], ["postal_code"], ["postal_code", "district"]]
    for trial in range(a.n):
        rows = world(layouts[trial % len(layouts)])
        keys = keysets[(trial // len(layouts)) % len(keysets)]
        alpha = rnd.choice([0.9, 0.7])
        N = len(rows)
        exp = real({"rows": rows, "keys": keys, "alpha": alpha})
        if "error" in exp:
            viol.append({"id": f"t{trial}", "what": "real run failed", "detail": exp["error"][-400:]})
            continue
        ex = Explorer()
        ex.pending = [[]]
        found = 0
        while ex.pending:
            dec = ex.pending.pop()
            ctx = PathCtx(dec, ex)
            h = api.Harness(ctx, {"prop": "CONF", "name": "gaussian_aggregate", "fns": []}, "quick")
            try:
                t, inCal, cal, alpha_s, gmc, self_, kind, res = C15.gaussian_aggregate_run(h, keys, opaque_round=False)
            except InfeasiblePath:
                continue
            if kind == "raise" or self_.attrs.get("modeled_bounds_agg") is None:
                continue
            root = t.root
            fn = h.syms
            # ---- evaluation instead of solving (pyvc.concrete): every input symbol pinned, every reduction symbol defined
            import math

            from pyvc.concrete import Evaluator, rv as _rv  # noqa: F401

            values = {k: sorted({r[k] for r in rows}) for k in KEYCOLS}
            E = Evaluator(ctx, root, N, values)
            pin, ev = E.pin, E.ev
            pin(alpha_s.t, rv(alpha))
            for i, r in enumerate(rows):
                I = z3.IntVal(i)
                pin(fn["fips_units"](I), z3.StringVal(r["id"]))
                for nm, v in (("inRep", r["kind"] == "R"), ("inNonrep", r["kind"] == "N"), ("inThird", r["kind"] == "T"), ("inCal", bool(r["cal"]))):
                    pin(fn[nm](I), z3.BoolVal(v))
                pin(fn["results_turnout"](I), z3.IntVal(r["res"]))
                pin(fn["last_turnout"](I), z3.IntVal(r["last"]))
                pin(fn["unit_category_third"](I), z3.StringVal("unexpected"))
                for k in KEYCOLS:
                    pin(fn[k](I), z3.StringVal(r[k]))
                    if k != "postal_code":
                        pin(fn[f"null_{k}_third"](I), z3.BoolVal(False))
                for nm, key in (("lower_bounds", "lb"), ("upper_bounds", "ub"), ("nr_lower", "nrl"), ("nr_upper", "nru")):
                    pin(fn[nm](I), rv(r[key]))
            spec = gmc.calls[0]["spec"]
            L = len(keys)
            skip = False
            for j in range(L + 1):
                kvj = [spec.gs[j].keyvars[k] for k in keys[:j]]
                for g, st in exp["stats"][str(j)].items():
                    gv = g.split("|") if j else []
                    sub = [(kv_, z3.StringVal(v)) for kv_, v in zip(kvj, gv)]
                    for c in ("mu_lower_bound", "mu_upper_bound", "sigma_lower_bound", "sigma_upper_bound"):
                        if not math.isfinite(st[c]) or (c.startswith("sigma") and st[c] <= 0):
                            skip = True  # outside A-SIGMA (degenerate calibration scores): not a conformance case
                            continue
                        term = spec.stats[j][c]
                        pin(z3.simplify(z3.substitute(term, *sub) if sub else term), rv(st[c]))
            if skip:
                found = 1
                skipped.append(trial)
                break
            for zc in {str(z_): z_ for f in ctx.pc for z_ in C15._consts(f) if str(z_).startswith("z_q")}.values():
                pin(zc, rv(exp["zq"]))

            pending = E.define_reductions()
            if os.environ.get("VERIF_DEBUG") and pending:
                for lhs, rhs in pending[:3]:
                    print("UNRESOLVED", str(lhs)[:100], "::", str(ev(rhs))[:300], file=sys.stderr, flush=True)
            # the path is THE path of this election iff every branch condition evaluates to true
            pm = E.path_matches()
            if pm is False:
                continue
            if pm is None:
                viol.append({"id": f"t{trial}", "what": "a branch condition could not be evaluated", "keys": keys})
                continue
            found += 1
            evals += 1
            lower, upper = res.lower, res.upper
            ax = lower.axes[0]
            kvL = [spec.gs[L].keyvars[k] for k in keys]

            num = E.num

            bad = None
            for g, el, eu in zip(exp["groups"], exp["lower"], exp["upper"]):
                sub = [(kv_, z3.StringVal(v)) for kv_, v in zip(kvL, g)]
                if not z3.is_true(ev(z3.substitute(ax.present(), *sub))):
                    bad = bad or {"group": g, "what": "row missing in the symbolic result"}
                    continue
                gl, gu = num(z3.substitute(lower.t, *sub)), num(z3.substitute(upper.t, *sub))
                if gl is None or gu is None or abs(gl - el) > 1 or abs(gu - eu) > 1:
                    bad = bad or {"group": g, "symbolic": [gl, gu], "pandas": [el, eu]}
            if bad:
                viol.append({"id": f"t{trial}", "what": "symbolic result and real pandas result differ", "keys": keys, "alpha": alpha, **bad, "rows": rows})
            elif len(samples) < 2:
                samples.append({"keys": keys, "alpha": alpha, "groups": exp["groups"], "lower": exp["lower"]})
        if found != 1:
            viol.append({"id": f"t{trial}", "what": f"{found} symbolic paths are consistent with the concrete election (exactly one expected)", "keys": keys})
    print(json.dumps({"evaluations": evals, "distinct_nontrivial": evals, "rule": "random small elections (groups served by their own model / their state / all units, groups with only outstanding or only unexpected units) evaluated through the symbolic result of the real gaussian aggregate function vs the real pandas run, per group, tolerance 1 vote", "samples": samples, "skipped_outside_A_SIGMA": len(skipped), "violations": viol[:5], "exhaustive": False}))


if __name__ == "__main__":
    from pyvc.values import Undecided as _Undecided

    try:
        main()
    except _Undecided as _e:
        print(json.dumps({"status": "undecided", "note": f"the symbolic side left the modelled subset: {_e}", "evaluations": 0, "violations": []}))
