"""Bounded companion of C11 for the bootstrap estimator (the proof covers the conformal estimators): add one
unexpected unit to a real run and compare every table.  Case A: the unit belongs to a known state; case B: to a
state that is not in the baseline (known finding F9: one more contest changes the shape of the random draws)."""
import argparse
import json

ap = argparse.ArgumentParser()
ap.add_argument("--tier", default="quick")
ap.add_argument("--seed", type=int, default=0)
a = ap.parse_args()

import numpy as np  # noqa: E402
import pandas as pd  # noqa: E402

import verif_replays as v  # noqa: E402

base = v.synthetic(40, seed=a.seed + 1)
cur = v.feed(base, [100] * 25 + [40] * 15, seed=a.seed)
kw = dict(estimands=("margin",), pi_method="bootstrap", prediction_intervals=(0.9,), aggregates=("postal_code", "county_fips", "unit"), features=("baseline_normalized_margin",), model_parameters={"B": 30})
_, r0 = v.run_client(cur, base, **kw)
viol, samples, evals = [], [], 0
for case, pc, fid in (("known_state", "AA", "AA01_9999"), ("new_county", "BB", "BB77_9999"), ("new_state", "ZZ", "ZZ00_9999")):
    extra = cur.iloc[[0]].copy()
    extra["postal_code"], extra["geographic_unit_fips"] = pc, fid
    extra["results_dem"], extra["results_gop"], extra["results_turnout"] = 70, 30, 110
    evals += 1
    try:
        _, r1 = v.run_client(pd.concat([cur, extra], ignore_index=True), base, **kw)
    except Exception as e:  # noqa
        viol.append({"id": case, "what": f"run failed: {type(e).__name__}: {e}", "known": "F9" if case == "new_state" else None})
        continue
    u0, u1 = r0["unit_data"].set_index("geographic_unit_fips"), r1["unit_data"].set_index("geographic_unit_fips")
    ok_units = u1.drop(index=[fid]).equals(u0) and u1.loc[fid, "unit_category"] == "unexpected"
    s0, s1 = r0["state_data"].set_index("postal_code"), r1["state_data"].set_index("postal_code")
    others = [s for s in s0.index if s != pc]
    ok_states = s1.loc[others].equals(s0.loc[others])
    samples.append({"case": case, "other_units_identical": bool(ok_units), "other_states_identical": bool(ok_states)})
    if not (ok_units and ok_states):
        viol.append({"id": case, "what": "adding an unexpected unit changed other units / other states", "known": "F9" if case == "new_state" else None})
print(json.dumps({"evaluations": evals, "distinct_nontrivial": evals, "rule": "one bootstrap run without and three with an added unexpected unit (known state, new county, new state); everything outside the unit's own groups must be identical", "samples": samples, "violations": viol, "exhaustive": False}))
