"""Bounded stand-in for C19.get / wait_for_versions / make_request (generator + queue + try/except are outside the
executable subset of pyvc): the REAL S3VersionUtil.get against a scripted listing service and transfer manager.
Exhaustive over: number of versions 0..NV, page size 1..3, every window cut (incl. open ends), sampling step 1..3,
every subset of failing downloads that leaves at least one success."""
import argparse
import io
import itertools
import json
from datetime import datetime, timedelta, timezone

ap = argparse.ArgumentParser()
ap.add_argument("--tier", default="quick")
ap.add_argument("--seed", type=int, default=0)
a = ap.parse_args()

import pandas as pd  # noqa: E402
from dateutil import tz  # noqa: E402

import verif_replays as v  # noqa: E402
from elexmodel.handlers.s3 import S3VersionUtil  # noqa: E402

T0 = datetime(2024, 11, 5, 20, 0, tzinfo=timezone.utc)


class Future:
    def __init__(self, fail):
        self.fail = fail

    def result(self):
        if self.fail:
            raise RuntimeError("download failed")
        return None


class Manager:
    def __init__(self, fail_ids):
        self.fail_ids = fail_ids
        self.requested = []

    def download(self, bucket, key, fileobj, extra_args=None, subscribers=None):
        vid = extra_args["VersionId"]
        self.requested.append(vid)
        fileobj.write(f"geographic_unit_fips,dem,gop,total\n{vid},1,2,3\n{vid}b,4,5,9\n".encode())
        return Future(vid in self.fail_ids)


NV = 5 if a.tier == "quick" else 6
evals = nontrivial = 0
viol, samples = [], []
for n in range(0, NV + 1):
    times = [T0 - timedelta(minutes=10 * i) for i in range(n)]  # newest first
    cuts = [None] + [T0 - timedelta(minutes=10 * i + 5) for i in range(-1, n)]
    for page in (1, 2, 3):
        for start, end in itertools.product(cuts, cuts):
            want_list = [i for i, t in enumerate(times) if (start is None or t >= start) and (end is None or t <= end)]
            for sample in (1, 2, 3):
                chosen = want_list[::sample]
                fail_sets = [()]
                if chosen:
                    fail_sets = [fs for k in range(0, len(chosen)) for fs in itertools.combinations(chosen, k)]
                    if a.tier == "quick" and len(fail_sets) > 4:
                        fail_sets = fail_sets[:2] + fail_sets[-2:]
                for fs in fail_sets:
                    u = S3VersionUtil.__new__(S3VersionUtil)
                    u.bucket_name, u.start_date, u.end_date, u.tz = "b", start, end, "America/New_York"
                    u.s3_client = v._FakeVersionClient(times, [page])
                    u.manager = Manager({f"v{i}" for i in fs})
                    evals += 1
                    try:
                        df = u.get("p", sample=sample)
                    except Exception as e:  # noqa
                        viol.append({"id": f"exc-{evals}", "n": n, "page": page, "window": [str(start), str(end)], "sample": sample, "fail": list(fs), "exc": f"{type(e).__name__}: {e}"})
                        continue
                    if not want_list:
                        ok = df is None
                        what = "no version in the window => None"
                    else:
                        nontrivial += 1
                        good = [i for i in chosen if i not in fs]
                        ok = u.manager.requested == [f"v{i}" for i in chosen] and df is not None
                        if ok:
                            got = list(df["geographic_unit_fips"])
                            ok = got == [x for i in good for x in (f"v{i}", f"v{i}b")]
                            stamps = {r: ts for r, ts in zip(df["geographic_unit_fips"], df["last_modified"])}
                            for i in good:
                                exp = pd.to_datetime(times[i]).astimezone(tz=tz.gettz("America/New_York"))
                                ok = ok and stamps[f"v{i}"] == exp and stamps[f"v{i}b"] == exp and str(stamps[f"v{i}"].tzinfo) != "UTC"
                            ok = ok and list(df["results_dem"]) == list(df["dem"]) and list(df["results_turnout"]) == list(df["total"])
                        what = "downloads every sample-th listed version, own stamp per version, failures skipped"
                    if not ok:
                        viol.append({"id": f"v-{evals}", "n": n, "page": page, "window": [str(start), str(end)], "sample": sample, "fail": list(fs), "what": what})
                    if len(samples) < 3 and want_list and fs:
                        samples.append({"n_versions": n, "page": page, "sample": sample, "failing": list(fs), "rows": 0 if df is None else len(df)})
print(json.dumps({"evaluations": evals, "distinct_nontrivial": nontrivial, "rule": f"all histories of 0..{NV} versions x page size 1..3 x every window cut x sample 1..3 x failure subsets (>=1 success); non-trivial = at least one version in the window", "samples": samples, "violations": viol[:5], "exhaustive": a.tier != "quick"}))
