#!/usr/local/bin/python3-vt
"""Conformance (differential) test of the positional-array theory (pyvc/posarr.py: np.argsort as a sorting permutation,
gather, np.cumsum, np.where(mask)[0][-1], a[k]) behind the proof of the body of math_utils.weighted_median:

the REAL weighted_median is executed symbolically for arrays of unknown length; for random small concrete arrays (ties,
a heavy first element, running totals that hit 1/2 exactly; dyadic weights so that the float arithmetic is exact) the
input symbols, the permutation numpy actually returned, the running totals and the selected position are pinned, exactly
one explored path must match, and the value of the symbolic result must equal what the real function returned under
/venv/bin/python.  A test of assumptions (A-ARGSORT, A-CUMSUM, A-WHERE and the interpreter), not a proof."""
import argparse
import json
import os
import random
import subprocess
import sys
from fractions import Fraction

HERE = os.path.dirname(os.path.dirname(os.path.abspath(__file__)))
sys.path.insert(0, HERE)
import z3  # noqa: E402

from pyvc import SRC, VENV_PY, api, posarr  # noqa: E402
from pyvc.concrete import Evaluator, rv  # noqa: E402
from pyvc.interp import Explorer, InfeasiblePath, PathCtx  # noqa: E402
from pyvc.values import SymRaise  # noqa: E402

ap = argparse.ArgumentParser()
ap.add_argument("--tier", default="thorough")
ap.add_argument("--seed", type=int, default=0)
ap.add_argument("--n", type=int, default=40)
a = ap.parse_args()
rnd = random.Random(a.seed + 31)
WM = "elexmodel.utils.math_utils.weighted_median"

REAL = r'''
import json, sys, warnings
import numpy as np
from elexmodel.utils.math_utils import weighted_median
out = []
for c in json.load(sys.stdin):
    x, w = np.array(c["x"], dtype=float), np.array(c["w"], dtype=float)
    with warnings.catch_warnings():
        warnings.simplefilter("ignore")
        try:
            m = float(weighted_median(x.copy(), w.copy()))
            exc = None
        except Exception as e:
            m, exc = None, type(e).__name__
    out.append({"result": m, "exc": exc, "argsort": [int(i) for i in np.argsort(x)]})
print(json.dumps({"cases": out}))
'''


def real(cases):
    p = subprocess.run([VENV_PY, "-W", "ignore", "-c", REAL], input=json.dumps(cases), capture_output=True, text=True, env=dict(os.environ, PYTHONPATH=SRC + os.pathsep + HERE, APP_ENV="local", DATA_ENV="dev", MODEL_S3_BUCKET="b", MODEL_S3_PATH_ROOT="r"), cwd=HERE)
    lines = [l for l in p.stdout.splitlines() if l.startswith("{")]
    if not lines:
        return {"error": (p.stdout + p.stderr)[-1200:]}
    return json.loads(lines[-1])


def main():
    cases = [{"x": [3.0], "w": [1.0]}, {"x": [1.0, 2.0], "w": [0.5, 0.5]}, {"x": [2.0, 1.0], "w": [0.75, 0.25]}, {"x": [1.0, 2.0, 2.0, 3.0], "w": [0.25, 0.25, 0.25, 0.25]}, {"x": [5.0, 5.0, 5.0, 1.0], "w": [0.25, 0.25, 0.25, 0.25]}]
    while len(cases) < a.n:
        n = rnd.randint(1, 7)
        raw = [rnd.randint(1, 8) for _ in range(n)]
        tot = sum(raw)
        p2 = 1
        while p2 < tot:
            p2 *= 2
        raw[0] += p2 - tot
        cases.append({"x": [float(rnd.randint(0, 4)) for _ in range(n)], "w": [r / p2 for r in raw]})
    exp = real(cases)
    if "error" in exp:
        print(json.dumps({"evaluations": 0, "violations": [{"id": "real", "what": "real run failed", "detail": exp["error"][-400:]}], "rule": "", "exhaustive": False}))
        return
    evals, viol, samples = 0, [], []
    # the symbolic paths are the same for every concrete input: explore once, keep (ctx, world, result) per path
    paths = []
    ex = Explorer()
    ex.pending = [[]]
    while ex.pending:
        dec = ex.pending.pop()
        ctx = PathCtx(dec, ex)
        h = api.Harness(ctx, {"prop": "CONF", "name": "posarr", "fns": []}, "quick")
        try:
            n = h.int("n")
            h.requires("n", n >= 1)
            world = posarr.PosWorld(h.interp, "wm", n.t, "CONF.posarr")
            x, w = world.array("wm_x"), world.array("wm_w")
            posarr.install(h.interp, world)
            world.instantiate(z3.IntVal(0))
            world.instantiate(n.t - 1)
            try:
                kind, res = h.call(WM, x, w)
            except SymRaise as e:  # pragma: no cover
                kind, res = "raise", e.exc
        except InfeasiblePath:
            continue
        paths.append((ctx, world, n, kind, res))
    for ci, (c, e) in enumerate(zip(cases, exp["cases"])):
        N = len(c["x"])
        xs_ = [Fraction(v) for v in c["x"]]
        ws_ = [Fraction(v) for v in c["w"]]
        pi = e["argsort"]
        found = 0
        for ctx, world, n, kind, res in paths:
            E = Evaluator(ctx, world.rows, N, {})
            E.pin(n.t, z3.IntVal(N))
            fx, fw = z3.Function("wm_x", z3.IntSort(), z3.RealSort()), z3.Function("wm_w", z3.IntSort(), z3.RealSort())
            for i in range(N):
                E.pin(fx(z3.IntVal(i)), rv(xs_[i]))
                E.pin(fw(z3.IntVal(i)), rv(ws_[i]))
            ok = True
            for perm in world.objects["perms"]:
                for p_ in range(N):
                    E.pin(perm.pi(z3.IntVal(p_)), z3.IntVal(pi[p_]))
            for cum, src in world.objects["cums"]:
                run = Fraction(0)
                for p_ in range(N):
                    v = E.ev(z3.simplify(src.fn(z3.IntVal(p_))))
                    if not z3.is_rational_value(v) and not z3.is_int_value(v):
                        ok = False
                        break
                    run += Fraction(v.numerator_as_long(), v.denominator_as_long())
                    E.pin(cum(z3.IntVal(p_)), rv(run))
            for k, mask in world.objects["lasts"]:
                hits = [p_ for p_ in range(N) if z3.is_true(E.ev(z3.simplify(mask.fn(z3.IntVal(p_)))))]
                if not hits:
                    ok = False  # this path took "selection not empty": it cannot be the path of this input
                    continue
                E.pin(k, z3.IntVal(hits[-1]))
            if not ok:
                continue
            pm = E.path_matches()
            if pm is False:
                continue
            if pm is None:
                viol.append({"id": f"c{ci}", "what": "a branch condition could not be evaluated", "case": c})
                continue
            found += 1
            evals += 1
            if kind == "raise":
                if e["exc"] != res.clsname:
                    viol.append({"id": f"c{ci}", "what": "symbolic run raises, real run does not (or another exception)", "symbolic": res.clsname, "real": e["exc"], "case": c})
                continue
            got = E.num(res.t)
            if e["exc"] is not None or got is None or abs(got - e["result"]) > 1e-12:
                viol.append({"id": f"c{ci}", "what": "symbolic result and real result differ", "symbolic": got, "real": e["result"], "real_exc": e["exc"], "case": c})
            elif len(samples) < 3:
                samples.append({"case": c, "result": got})
        if found != 1:
            viol.append({"id": f"c{ci}", "what": f"{found} symbolic paths are consistent with the concrete input (exactly one expected)", "case": c})
    print(json.dumps({"evaluations": evals, "distinct_nontrivial": evals, "paths": len(paths), "rule": "hand-picked and random arrays of 1..7 rows (scores in 0..4 with ties, dyadic positive weights summing to 1) evaluated through the symbolic result of the real weighted_median (permutation pinned to numpy's) vs the real run", "samples": samples, "violations": viol[:5], "exhaustive": False}))


if __name__ == "__main__":
    from pyvc.values import Undecided as _Undecided

    try:
        main()
    except _Undecided as _e:
        print(json.dumps({"status": "undecided", "note": f"the symbolic side left the modelled subset: {_e}", "evaluations": 0, "violations": []}))
