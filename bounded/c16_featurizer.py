"""Bounded stand-in for C16: the REAL Featurizer driven the way the models drive it (prepare_data on
[reporting + nonreporting], filter_to_active_features on the first n_train rows, generate_holdout_data on the rest),
checked clause by clause against the statement, over an exhaustively enumerated small scope:
  up to 2 fixed effects with up to 3 levels each, every assignment of levels to up to 5 units split into
  fitting rows (reporting & expected) / reporting-but-unexpected / nonreporting, user-selected level subsets
  ('other' pooling), with and without a continuous feature (centred), states_for_separate_model.
Dynamic column sets put prepare_data outside pyvc's executable subset; nothing here is counted as proved."""
import argparse
import itertools
import json

ap = argparse.ArgumentParser()
ap.add_argument("--tier", default="quick")
ap.add_argument("--seed", type=int, default=0)
a = ap.parse_args()

import numpy as np  # noqa: E402
import pandas as pd  # noqa: E402

import verif_replays as v  # noqa: F401,E402
from elexmodel.handlers.data.Featurizer import Featurizer  # noqa: E402

LEVELS = ["a", "b", "c"]
viol, samples = [], []
evals = nontriv = 0


check = v.featurizer_clauses


rng = np.random.default_rng(a.seed)
NU = 4 if a.tier == "quick" else 5
for n in range(2, NU + 1):
    for n_fit in range(1, n):
        for lv1 in itertools.product(LEVELS, repeat=n):
            for with_fe2, with_feat, sel in itertools.product((False, True), (False, True), (None, ["a"], ["b", "c"])):
                if a.tier == "quick" and with_fe2 and with_feat and sel is not None:
                    continue
                lv2 = tuple(LEVELS[(i * 2 + 1) % 3] for i in range(n)) if with_fe2 else None
                for unexpected_in_fit in ((False, True) if n_fit >= 2 else (False,)):
                    df = pd.DataFrame({"postal_code": ["AA" if i % 2 == 0 else "BB" for i in range(n)], "fe1": list(lv1), "reporting": [1] * n_fit + [0] * (n - n_fit), "unit_category": ["expected"] * n})
                    if unexpected_in_fit:
                        df.loc[n_fit - 1, "unit_category"] = "unexpected"
                    if with_fe2:
                        df["fe2"] = list(lv2)
                    feats = []
                    if with_feat:
                        df["baseline_normalized_margin"] = rng.normal(size=n)
                        df["x1"] = rng.normal(size=n)
                        feats = ["x1", "baseline_normalized_margin"]
                    fes = {"fe1": sel if sel is not None else "all"}
                    if with_fe2:
                        fes["fe2"] = "all"
                    evals += 1
                    fit_levels = set(df.fe1[: n_fit][(df.unit_category[:n_fit] == "expected")])
                    nontriv += int(bool(set(df.fe1[n_fit:]) - fit_levels))
                    try:
                        bad = check(df, n_fit, feats, fes)
                    except Exception as e:  # noqa
                        bad = {"clause": "no failure", "exc": f"{type(e).__name__}: {e}"}
                    if bad:
                        if len(viol) < 8:
                            viol.append({"id": f"v{evals}", "fe1": list(lv1), "fe2": list(lv2) if lv2 else None, "n_fit": n_fit, "selected": sel, "features": feats, "unexpected_in_fit": unexpected_in_fit, **bad})
                    elif len(samples) < 3 and set(df.fe1[n_fit:]) - fit_levels:
                        samples.append({"fe1": list(lv1), "n_fit": n_fit, "selected": sel, "features": feats})
# states_for_separate_model
for rep_states in (("AA",), ("AA", "BB"), ()):
    df = pd.DataFrame({"postal_code": ["AA", "AA", "BB", "BB"], "fe1": ["a", "b", "a", "b"], "reporting": [1 if s in rep_states else 0 for s in ["AA", "AA", "BB", "BB"]], "unit_category": ["expected"] * 4, "x1": [0.1, 0.4, -0.3, 0.9]})
    df = df.sort_values("reporting", ascending=False).reset_index(drop=True)
    n_fit = int(df.reporting.sum())
    if n_fit == 0:
        continue
    evals += 1
    try:
        bad = check(df, n_fit, ["x1"], {}, states_sep=("AA", "BB"))
    except Exception as e:  # noqa
        bad = {"clause": "no failure", "exc": f"{type(e).__name__}: {e}"}
    if bad:
        viol.append({"id": f"sep{evals}", "reporting_states": rep_states, **bad})
# _sort_features / _get_categories_for_fe on every list of up to 4 names from a small vocabulary
vocab = ["intercept", "intercept_AA", "baseline_normalized_margin", "baseline_normalized_margin_AA", "x1", "fe1_a", "fe1_b", "fe10_a"]
fz = Featurizer([], {})
for k in range(0, 5 if a.tier != "quick" else 4):
    for names in itertools.permutations(vocab, k):
        evals += 1
        out = fz._sort_features(list(names))
        rk = [0 if c.startswith("intercept") else 1 if c.startswith("baseline_normalized_margin") else 2 for c in out]
        stable = all([c for c in out if (0 if c.startswith("intercept") else 1 if c.startswith("baseline_normalized_margin") else 2) == r] == [c for c in names if (0 if c.startswith("intercept") else 1 if c.startswith("baseline_normalized_margin") else 2) == r] for r in (0, 1, 2))
        if sorted(out) != sorted(names) or rk != sorted(rk) or not stable:
            viol.append({"id": f"sort{evals}", "clause": "_sort_features: a stable permutation with intercept terms first, baseline margin terms next", "input": list(names), "output": out})
            break
print(json.dumps({"evaluations": evals, "distinct_nontrivial": nontriv, "rule": f"every assignment of 3 levels to 2..{NU} units x split point x second fixed effect x continuous features x user-selected subsets x unexpected unit among the reporting rows; non-trivial = a level occurs only outside the fitting rows", "samples": samples, "violations": viol, "exhaustive": a.tier != "quick"}, default=str))
