"""Bounded companion of C10: pairs of REAL client runs that differ in the live count of one unit; everything
outside that unit's own row / own groups must be bit-for-bit identical (this is the check that A-REAL and the
contracts of the solver / featurizer do not hide a float-level coupling).  Three estimators x kinds of perturbed
unit (outstanding below the threshold, blocklisted, zero baseline, unexpected)."""
import argparse
import json

ap = argparse.ArgumentParser()
ap.add_argument("--tier", default="quick")
ap.add_argument("--seed", type=int, default=0)
a = ap.parse_args()

import numpy as np  # noqa: E402
import pandas as pd  # noqa: E402

import verif_replays as v  # noqa: E402

n = 48 if a.tier == "quick" else 80
base = v.synthetic(n, seed=a.seed + 3)
base.loc[5, ["baseline_turnout", "baseline_dem", "baseline_gop"]] = 0  # a zero-baseline unit
base["baseline_normalized_margin"] = ((base.baseline_dem - base.baseline_gop) / (base.baseline_dem + base.baseline_gop)).fillna(0)
pct = [100] * (n * 2 // 3) + [35] * (n - n * 2 // 3)
cur = v.feed(base, pct, seed=a.seed)
extra = cur.iloc[[0]].copy()
extra["geographic_unit_fips"] = "AA01_9999"
cur = pd.concat([cur, extra], ignore_index=True)
blk = base.geographic_unit_fips[2]
targets = {"below_threshold": base.geographic_unit_fips[n - 1], "blocklisted": blk, "zero_baseline": base.geographic_unit_fips[5], "unexpected": "AA01_9999"}
confs = {
    "nonparametric": dict(estimands=("turnout",), pi_method="nonparametric", prediction_intervals=(0.7, 0.9), features=("f1",)),
    "gaussian": dict(estimands=("turnout",), pi_method="gaussian", prediction_intervals=(0.9,)),
    "bootstrap": dict(estimands=("margin",), pi_method="bootstrap", prediction_intervals=(0.9,), features=("baseline_normalized_margin",), model_parameters={"B": 25}),
}
viol, samples, evals, nontriv = [], [], 0, 0
for est, kw in confs.items():
    kw = dict(kw)
    mp = dict(kw.pop("model_parameters", {}))
    mp.update(unit_blocklist=[blk], fit_turnout_outlier_model=True, fit_margin_outlier_model=(est == "bootstrap"))
    aggs = ("postal_code", "county_fips", "unit")
    _, r0 = v.run_client(cur, base, aggregates=aggs, model_parameters=mp, threshold=90, **kw)
    for kind, fid in targets.items():
        c2 = cur.copy()
        m = c2.geographic_unit_fips == fid
        for col, f in (("results_dem", 3), ("results_gop", 2), ("results_turnout", 3)):
            c2.loc[m, col] = c2.loc[m, col] * f + 7
        evals += 1
        try:
            _, r1 = v.run_client(c2, base, aggregates=aggs, model_parameters=mp, threshold=90, **kw)
        except Exception as e:  # noqa
            viol.append({"id": f"{est}.{kind}", "what": f"{type(e).__name__}: {e}"})
            continue
        u0, u1 = r0["unit_data"].set_index("geographic_unit_fips"), r1["unit_data"].set_index("geographic_unit_fips")
        others = [i for i in u0.index if i != fid]
        ok_u = u0.loc[others].equals(u1.loc[others])
        row = u0.loc[fid]
        county = base.loc[base.geographic_unit_fips == fid, "county_fips"]
        county = county.iloc[0] if len(county) else fid.split("_")[0]
        c0, c1 = r0["county_data"].set_index(["postal_code", "county_fips"]), r1["county_data"].set_index(["postal_code", "county_fips"])
        oc = [i for i in c0.index if i[1] != county]
        ok_c = c0.loc[oc].equals(c1.loc[oc])
        s0, s1 = r0["state_data"].set_index("postal_code"), r1["state_data"].set_index("postal_code")
        os_ = [s for s in s0.index if s != row["postal_code"]]
        ok_s = s0.loc[os_].equals(s1.loc[os_])
        changed_own = not u0.loc[[fid]].equals(u1.loc[[fid]])
        nontriv += int(changed_own)
        samples.append({"estimator": est, "perturbed": kind, "own_row_changed": bool(changed_own), "other_units_identical": bool(ok_u), "other_counties_identical": bool(ok_c), "other_states_identical": bool(ok_s)})
        if not (ok_u and ok_c and ok_s):
            viol.append({"id": f"{est}.{kind}", "estimator": est, "perturbed": kind, "other_units_identical": bool(ok_u), "other_counties_identical": bool(ok_c), "other_states_identical": bool(ok_s)})
print(json.dumps({"evaluations": evals, "distinct_nontrivial": nontriv, "rule": "3 estimators x 4 kinds of perturbed unit (x3/x2 + 7 votes); non-trivial = the perturbed unit's own row actually changed", "samples": samples[:6], "violations": viol, "exhaustive": False}))
