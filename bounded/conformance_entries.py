#!/usr/local/bin/python3-vt
"""Conformance (differential) test of individual theory entries (pandas / numpy contracts of pyvc) and of the interpreter.

Each SNIPPET is a few lines of ordinary pandas / numpy code over a frame `df` with a string key column `k`, a float column `a`
that may hold NaN, a float column `b`, an integer column `c` (zeros included).  The snippet is (1) executed for real under
/venv/bin/python on random small frames, and (2) executed ONCE by the symbolic interpreter on a frame of unknown size; the
symbolic result is then evaluated on each concrete frame (pyvc.concrete: inputs pinned, reductions defined, exactly one
explored path must match) and compared with the real result -- per row for Series / arrays (NaN == NaN), per group for
grouped results, plus the set of rows / groups present.  A disagreement means a contract entry (or the interpreter) describes
something else than the library does.  A test of assumptions, not a proof.   usage: conformance_entries.py --n K"""
import argparse
import ast
import json
import os
import random
import subprocess
import sys
from fractions import Fraction

HERE = os.path.dirname(os.path.dirname(os.path.abspath(__file__)))
sys.path.insert(0, HERE)
import z3  # noqa: E402

from pyvc import SRC, VENV_PY, api, frames, source  # noqa: E402
from pyvc.concrete import Evaluator, is_value, rv  # noqa: E402
from pyvc.interp import Env, Explorer, InfeasiblePath, PathCtx  # noqa: E402
from pyvc.values import ONE, SymRaise, Undecided, V  # noqa: E402

ap = argparse.ArgumentParser()
ap.add_argument("--tier", default="thorough")
ap.add_argument("--seed", type=int, default=0)
ap.add_argument("--n", type=int, default=12)
ap.add_argument("--only", default=None)
a = ap.parse_args()
rnd = random.Random(a.seed + 5)
N = 6
KEYS = ["x", "y", "z"]

# name -> (source, kind of `out`): "rows" = Series / array over (a subset of) the rows of df, identified by the row's id column
# `i` when it is a Series of df, else by position among the selected rows; "groups" = frame / Series keyed by k;
# "scalar" = one number / bool
SNIPPETS = {
    "add_fillna": ("out = df.a.fillna(0) + df.b", "rows"),
    "mul_nan_propagates": ("out = df.a * df.b", "rows"),
    "compare_with_nan": ("out = df.a > df.b", "rows"),
    "compare_ne_nan": ("out = df.a != df.b", "rows"),
    "div_zero_nan_to_num": ("out = np.nan_to_num(df.b / df.c, nan=0, posinf=0, neginf=0)", "rows"),
    "div_fill_value": ("out = df.a.div(df.c, fill_value=0)", "rows"),
    "maximum_nan": ("out = np.maximum(df.a, df.b)", "rows"),
    "where": ("out = np.where(df.b > 0.5, df.b, df.c)", "rows"),
    "clip": ("out = df.b.clip(lower=0.25, upper=0.75)", "rows"),
    "between_default": ("out = df.b.between(0.25, 0.75)", "rows"),
    "between_neither": ("out = df.b.between(0.25, 0.75, inclusive='neither')", "rows"),
    "isin": ("out = df.k.isin(['x', 'z'])", "rows"),
    "round": ("out = (df.b * 10).round()", "rows"),
    "astype_int": ("out = (df.b * 3).astype(int)", "rows"),
    "frame_astype_int": ("out = df.assign(d=df.b * 3).astype({'d': int}).d", "rows"),
    "mask_filter": ("out = df[df.b > 0.5].b", "rows"),
    "mask_filter_nan": ("out = df[df.a > 0.5].b", "rows"),
    "dropna": ("out = df.dropna(subset=['a']).b", "rows"),
    "loc_assign": ("d2 = df.copy()\nd2.loc[d2.b > 0.5, 'b'] = 0\nout = d2.b", "rows"),
    "loc_assign_original_untouched": ("d2 = df.copy()\nd2.loc[d2.b > 0.5, 'b'] = 0\nout = df.b", "rows"),
    "inplace_alias": ("x = df.b.to_numpy().copy()\ny = x\ny *= 2\nout = x", "rows"),
    "setitem_alias": ("x = df.b.to_numpy().copy()\ny = x\ny[df.c.to_numpy() == 0] = -1\nout = x", "rows"),
    "fillna_inplace": ("d2 = df.copy()\nd2.fillna(0, inplace=True)\nout = d2.a", "rows"),
    "series_sum_skips_nan": ("out = df.a.sum()", "scalar"),
    "numpy_sum_of_b": ("out = np.sum(df.b)", "scalar"),
    "bool_sum": ("out = (df.b > 0.5).sum()", "scalar"),
    "any_all": ("out = (df.c == 0).any() and not (df.b > 2).all()", "scalar"),
    "shape": ("out = df[df.c > 0].shape[0]", "scalar"),
    "groupby_sum": ("out = df.groupby('k').sum().reset_index(drop=False)", "groups:a,b,c"),
    "groupby_sum_unsorted": ("out = df.groupby('k', sort=False).sum().reset_index(drop=False)", "groups:b,c"),
    "groupby_col_sum": ("out = df.groupby('k')['b'].sum()", "groups:b"),
    "groupby_size": ("out = df.groupby('k').size().reset_index(drop=False, name='n')", "groups:n"),
    "groupby_agg_named": ("out = df.groupby('k').agg(t=('c', 'sum')).reset_index(drop=False)", "groups:t"),
    "filter_then_groupby": ("out = df[df.c > 0].groupby('k').sum().reset_index(drop=False)", "groups:b,c"),
    "merge_inner_groups": ("g1 = df[df.c > 0].groupby('k').sum().reset_index(drop=False)[['k', 'c']]\ng2 = df[df.b > 0.5].groupby('k').sum().reset_index(drop=False)[['k', 'b']]\nout = g1.merge(g2, how='inner', on='k')", "groups:b,c"),
    "merge_outer_groups_fillna": ("g1 = df[df.c > 0].groupby('k').sum().reset_index(drop=False)[['k', 'c']]\ng2 = df[df.b > 0.5].groupby('k').sum().reset_index(drop=False)[['k', 'b']]\nout = g1.merge(g2, how='outer', on='k').fillna({'b': 0, 'c': 0})", "groups:b,c"),
    "value_counts_like": ("out = df.groupby('k').size().reset_index(drop=False, name='n')", "groups:n"),
    "numpy_sum_of_series_with_nan": ("out = np.sum(df.a)", "scalar"),
    "numpy_sum_of_array_with_nan": ("out = np.sum(df.a.to_numpy())", "scalar"),
    "series_mean": ("out = df.b.mean()", "scalar"),
    "numpy_mean": ("out = np.mean(df.b.to_numpy())", "scalar"),
    "minimum_scalar": ("out = np.minimum(df.b, 0.5)", "rows"),
    "abs_neg": ("out = np.abs(df.b - 0.6)", "rows"),
    "isnan": ("out = np.isnan(df.a.to_numpy())", "rows"),
    "isnull_sum": ("out = df.a.isnull().sum()", "scalar"),
    "notnull_filter": ("out = df[df.a.notnull()].a", "rows"),
    "floor_ceil": ("out = np.floor(df.b * 3) + np.ceil(df.b * 3)", "rows"),
    "power": ("out = np.power(df.b, 2)", "rows"),
    "sqrt_of_square": ("out = np.sqrt(df.b * df.b)", "rows"),
    "series_where": ("out = df.b.where(df.c > 0, -1.0)", "rows"),
    "and_or_masks": ("out = (df.b > 0.3) & ~(df.c == 0) | (df.k == 'x')", "rows"),
    "str_concat": ("out = df.k + '_' + df.k", "rows"),
    "assign_lambda": ("out = df.assign(d=lambda x: x.b * 2).d", "rows"),
    "drop_column": ("out = df.drop(columns=['a']).b", "rows"),
    "rename": ("out = df.rename(columns={'b': 'bb'}).bb", "rows"),
    "concat_rows_sum": ("d2 = pd.concat([df[df.c > 0], df[df.c == 0]])\nout = d2.groupby('k').sum().reset_index(drop=False)", "groups:b,c"),
    "merge_left_groups": ("g1 = df.groupby('k').sum().reset_index(drop=False)[['k', 'c']]\ng2 = df[df.b > 0.5].groupby('k').sum().reset_index(drop=False)[['k', 'b']]\nout = g1.merge(g2, how='left', on='k').fillna({'b': 0})", "groups:b,c"),
    "groupby_mask_size": ("out = df[df.b >= 0.5].groupby('k').size().reset_index(drop=False, name='n')", "groups:n"),
}

REAL = r'''
import json, sys, warnings
import numpy as np, pandas as pd
warnings.simplefilter("ignore")
p = json.load(sys.stdin)
res = []
for fr in p["frames"]:
    df = pd.DataFrame({"i": list(range(len(fr["k"]))), "k": fr["k"], "a": [np.nan if v is None else v for v in fr["a"]], "b": fr["b"], "c": fr["c"]})
    env = {"df": df, "np": np, "pd": pd}
    try:
        exec(p["src"], env)
        out = env["out"]
        kind = p["kind"]
        if kind == "rows":
            if isinstance(out, pd.Series):
                ids = [int(df.loc[lab, "i"]) for lab in out.index]
                vals = out.tolist()
            else:
                vals = np.asarray(out).tolist()
                ids = list(range(len(vals)))
            def enc(v):
                if isinstance(v, (bool, np.bool_)): return bool(v)
                if isinstance(v, str): return v
                v = float(v)
                return None if v != v else ("inf" if v == float("inf") else "-inf" if v == float("-inf") else v)
            res.append({"ids": ids, "vals": [enc(v) for v in vals]})
        elif kind == "scalar":
            v = out
            res.append({"val": bool(v) if isinstance(v, (bool, np.bool_)) else (None if float(v) != float(v) else float(v))})
        else:
            cols = kind.split(":")[1].split(",")
            if isinstance(out, pd.Series):
                out = out.rename(cols[0]).reset_index(drop=False)
            res.append({"groups": {str(r["k"]): {c: (None if float(r[c]) != float(r[c]) else float(r[c])) for c in cols} for _, r in out.iterrows()}})
    except Exception as e:
        res.append({"exc": type(e).__name__})
print(json.dumps({"res": res}))
'''


def real(src, kind, frames_):
    p = subprocess.run([VENV_PY, "-W", "ignore", "-c", REAL], input=json.dumps({"src": src, "kind": kind, "frames": frames_}), capture_output=True, text=True, env=dict(os.environ, PYTHONPATH=SRC + os.pathsep + HERE), cwd=HERE)
    lines = [l for l in p.stdout.splitlines() if l.startswith("{")]
    if not lines:
        return {"error": (p.stdout + p.stderr)[-800:]}
    return json.loads(lines[-1])


def random_frame():
    return {"k": [rnd.choice(KEYS[:2] if rnd.random() < 0.3 else KEYS) for _ in range(N)], "a": [None if rnd.random() < 0.3 else rnd.choice([0.0, 0.25, 0.5, 0.75, 1.5]) for _ in range(N)], "b": [rnd.choice([0.0, 0.25, 0.5, 0.75, 1.0, 1.5]) for _ in range(N)], "c": [rnd.choice([0, 0, 1, 2, 3]) for _ in range(N)]}


def symbolic_paths(src):
    """explore the snippet once; returns [(ctx, h, root, syms, out)]"""
    paths = []
    ex = Explorer()
    ex.pending = [[]]
    mod = source.module("elexmodel.handlers.data.CombinedData")
    tree = ast.parse(src).body
    while ex.pending:
        dec = ex.pending.pop()
        ctx = PathCtx(dec, ex)
        h = api.Harness(ctx, {"prop": "CONF", "name": "entries", "fns": []}, "quick")
        root, fips = frames.unit_universe("rows")
        ctx.assume(z3.And(*root.facts()))
        u = root.u
        I, R, S, B = z3.IntSort(), z3.RealSort(), z3.StringSort(), z3.BoolSort()
        f = {n: z3.Function("in_" + n, I, s_) for n, s_ in (("k", S), ("a", R), ("an", B), ("b", R), ("c", I))}
        df = frames.base_frame(root, z3.BoolVal(True), {"i": u, "k": f["k"](u), "a": V(f["a"](u), (), None, f["an"](u)), "b": f["b"](u), "c": f["c"](u)}, None)
        env = Env(h.interp.module_env(mod))
        env.set("df", df)
        try:
            h.interp.exec_block(tree, env)
            out = env.get("out", h.interp)
            kind = "ok"
        except InfeasiblePath:
            continue
        except SymRaise as e:
            out, kind = e.exc, "raise"
        paths.append((ctx, h, root, f, kind, out))
    return paths


def fr(x):
    return Fraction(x).limit_denominator(10**6)


def main():
    evals, viol, und, samples = 0, [], [], []
    names = [n for n in SNIPPETS if not a.only or a.only in n]
    for name in names:
        src, kind = SNIPPETS[name]
        frames_ = [random_frame() for _ in range(a.n)]
        exp = real(src, kind, frames_)
        if "error" in exp:
            viol.append({"id": name, "what": "real run failed", "detail": exp["error"][-300:]})
            continue
        try:
            paths = symbolic_paths(src)
        except Undecided as e:
            und.append(f"{name}: {e}")
            continue
        for fi, (frm, er) in enumerate(zip(frames_, exp["res"])):
            found, bad = 0, None
            for ctx, h, root, f, pk, out in paths:
                E = Evaluator(ctx, root, N, {"k": KEYS})
                for i in range(N):
                    Iv = z3.IntVal(i)
                    E.pin(f["k"](Iv), z3.StringVal(frm["k"][i]))
                    E.pin(f["an"](Iv), z3.BoolVal(frm["a"][i] is None))
                    E.pin(f["a"](Iv), rv(fr(frm["a"][i] or 0)))
                    E.pin(f["b"](Iv), rv(fr(frm["b"][i])))
                    E.pin(f["c"](Iv), z3.IntVal(frm["c"][i]))
                E.define_reductions()
                pm = E.path_matches()
                if pm is False:
                    continue
                if pm is None:
                    bad = bad or {"what": "a branch condition could not be evaluated"}
                    continue
                found += 1
                if pk == "raise":
                    if er.get("exc") != out.clsname:
                        bad = {"what": "symbolic run raises, the real one does not (or another exception)", "symbolic": out.clsname, "real": er}
                    continue
                if "exc" in er:
                    bad = {"what": "real run raises, the symbolic one does not", "real": er["exc"]}
                    continue
                bad = bad or compare(E, root, out, kind, er, frm)
            evals += 1
            if found != 1 and bad is None:
                bad = {"what": f"{found} symbolic paths match the concrete frame (exactly one expected)"}
            if bad:
                viol.append({"id": f"{name}#{fi}", "snippet": src, "frame": frm, **bad})
                break
        else:
            if len(samples) < 3:
                samples.append({"snippet": name, "frames": len(frames_)})
    out = {"evaluations": evals, "distinct_nontrivial": evals, "rule": f"{len(names)} snippets of pandas / numpy code x {a.n} random frames of {N} rows (NaN cells, zeros, ties in the key): symbolic result evaluated on the concrete frame vs the real result", "snippets": names, "samples": samples, "violations": viol[:6], "exhaustive": False}
    if und:
        out["undecided_snippets"] = und
    print(json.dumps(out))


def val_of(E, term, nan=None, inf=None):
    """concrete value of a symbolic cell: None for NaN, 'inf'/'-inf', bool, str or float"""
    if nan is not None and z3.is_true(E.ev(nan)):
        return None
    if inf is not None and z3.is_true(E.ev(inf)):
        return "inf?"
    v = E.ev(term)
    if z3.is_true(v):
        return True
    if z3.is_false(v):
        return False
    if z3.is_string_value(v):
        return v.as_string()
    n = E.num(term)
    return n if n is not None else f"?{v}"


def same(x, y):
    if x is None or y is None:
        return x is None and y is None
    if x == "inf?":
        return y in ("inf", "-inf")
    if isinstance(x, bool) or isinstance(y, bool):
        return bool(x) == bool(y) if not isinstance(y, float) else float(x) == y
    if isinstance(x, str) or isinstance(y, str):
        return x == y
    return abs(float(x) - float(y)) <= 1e-9


def compare(E, root, out, kind, er, frm):
    if kind == "scalar":
        if hasattr(out, "v") and isinstance(getattr(out, "v"), V):
            out = out.v  # (len() / shape[0] of a symbolic sequence)
        t = out.t if isinstance(out, V) else None
        if t is None:
            got = bool(out) if isinstance(out, bool) else out
        else:
            got = val_of(E, t, out.nan, out.inf)
        return None if same(got, er["val"]) else {"what": "scalar differs", "symbolic": got, "real": er["val"]}
    if kind == "rows":
        if not isinstance(out, V) or len([x for x in out.axes if x is not ONE]) != 1:
            return {"what": f"symbolic result is not a 1-D array ({type(out).__name__})"}
        ax = [x for x in out.axes if x is not ONE][0]
        present = getattr(ax, "present", None)
        got_ids, got_vals = [], []
        for i in range(N):
            sub = lambda t_: z3.substitute(t_, (root.u, z3.IntVal(i)))  # noqa: E731
            pr = z3.is_true(E.ev(sub(present()))) if present else True
            if hasattr(ax, "mask"):
                pr = pr and z3.is_true(E.ev(sub(ax.mask)))
            if pr:
                got_ids.append(i)
                got_vals.append(val_of(E, sub(out.t), sub(out.nan) if out.nan is not None else None, sub(out.inf) if out.inf is not None else None))
        real_vals = er["vals"]
        real_ids = er["ids"] if len(er["ids"]) == len(set(er["ids"])) and max(er["ids"] + [0]) < N else None
        if len(got_ids) != len(real_vals):
            return {"what": "number of rows differs", "symbolic_rows": got_ids, "real_rows": er["ids"]}
        # a Series of df is compared by row id; a bare array by position (the symbolic rows are in universe order: only
        # order-preserving snippets produce bare arrays here)
        pairs = dict(zip(real_ids, real_vals)) if real_ids is not None and sorted(real_ids) == got_ids else dict(zip(got_ids, real_vals))
        for i, g in zip(got_ids, got_vals):
            if not same(g, pairs[i]):
                return {"what": "cell differs", "row": i, "symbolic": g, "real": pairs[i]}
        return None
    cols = kind.split(":")[1].split(",")
    if isinstance(out, V) and len(out.axes) == 1 and hasattr(out.axes[0], "root") and hasattr(out.axes[0].root, "keyvars"):
        # a Series indexed by the group keys: one column
        fr_ = frames.Frame(out.axes[0], {}, None, None)
        fr_.cols[cols[0]] = out
        out = fr_
    if not isinstance(out, frames.Frame):
        return {"what": f"symbolic result is not a frame ({type(out).__name__})"}
    gs = out.axis.root
    kv = gs.keyvars["k"]
    for key in KEYS:
        sub = lambda t_: z3.substitute(t_, (kv, z3.StringVal(key)))  # noqa: E731
        pr = z3.is_true(E.ev(sub(out.axis.present())))
        if pr != (key in er["groups"]):
            return {"what": "group presence differs", "group": key, "symbolic": pr, "real": key in er["groups"]}
        if pr:
            for c in cols:
                col = out.col(c)
                g = val_of(E, sub(col.t), sub(col.nan) if col.nan is not None else None)
                if not same(g, er["groups"][key][c]):
                    return {"what": "group value differs", "group": key, "column": c, "symbolic": g, "real": er["groups"][key][c]}
    return None


if __name__ == "__main__":
    try:
        main()
    except Undecided as _e:
        print(json.dumps({"status": "undecided", "note": f"the symbolic side left the modelled subset: {_e}", "evaluations": 0, "violations": []}))
