"""Bounded companion of C17: the REAL compute_versioned_margin_estimate on enumerated small histories (<= 4 versions
on a small vote grid, repeated versions, zero-vote versions, downward revisions, impossible batches) with BOTH
float64 and int64 vote columns -- the proof treats numbers as reals (A-REAL) and cannot see that
np.divide(..., out=np.zeros_like(int column), casting='unsafe') truncates when the turnout column is integral.
Checks the clauses of the statement on every accepted history and that irregular ones yield only missing values."""
import argparse
import itertools
import json

ap = argparse.ArgumentParser()
ap.add_argument("--tier", default="quick")
ap.add_argument("--seed", type=int, default=0)
a = ap.parse_args()

import numpy as np  # noqa: E402
import pandas as pd  # noqa: E402

import verif_replays as v  # noqa: F401,E402
from elexmodel.handlers.data.VersionedData import VersionedDataHandler  # noqa: E402

h = VersionedDataHandler.__new__(VersionedDataHandler)
grid = [(0, 0), (30, 10), (40, 40), (60, 20)] if a.tier == "quick" else [(0, 0), (30, 10), (40, 40), (60, 20), (20, 60), (90, 10)]
viol, samples, evals, nontriv = [], [], 0, 0
known_dtype = []
for nv in (1, 2, 3) if a.tier == "quick" else (1, 2, 3, 4):
    for hist in itertools.product(grid, repeat=nv):
        for last_pev in (100, 80):
            for dtype in ("float64", "int64"):
                dem = np.array([x[0] for x in hist])
                gop = np.array([x[1] for x in hist])
                w = dem + gop
                if w[-1] == 0:
                    continue
                df = pd.DataFrame({"geographic_unit_fips": "u", "results_dem": dem, "results_gop": gop, "results_weights": w, "results_turnout": w, "percent_expected_vote": (np.linspace(10, last_pev, nv) if nv > 1 else np.array([float(last_pev)])), "results_normalized_margin": np.where(w > 0, (dem - gop) / np.maximum(w, 1), 0.0)})
                for c in ("results_dem", "results_gop", "results_weights", "results_turnout"):
                    df[c] = df[c].astype(dtype)
                evals += 1
                try:
                    out = h.compute_versioned_margin_estimate(df.copy())
                except Exception as e:  # noqa
                    viol.append({"id": f"exc{evals}", "history": hist, "dtype": dtype, "exc": f"{type(e).__name__}: {e}"})
                    continue
                monotone = all(w[i] <= w[i + 1] for i in range(nv - 1))
                dw, dn = np.diff(w), np.diff(dem) - np.diff(gop)
                impossible = any((dw[i] != 0 and abs(dn[i]) > abs(dw[i])) or (dw[i] == 0 and dn[i] != 0) for i in range(nv - 1))
                et = set(out["error_type"])
                bad = None
                if not monotone or impossible:
                    if not (out["est_correction"].isna().all() and et <= {"non-monotone percent expected vote", "batch_margin"} and len(out) == 101):
                        bad = "irregular history not discarded"
                else:
                    nontriv += 1
                    if et != {"none"}:
                        bad = f"regular history discarded ({et})"
                    else:
                        est = out["est_margin"].to_numpy(dtype=float)
                        pcs = out["percent_expected_vote"].to_numpy()
                        if not (np.isfinite(est).all() and (np.abs(est) <= 1 + 1e-12).all()):
                            bad = "imputed margin outside [-1, 1]"
                        elif list(pcs) != list(range(0, int(last_pev) + 1)):
                            bad = f"percents produced: 0..{pcs.max()} expected 0..{last_pev}"
                        elif not np.allclose(out["est_correction"], df.results_normalized_margin.iloc[-1] - est):
                            bad = "correction is not final margin minus imputed margin"
                if bad:
                    rec = {"id": f"v{evals}", "history": hist, "latest_percent": last_pev, "dtype": dtype, "what": bad}
                    if dtype == "int64":
                        rec["known"] = "F13"
                        known_dtype.append(rec)
                    viol.append(rec)
                elif len(samples) < 2 and monotone and not impossible and nv > 1:
                    samples.append({"history": hist, "dtype": dtype, "est_margin_head": out["est_margin"].head(4).round(3).tolist()})
print(json.dumps({"evaluations": evals, "distinct_nontrivial": nontriv, "rule": "all histories of 1..3(4) versions over a (dem, gop) grid x latest percent x {float64, int64} vote columns; non-trivial = accepted (regular) history", "samples": samples, "violations": viol[:6], "n_violations_total": len(viol), "exhaustive": True}, default=str))
