"""Bounded companion of C12: the REAL client is run repeatedly with equal arguments (same client / fresh client /
other requests in between / fresh processes with different hash seeds); every returned table must be identical."""
import argparse
import hashlib
import json
import os
import subprocess
import sys

ap = argparse.ArgumentParser()
ap.add_argument("--tier", default="quick")
ap.add_argument("--seed", type=int, default=0)
ap.add_argument("--child", default=None)
a = ap.parse_args()

import numpy as np  # noqa: E402
import pandas as pd  # noqa: E402

import verif_replays as v  # noqa: E402


def digest(res):
    h = hashlib.sha256()
    for k in sorted(res):
        df = res[k]
        h.update(k.encode())
        h.update(",".join(map(str, df.columns)).encode())
        h.update(pd.util.hash_pandas_object(df, index=False).values.tobytes())
    return h.hexdigest()


def scenario(name, client=None, seed=0):
    base = v.synthetic(60, seed=seed + 1)
    cur = v.feed(base, [100] * 40 + [35] * 20, seed=seed)
    if name == "nonparametric":
        return v.run_client(cur, base, estimands=("turnout", "dem"), pi_method="nonparametric", prediction_intervals=(0.7, 0.9), aggregates=("postal_code", "county_fips", "unit"), features=("f1",), fixed_effects={"county_classification": ["all"]}, client=client)
    if name == "gaussian":
        return v.run_client(cur, base, estimands=("turnout",), pi_method="gaussian", prediction_intervals=(0.9,), aggregates=("postal_code", "county_classification", "unit"), client=client)
    if name == "bootstrap_districts":
        # a district election (office H, precinct-district units, three districts per state): the contests of the bootstrap are
        # states AND districts, the seeded generator assigns its draws to them by column position
        base = v.synthetic(160, seed=seed + 1, district=True, unit_type="precinct-district")
        d = [f"d{(i // 2) % 3}" for i in range(len(base))]
        base["district"] = d
        base["geographic_unit_fips"] = [f"{dd}_{c_}_{i:04d}" for i, (dd, c_) in enumerate(zip(d, base.county_fips))]
        cur = v.feed(base, [100] * 110 + [35] * 50, seed=seed)
        c, r = v.run_client(cur, base, estimands=("margin",), pi_method="bootstrap", prediction_intervals=(0.9,), aggregates=("postal_code", "district", "unit"), features=("baseline_normalized_margin",), model_parameters={"B": 25}, office="H", unit_type="precinct-district", client=client)
        s = c.get_national_summary_votes_estimates(None, 0, [0.9])
        r = dict(r)
        r["nat_sum_data"] = s
        return c, r
    if name == "bootstrap":
        c, r = v.run_client(cur, base, estimands=("margin",), pi_method="bootstrap", prediction_intervals=(0.9,), aggregates=("postal_code", "unit"), features=("baseline_normalized_margin",), model_parameters={"B": 25}, client=client)
        s = c.get_national_summary_votes_estimates(None, 0, [0.9])
        r = dict(r)
        r["nat_sum_data"] = s
        return c, r


if a.child:
    c, r = scenario(a.child, seed=a.seed)
    print(json.dumps({"digest": digest(r)}))
    sys.exit(0)

names = ["nonparametric", "gaussian", "bootstrap", "bootstrap_districts"]
viol, samples, evals = [], [], 0
for nm in names:
    c1, r1 = scenario(nm, seed=a.seed)
    d = [digest(r1)]
    c2, r2 = scenario(nm, client=c1, seed=a.seed)  # same client object again
    d.append(digest(r2))
    for other in names:  # other requests in between, then again on a used client
        if other != nm:
            scenario(other, client=c1, seed=a.seed + 7)
    c3, r3 = scenario(nm, client=c1, seed=a.seed)
    d.append(digest(r3))
    for hs in ("1", "2") if a.tier == "quick" else ("1", "2", "3", "4"):
        p = subprocess.run([sys.executable, __file__, "--child", nm, "--seed", str(a.seed)], capture_output=True, text=True, env=dict(os.environ, PYTHONHASHSEED=hs))
        line = [l for l in p.stdout.splitlines() if l.startswith("{")]
        d.append(json.loads(line[-1])["digest"] if line else "child-failed:" + p.stderr[-200:])
    evals += len(d)
    samples.append({"estimator": nm, "digests": [x[:12] for x in d]})
    if len(set(d)) != 1:
        viol.append({"id": nm, "estimator": nm, "digests": [x[:12] for x in d], "what": "equal arguments, different tables"})
print(json.dumps({"evaluations": evals, "distinct_nontrivial": len(names) * 3, "rule": "per estimator: first run, same client again, after other requests, and fresh processes with PYTHONHASHSEED=1,2(,3,4); distinct = estimator x history kind", "samples": samples, "violations": viol, "exhaustive": False}))
