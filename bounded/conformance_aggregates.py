#!/usr/local/bin/python3-vt
"""Conformance (differential) test of the theory entries behind the aggregate proofs of C01 / C02 / C03 / C11
(groupby sums and counts with null keys, outer / inner merges of group frames, fillna, assign, sort_values, concat):

the symbolic result of executing the REAL get_aggregate_predictions and the nonparametric
get_aggregate_prediction_intervals with pyvc is evaluated on random small concrete elections (pyvc.concrete: inputs
pinned, reductions defined, exactly one explored path must match) and compared, group by group and column by column,
with what the real pandas code returns under /venv/bin/python.  A test of assumptions, not a proof."""
import argparse
import json
import os
import random
import subprocess
import sys

HERE = os.path.dirname(os.path.dirname(os.path.abspath(__file__)))
sys.path.insert(0, HERE)
import z3  # noqa: E402

from pyvc import SRC, VENV_PY, api  # noqa: E402
from pyvc.concrete import Evaluator  # noqa: E402
from pyvc.interp import Explorer, InfeasiblePath, PathCtx  # noqa: E402

ap = argparse.ArgumentParser()
ap.add_argument("--tier", default="thorough")
ap.add_argument("--seed", type=int, default=0)
ap.add_argument("--n", type=int, default=8)
a = ap.parse_args()
rnd = random.Random(a.seed + 23)
KEYCOLS = ["postal_code", "county_fips", "county_classification", "district"]
ALPHA = 0.9

REAL = r'''
import json, sys
import numpy as np, pandas as pd
from elexmodel.models.NonparametricElectionModel import NonparametricElectionModel
from elexmodel.models.ConformalElectionModel import PredictionIntervals
p = json.load(sys.stdin)
rows, keys, alpha = p["rows"], p["keys"], p["alpha"]
lo_s, up_s = f"lower_{alpha}_turnout", f"upper_{alpha}_turnout"
def frame(kind):
    rs = [r for r in rows if r["kind"] == kind]
    d = {"geographic_unit_fips": [r["id"] for r in rs], "results_turnout": [float(r["res"]) for r in rs], "reporting": 1 if kind == "R" else 0}
    for k in ("postal_code", "county_fips", "county_classification", "district"):
        d[k] = [None if (kind == "T" and r["null"].get(k)) else r[k] for r in rs]
    df = pd.DataFrame(d)
    if kind == "N":
        df["pred_turnout"] = [float(r["pred"]) for r in rs]; df[lo_s] = [float(r["lo"]) for r in rs]; df[up_s] = [float(r["up"]) for r in rs]
    else:
        df["pred_turnout"] = df["results_turnout"]; df[lo_s] = df["results_turnout"]; df[up_s] = df["results_turnout"]
    df["unit_category"] = "unexpected" if kind == "T" else "expected"
    return df
rep, non, unx = frame("R"), frame("N"), frame("T")
m = NonparametricElectionModel({})
est = m.get_aggregate_predictions(rep, non, unx, keys, "turnout")
pi = m.get_aggregate_prediction_intervals(rep, non, unx, keys, alpha, PredictionIntervals(None, None, None), "turnout")
print(json.dumps({"groups": [list(map(str, g)) for g in est[keys].values.tolist()], "pred": [float(x) for x in est["pred_turnout"]], "results": [float(x) for x in est["results_turnout"]], "reporting": [float(x) for x in est["reporting"]], "lower": [float(x) for x in np.asarray(pi.lower)], "upper": [float(x) for x in np.asarray(pi.upper)]}))
'''


def real(payload):
    p = subprocess.run([VENV_PY, "-W", "ignore", "-c", REAL], input=json.dumps(payload), capture_output=True, text=True, env=dict(os.environ, PYTHONPATH=SRC + os.pathsep + HERE, APP_ENV="local", DATA_ENV="dev", MODEL_S3_BUCKET="b", MODEL_S3_PATH_ROOT="r"), cwd=HERE)
    lines = [l for l in p.stdout.splitlines() if l.startswith("{")]
    if not lines:
        return {"error": (p.stdout + p.stderr)[-1200:]}
    return json.loads(lines[-1])


def main():
    import importlib

    C03 = importlib.import_module("contracts.C03")
    from contracts.common import AGGS

    evals, viol, samples = 0, [], []
    keysets = list(AGGS.values())
    N = 9
    for trial in range(a.n):
        keys = keysets[trial % len(keysets)]
        rows = []
        for i in range(N):
            kind = "R" if i < 2 else rnd.choice(["R", "N", "N", "T", "T"])
            res = rnd.choice([0, 10, 120, 333])
            rows.append({"id": f"u{i}", "kind": kind, "postal_code": rnd.choice(["AA", "BB"]), "county_fips": rnd.choice(["c1", "c2"]), "county_classification": rnd.choice(["urban", "rural"]), "district": rnd.choice(["d1", "d2"]), "res": res, "pred": res + rnd.choice([0, 5, 200]), "lo": res + rnd.choice([0, 3]), "up": res + rnd.choice([7, 300]),
                         "null": {k: (kind == "T" and rnd.random() < 0.35) for k in KEYCOLS[1:]}})
        exp = real({"rows": rows, "keys": keys, "alpha": ALPHA})
        if "error" in exp:
            viol.append({"id": f"t{trial}", "what": "real run failed", "detail": exp["error"][-400:]})
            continue
        ex = Explorer()
        ex.pending = [[]]
        found = 0
        while ex.pending:
            dec = ex.pending.pop()
            ctx = PathCtx(dec, ex)
            h = api.Harness(ctx, {"prop": "CONF", "name": "aggregates", "fns": []}, "quick")
            try:
                t, lo_u, up_u, self_, k1, est, kind, res = C03.nonparametric_aggregate_run(h, keys, alpha=ALPHA)
            except InfeasiblePath:
                continue
            if k1 == "raise" or kind == "raise":
                continue
            root, fn = t.root, h.syms
            E = Evaluator(ctx, root, N, {k: sorted({r[k] for r in rows}) for k in KEYCOLS})
            for i, r in enumerate(rows):
                I = z3.IntVal(i)
                E.pin(fn["fips_units"](I), z3.StringVal(r["id"]))
                for nm, v in (("inRep", r["kind"] == "R"), ("inNonrep", r["kind"] == "N"), ("inThird", r["kind"] == "T")):
                    E.pin(fn[nm](I), z3.BoolVal(v))
                E.pin(fn["results_turnout"](I), z3.IntVal(r["res"]))
                E.pin(fn["last_turnout"](I), z3.IntVal(1))
                E.pin(fn["unit_category_third"](I), z3.StringVal("unexpected"))
                for k in KEYCOLS:
                    E.pin(fn[k](I), z3.StringVal(r[k]))
                    if k != "postal_code":
                        E.pin(fn[f"null_{k}_third"](I), z3.BoolVal(bool(r["null"].get(k))))
                E.pin(fn["pred_turnout"](I), z3.IntVal(r["pred"]))
                E.pin(fn[f"lower_{ALPHA}_turnout"](I), z3.IntVal(r["lo"]))
                E.pin(fn[f"upper_{ALPHA}_turnout"](I), z3.IntVal(r["up"]))
            E.define_reductions()
            pm = E.path_matches()
            if pm is False:
                continue
            if pm is None:
                viol.append({"id": f"t{trial}", "what": "a branch condition could not be evaluated", "keys": keys})
                continue
            found += 1
            evals += 1
            gs = est.axis.root
            kv = [gs.keyvars[k] for k in keys]
            bad = None
            cols = (("pred", est.col("pred_turnout").t, est.axis), ("results", est.col("results_turnout").t, est.axis), ("reporting", est.col("reporting").t, est.axis), ("lower", res.lower.t, res.lower.axes[0]), ("upper", res.upper.t, res.upper.axes[0]))
            for gi, g in enumerate(exp["groups"]):
                sub = [(kv_, z3.StringVal(v)) for kv_, v in zip(kv, g)]
                for nm, term, ax in cols:
                    if not z3.is_true(E.ev(z3.substitute(ax.present(), *sub))):
                        bad = bad or {"group": g, "what": f"row missing in the symbolic {nm}"}
                        continue
                    got = E.num(z3.substitute(term, *sub))
                    if got is None or abs(got - exp[nm][gi]) > 1e-6:
                        bad = bad or {"group": g, "column": nm, "symbolic": got, "pandas": exp[nm][gi]}
            # no extra group in the symbolic table
            import itertools

            for vals in itertools.product(*[sorted({r[k] for r in rows}) for k in keys]):
                if list(vals) not in exp["groups"]:
                    sub = [(kv_, z3.StringVal(v)) for kv_, v in zip(kv, vals)]
                    if z3.is_true(E.ev(z3.substitute(est.axis.present(), *sub))):
                        bad = bad or {"group": list(vals), "what": "group present in the symbolic table only"}
            if bad:
                viol.append({"id": f"t{trial}", "what": "symbolic result and real pandas result differ", "keys": keys, **bad, "rows": rows})
            elif len(samples) < 2:
                samples.append({"keys": keys, "groups": exp["groups"], "pred": exp["pred"]})
        if found != 1:
            viol.append({"id": f"t{trial}", "what": f"{found} symbolic paths are consistent with the concrete election (exactly one expected)", "keys": keys})
    print(json.dumps({"evaluations": evals, "distinct_nontrivial": evals, "rule": "random elections of 9 units (reporting / outstanding / unexpected with null keys) x 4 aggregate lists evaluated through the symbolic result of the real get_aggregate_predictions + nonparametric aggregate intervals vs the real pandas run, every group and column", "samples": samples, "violations": viol[:5], "exhaustive": False}))


if __name__ == "__main__":
    from pyvc.values import Undecided as _Undecided

    try:
        main()
    except _Undecided as _e:
        print(json.dumps({"status": "undecided", "note": f"the symbolic side left the modelled subset: {_e}", "evaluations": 0, "violations": []}))
