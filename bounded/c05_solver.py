"""Bounded companion of C05 (a test of the assumptions A-QR + L-WM, not a proof): the REAL external solver
(elexsolver.QuantileRegressionSolver, called exactly as ConformalElectionModel.fit_model calls it, through the real
fit_model) on intercept-only designs -- random instances with ties, dominant weights and even splits -- must return a
coefficient m that is a weighted median of the responses (weight strictly below m <= 1/2, strictly above m <= 1/2, up to
a numerical tolerance in m), and the REAL NonparametricElectionModel.get_unit_predictions without covariates must then
predict round(max((1+m) * last, counted)) for every outstanding unit with that one m."""
import argparse
import json
import warnings

import numpy as np
import pandas as pd

ap = argparse.ArgumentParser()
ap.add_argument("--tier", default="quick")
ap.add_argument("--seed", type=int, default=0)
a = ap.parse_args()

from elexsolver.QuantileRegressionSolver import QuantileRegressionSolver  # noqa: E402

from elexmodel.models.NonparametricElectionModel import NonparametricElectionModel  # noqa: E402

rng = np.random.default_rng(100 + a.seed)
N_INST = 300 if a.tier == "quick" else 5000
TOL = 1e-7
viol, evals, nontrivial = [], 0, 0


def is_wmedian(y, w, m):
    W = w.sum()
    below = w[y < m - TOL].sum()
    above = w[y > m + TOL].sum()
    return below <= W / 2 + 1e-9 * W and above <= W / 2 + 1e-9 * W, float(below / W), float(above / W)


model = NonparametricElectionModel({})
for t in range(N_INST):
    n = int(rng.integers(1, 40))
    kind = t % 4
    if kind == 0:
        y = rng.normal(0, 0.2, n)
    elif kind == 1:
        y = rng.integers(-3, 4, n) / 10.0  # ties
    elif kind == 2:
        y = np.round(rng.normal(0, 0.3, n), 1)
    else:
        y = rng.uniform(-1, 1, n)
    w = rng.integers(1, 5000, n).astype(float)
    if kind == 1 and n > 1:
        w[0] = w.sum()  # one unit carries half of the weight exactly... (then every point between two responses is a median)
    if kind == 2 and n > 2:
        w[1] = 10 * w.sum()  # dominant unit
    solver = QuantileRegressionSolver()
    with warnings.catch_warnings():
        warnings.simplefilter("ignore")
        try:
            model.fit_model(solver, pd.DataFrame({"intercept": np.ones(n)}), pd.Series(y), 0.5, pd.Series(w), True)
        except Exception as e:  # noqa
            viol.append({"id": f"s{t}", "what": "the real fit failed", "exc": f"{type(e).__name__}: {e}", "n": n})
            continue
    m = float(np.asarray(solver.coefficients[0]).ravel()[0])
    ok, below, above = is_wmedian(y, w, m)
    evals += 1
    nontrivial += int(n > 1)
    if not ok:
        viol.append({"id": f"s{t}", "what": "the solver's intercept is not a weighted median of the responses", "m": m, "weight_share_below": below, "weight_share_above": above, "y": y.tolist()[:12], "w": w.tolist()[:12], "n": n})

# end to end: the real unit predictions without covariates
N_E2E = 20 if a.tier == "quick" else 200
for t in range(N_E2E):
    n_rep, n_non = int(rng.integers(3, 30)), int(rng.integers(1, 10))
    last_r = rng.integers(100, 9000, n_rep).astype(float) + 1
    last_n = rng.integers(100, 9000, n_non).astype(float) + 1
    swing = rng.normal(0.05, 0.1, n_rep)
    rep = pd.DataFrame({"postal_code": "AA", "geographic_unit_fips": [f"r{i}" for i in range(n_rep)], "reporting": 1, "unit_category": "expected", "last_election_results_turnout": last_r, "results_turnout": np.round(last_r * (1 + swing))})
    rep["residuals_turnout"] = (rep.results_turnout - rep.last_election_results_turnout) / rep.last_election_results_turnout
    non = pd.DataFrame({"postal_code": "AA", "geographic_unit_fips": [f"n{i}" for i in range(n_non)], "reporting": 0, "unit_category": "expected", "last_election_results_turnout": last_n, "results_turnout": np.round(last_n * rng.choice([0.0, 0.1, 1.4], n_non))})
    m_ = NonparametricElectionModel({})
    with warnings.catch_warnings():
        warnings.simplefilter("ignore")
        try:
            preds, _ = m_.get_unit_predictions(rep, non, "turnout")
        except Exception as e:  # noqa
            viol.append({"id": f"e{t}", "what": "get_unit_predictions failed", "exc": f"{type(e).__name__}: {e}"})
            continue
    preds = np.asarray(preds, dtype=float).ravel()
    y, w = rep.residuals_turnout.to_numpy(), rep.last_election_results_turnout.to_numpy()
    # the set of weighted medians is an interval [lo, hi] of responses: the one factor must lie in it
    order = np.argsort(y)
    ys, cw = y[order], np.cumsum(w[order]) / w.sum()
    lo = ys[np.searchsorted(cw, 0.5 - 1e-12)]
    hi = ys[min(np.searchsorted(cw, 0.5 + 1e-12), len(ys) - 1)]
    evals += 1
    bad = None
    # recover the one factor from an outstanding unit that is not floored by its counted votes
    facs = [(p / l) - 1 for p, l, r in zip(preds, last_n, non.results_turnout) if p > r]
    for i in range(n_non):
        cands = [np.round(max((1 + m) * last_n[i], non.results_turnout.iloc[i])) for m in (lo, hi)]
        if not (min(cands) - 1 <= preds[i] <= max(cands) + 1):
            bad = {"unit": i, "prediction": float(preds[i]), "allowed": [float(min(cands)), float(max(cands))], "median_interval": [float(lo), float(hi)]}
            break
    if bad is None and facs and (max(facs) - min(facs)) > 2.0 / min(last_n):
        bad = {"what": "outstanding units were scaled by different factors", "factors": [float(min(facs)), float(max(facs))]}
    if bad:
        viol.append({"id": f"e{t}", "what": "uniform swing by the weighted median violated end to end", **bad})
print(json.dumps({"evaluations": evals, "distinct_nontrivial": nontrivial, "rule": f"{N_INST} random intercept-only instances (n <= 39; normal / tied / rounded / uniform responses; one unit carrying half or most of the weight) through the REAL fit_model + installed elexsolver: the coefficient is a weighted median (tolerance {TOL} in m); {N_E2E} random elections through the REAL get_unit_predictions without covariates", "violations": viol[:5], "exhaustive": False}))
