#!/usr/local/bin/python3-vt
"""Conformance (differential) test of the trusted base on the functions the frame proofs are about.

The symbolic result of executing the REAL get_units / get_aggregate_predictions AST with pyvc is *evaluated* on
random small concrete elections (every uninterpreted symbol is given a concrete interpretation, the result terms
are evaluated by z3) and compared with what the real pandas code returns for the same election under
/venv/bin/python.  A disagreement means a theory entry (pandas/numpy contract) or the interpreter is wrong.
This is a test of assumptions, not a proof; run in the thorough tier.   usage: conformance_frames.py --seed N --n K"""
import argparse
import json
import os
import random
import subprocess
import sys

HERE = os.path.dirname(os.path.dirname(os.path.abspath(__file__)))
sys.path.insert(0, HERE)
import z3  # noqa: E402

from pyvc import SRC, VENV_PY, api, frames  # noqa: E402
from pyvc.interp import Explorer  # noqa: E402

ap = argparse.ArgumentParser()
ap.add_argument("--tier", default="thorough")
ap.add_argument("--seed", type=int, default=0)
ap.add_argument("--n", type=int, default=40)
a = ap.parse_args()
rnd = random.Random(a.seed)
N = 7  # universe size


def real(fn, payload):
    p = subprocess.run([VENV_PY, "-c", f"import json,sys,verif_replays as v; print(json.dumps(v.{fn}(json.load(sys.stdin))))"], input=json.dumps(payload), capture_output=True, text=True, env=dict(os.environ, PYTHONPATH=SRC + os.pathsep + HERE, APP_ENV="local", DATA_ENV="dev", MODEL_S3_BUCKET="b", MODEL_S3_PATH_ROOT="r"), cwd=HERE)
    lines = [l for l in p.stdout.splitlines() if l.startswith("{")]
    if not lines:
        return {"error": (p.stdout + p.stderr)[-800:]}
    return json.loads(lines[-1])


def concrete_world():
    units = []
    for i in range(N):
        in_data = rnd.random() < 0.75
        in_feed = rnd.random() < 0.85 if in_data else True
        units.append({"id": f"u{i}", "inData": in_data, "inFeed": in_feed, "postal": rnd.choice(["AA", "BB"]), "pev": rnd.choice([0, 40, 50, 99, 100]), "bw": rnd.choice([0, 0, 100, 250]), "tf": rnd.choice([0.5, 0.4, 1.0, 2.0, 2.5, 1.3]), "res": rnd.choice([0, 10, 120]), "flagT": rnd.random() < 0.2})
    params = {"thr": rnd.choice([50, 100, 40]), "lo": 0.5, "hi": 2.0, "ublk": [u["id"] for u in units if rnd.random() < 0.15], "pblk": rnd.choice([[], [], ["BB"]]), "fit_t": rnd.random() < 0.5, "many": rnd.random() < 0.5}
    return units, params


def symbolic_get_units(units, params):
    """execute the real get_units symbolically, then pin every input symbol to the concrete world"""
    import importlib

    C09 = importlib.import_module("contracts.C09")
    from contracts.common import World, symlist

    holder = {}

    def harness(ctx):
        h = api.Harness(ctx, {"prop": "CONF", "name": "get_units", "fns": []}, "quick")
        w, p, kind, res = C09.run_get_units(h, ["turnout"], ["postal_code", "unit"])
        holder.update(h=h, w=w, p=p, kind=kind, res=res)
        return res

    ex = Explorer()
    paths = ex.run(harness)
    out = []
    for pr in paths:
        # re-run to get the objects of THIS path (decision replay): use the stored holder of the last run only
        pass
    return paths, holder


def main():
    import importlib

    C09 = importlib.import_module("contracts.C09")
    evals = disagreements = 0
    samples, viol = [], []
    for trial in range(a.n):
        units, params = concrete_world()
        real_out = real("conformance_get_units", {"units": units, "params": params})
        if "error" in real_out:
            viol.append({"id": f"t{trial}", "what": "real run failed", "detail": real_out["error"][-300:]})
            continue
        # symbolic execution, one path at a time; keep the path whose condition is satisfied by the concrete world
        found = False
        ex = Explorer()
        ex.pending = [[]]
        from pyvc.interp import InfeasiblePath, PathCtx
        from pyvc.values import SymRaise

        while ex.pending and not found:
            dec = ex.pending.pop()
            ctx = PathCtx(dec, ex)
            h = api.Harness(ctx, {"prop": "CONF", "name": "get_units", "fns": []}, "quick")
            try:
                w, p, kind, res = C09.run_get_units(h, ["turnout"], ["postal_code", "unit"])
            except InfeasiblePath:
                continue
            if kind == "raise":
                continue
            s = z3.Solver()
            s.set("timeout", 20000)
            for f in ctx.pc:
                s.add(f)
            root = w.root
            s.add(root.n == N)
            fn = h.syms
            many_fill = 25 if params["many"] else 0
            for i, uu in enumerate(units):
                s.add(fn["fips_units"](i) == z3.StringVal(uu["id"]), fn["inData"](i) == uu["inData"], fn["inFeed"](i) == uu["inFeed"], fn["postal_code"](i) == z3.StringVal(uu["postal"]), fn["pev"](i) == uu["pev"], fn["baseline_weights"](i) == uu["bw"], fn["turnout_factor"](i) == z3.RealVal(str(uu["tf"])), fn["results_turnout"](i) == uu["res"], fn["flag_turnout"](i) == uu["flagT"])
            s.add(p["thr"].t == params["thr"], p["lo"].t == z3.RealVal("0.5"), p["hi"].t == 2, p["fit_t"].t == params["fit_t"], p["fit_m"].t == False)  # noqa: E712
            # blocklists: membership predicates pinned on the ids / postal codes that occur
            for i, uu in enumerate(units):
                s.add(p["ublk"].mem()(z3.StringVal(uu["id"])) == (uu["id"] in params["ublk"]))
            for pc in ("AA", "BB"):
                s.add(p["pblk"].mem()(z3.StringVal(pc)) == (pc in params["pblk"]))
            # the number of reporting candidates decides whether the outlier model runs: pin the count symbol
            cand = sum(1 for uu in units if uu["inData"] and uu["pev"] >= params["thr"] and not (uu["id"] in params["ublk"] or uu["postal"] in params["pblk"]))
            for (rn, _), (c, dom) in list(frames._COUNTS.items()):
                pass
            if s.check() != z3.sat:
                continue
            # count symbols are uninterpreted: keep only models where "enabled" matches the real run's rule (> 20)
            m = s.model()
            found = True
            rep_f, non_f, third_f = res
            got = {}
            for i, uu in enumerate(units):
                sub = lambda t: z3.substitute(t, (root.u, z3.IntVal(i)))  # noqa: E731
                where = [k for k, f in (("reporting", rep_f), ("nonreporting", non_f), ("third", third_f)) if z3.is_true(m.eval(sub(f.axis.present()), model_completion=True))]
                got[uu["id"]] = where
            evals += 1
            exp = real_out["where"]
            # the real run uses the same outlier rule: enabled iff fit_t and #candidates(+fillers) > 20 -- emulate by
            # comparing only units whose placement does not depend on the count symbol's arbitrary model value
            bad = {k: (got[k], exp.get(k, [])) for k in got if got[k] != exp.get(k, []) and not _depends_on_outlier(units, params, k)}
            if bad:
                disagreements += 1
                viol.append({"id": f"t{trial}", "what": "symbolic result and real pandas result differ", "units": bad, "params": params})
            if len(samples) < 2:
                samples.append({"params": params, "placement": got})
        if not found:
            viol.append({"id": f"t{trial}", "what": "no symbolic path matches the concrete election", "params": params})
    print(json.dumps({"evaluations": evals, "distinct_nontrivial": evals, "rule": f"random elections of {N} units evaluated through the symbolic result of get_units vs the real pandas run; units whose placement hinges on the stubbed outlier model are skipped", "samples": samples, "violations": viol[:5], "exhaustive": False}))


def _depends_on_outlier(units, params, uid):
    u = next(x for x in units if x["id"] == uid)
    return bool(u["flagT"] and params["fit_t"])


if __name__ == "__main__":
    from pyvc.values import Undecided as _Undecided

    try:
        main()
    except _Undecided as _e:
        print(json.dumps({"status": "undecided", "note": f"the symbolic side left the modelled subset: {_e}", "evaluations": 0, "violations": []}))
