"""Replay a counter-model on the REAL code (run under /venv/bin/python with PYTHONPATH=<repo>/src).

stdin: JSON spec
  {"target": "elexmodel.models.X:Class.method" | "elexmodel.mod:func",
   "self": {"class": "elexmodel.mod:Class", "new": true|false, "init": {...kwargs} | null, "attrs": {...}},
   "args": [...], "kwargs": {...},
   "check": "<python expression over result / exc / np / pd / args / self_obj; True = property holds>",
   "setup": "<optional python statements run before the call>"}
Values may be tagged: {"__nd__": [...], "dtype": "float"} -> numpy array; {"__series__": [...]};
{"__df__": {col: [...]}} -> DataFrame; {"__frac__": "p/q"} -> float.
stdout: one JSON line {"holds": bool|null, "observed": str, "exc": str|null}
"""
import importlib
import json
import sys
import traceback
from fractions import Fraction


def decode(x):
    import numpy as np
    import pandas as pd

    if isinstance(x, dict):
        if "__nd__" in x:
            return np.array(decode(x["__nd__"]), dtype=x.get("dtype", None))
        if "__series__" in x:
            return pd.Series(decode(x["__series__"]))
        if "__df__" in x:
            return pd.DataFrame({k: decode(v) for k, v in x["__df__"].items()})
        if "__frac__" in x:
            return float(Fraction(x["__frac__"]))
        if "__tuple__" in x:
            return tuple(decode(v) for v in x["__tuple__"])
        return {k: decode(v) for k, v in x.items()}
    if isinstance(x, list):
        return [decode(v) for v in x]
    return x


def resolve(path):
    modname, _, attr = path.partition(":")
    obj = importlib.import_module(modname)
    for part in attr.split("."):
        if part:
            obj = getattr(obj, part)
    return obj


def main():
    spec = json.load(sys.stdin)
    import numpy as np
    import pandas as pd

    out = {"holds": None, "observed": None, "exc": None}
    try:
        env = {"np": np, "pd": pd}
        if spec.get("setup"):
            exec(spec["setup"], env)
        args = decode(spec.get("args", []))
        kwargs = decode(spec.get("kwargs", {}))
        self_obj = None
        if spec.get("self"):
            cls = resolve(spec["self"]["class"])
            if spec["self"].get("init") is not None:
                self_obj = cls(**decode(spec["self"]["init"]))
            else:
                self_obj = cls.__new__(cls)
            for k, v in decode(spec["self"].get("attrs", {})).items():
                setattr(self_obj, k, v)
        fn = resolve(spec["target"])
        result = None
        exc = None
        try:
            if self_obj is not None:
                result = fn(self_obj, *args, **kwargs)
            else:
                result = fn(*args, **kwargs)
        except Exception as e:  # noqa
            exc = e
            out["exc"] = f"{type(e).__name__}: {e}"
        env.update(result=result, exc=exc, args=args, kwargs=kwargs, self_obj=self_obj)
        holds = eval(spec["check"], env)
        out["holds"] = bool(holds)
        out["observed"] = repr(result)[:600] if exc is None else out["exc"]
    except Exception as e:  # noqa
        out["error"] = "".join(traceback.format_exception(type(e), e, e.__traceback__))[-1500:]
    print(json.dumps(out))


if __name__ == "__main__":
    main()
