"""Positional arrays: 1-D numpy arrays indexed by position, for code that sorts and scans --
np.argsort, fancy indexing by the sort permutation, np.cumsum, np.where(mask)[0][-1], a[k], a[k + 1].

There is no quantifier in what this module emits.  A `PosWorld` keeps the list of positions that matter (the generic
position of each index space, every position the program indexes at, and whatever the harness adds); every fact about an
array (permutation, sortedness, prefix-sum recurrence, "last position with ...") is a *hook* that is instantiated at each
of those positions and at each pair of them.

Assumed library contracts (listed in the evidence):
  A-ARGSORT  np.argsort(x) is a permutation pi of range(len(x)) with x[pi] non-decreasing (ties in any order)
  A-CUMSUM   np.cumsum(a)[0] = a[0], np.cumsum(a)[p] = np.cumsum(a)[p-1] + a[p]
  A-WHERE    np.where(mask)[0] holds exactly the positions at which mask is true, in increasing order
Lemmas (lean/FrameSums.lean): prefix_in, prefix_out, perm_filter_sum.
"""
import z3

from . import sums
from .values import ANY, ExcVal, Space, SymRaise, Undecided, V, fresh_name, only_kw, real, to_term


def _use(n):
    """lemma schemas go to the lemma register, library contracts (A-..., a[pi]) to the theory register"""
    if n.startswith("A-") or n.startswith("a[pi]"):
        from . import theory_np

        theory_np._use(n)
    else:
        sums._use(n)


class PosWorld:
    def __init__(self, interp, name, n, prefix):
        self.interp, self.ctx, self.name, self.n, self.prefix = interp, interp.ctx, name, n, prefix
        self.rows = Space(f"{name}_rows", n=n)  # the order in which the caller passed the data
        self.pos = Space(f"{name}_pos", n=n)  # positions after sorting
        self.ctx.assume(z3.And(*self.rows.facts()))
        self.ctx.assume(z3.And(*self.pos.facts()))
        self.points = []
        self.hooks = []
        self.objects = {"perms": [], "cums": [], "lasts": []}  # what the run created (conformance drivers pin these)
        for p in (self.pos.u, self.pos.u2):
            self.instantiate(p)

    def inr(self, p):
        return z3.And(p >= 0, p < self.n)

    def instantiate(self, p):
        p = z3.simplify(p) if z3.is_expr(p) else z3.IntVal(p)
        if any(z3.eq(p, q) for q in self.points):
            return
        for hk in self.hooks:
            hk(p, list(self.points))
        self.points.append(p)

    def add_hook(self, hk):
        done = []
        for q in self.points:
            hk(q, done)
            done.append(q)
        self.hooks.append(hk)

    def array(self, name, sort=None):
        f = z3.Function(name, z3.IntSort(), sort or z3.RealSort())
        return PArr(self, self.rows, lambda i: f(i), desc=name)


class PArr:
    """a 1-D array over `space` (world.rows or world.pos); fn: index term -> element term"""

    def __init__(self, world, space, fn, desc="", src=None, perm=None, cum_of=None):
        self.world, self.space, self.fn, self.desc = world, space, fn, desc
        self.src, self.perm, self.cum_of = src, perm, cum_of
        if src is not None or cum_of is not None:
            world.interp.__dict__.setdefault("_posarr_views", []).append(self)  # (ghost access for the harness)

    def at(self, i):
        return self.fn(i)

    @property
    def is_bool(self):
        return z3.is_bool(self.fn(self.space.u))

    def _index(self, interp, key, what):
        w = self.world
        if isinstance(key, bool):
            raise Undecided("boolean scalar index")
        if isinstance(key, int):
            idx = z3.IntVal(key) if key >= 0 else w.n + key
        elif isinstance(key, V) and key.is_scalar and z3.is_int(key.t):
            idx = key.t
        else:
            return None
        idx = z3.simplify(idx)
        w.instantiate(idx)
        # numpy raises IndexError outside [-n, n); negative symbolic indices are not in the subset
        if interp.ctx.branch(V(z3.Not(w.inr(idx))), f"index-bounds:{what}"):
            raise SymRaise(ExcVal("IndexError", (f"index out of bounds for {what}",), ("LookupError",)))
        return idx

    def pyvc_getitem(self, interp, key):
        if isinstance(key, SortPerm):
            if key.world is not self.world or self.space is not self.world.rows:
                raise Undecided("fancy indexing by a permutation of other rows")
            _use("a[pi] for a permutation pi: (a[pi])[p] = a[pi[p]]")
            out = PArr(self.world, self.world.pos, lambda p, f=self.fn, pi=key.pi: f(pi(p)), desc=f"{self.desc}[argsort({key.of.desc})]", src=self, perm=key)
            if not self.is_bool:
                # perm_filter_sum with the predicate True: a permutation keeps the total
                sums._use("perm_filter_sum")
                w = self.world
                t_sorted, _ = sums.formal_sum_dom(w.ctx, w.pos, z3.BoolVal(True), real(out.fn(w.pos.u)))
                t_rows, _ = sums.formal_sum_dom(w.ctx, w.rows, z3.BoolVal(True), real(self.fn(w.rows.u)))
                w.ctx.assume(t_sorted == t_rows)
            return out
        idx = self._index(interp, key, self.desc)
        if idx is None:
            raise Undecided(f"indexing a positional array with {type(key).__name__}")
        return V(self.fn(idx))

    def _elementwise(self, other, op):
        if isinstance(other, PArr):
            if other.space is not self.space:
                raise Undecided("elementwise operation of arrays over different positions")
            return PArr(self.world, self.space, lambda i, a=self.fn, b=other.fn: op(a(i), b(i)), desc="expr")
        o = other.t if isinstance(other, V) else to_term(other)
        if isinstance(other, V) and other.axes:
            raise Undecided("positional array combined with a frame column")
        return PArr(self.world, self.space, lambda i, a=self.fn: op(a(i), o), desc="expr")

    def pyvc_compare(self, interp, opname, other, swapped):
        ops = {"Lt": lambda a, b: real(a) < real(b), "LtE": lambda a, b: real(a) <= real(b), "Gt": lambda a, b: real(a) > real(b), "GtE": lambda a, b: real(a) >= real(b), "Eq": lambda a, b: real(a) == real(b), "NotEq": lambda a, b: real(a) != real(b)}
        if opname not in ops:
            return NotImplemented
        f = ops[opname]
        return self._elementwise(other, (lambda a, b: f(b, a)) if swapped else f)

    def pyvc_binop(self, interp, opname, other, swapped):
        ops = {"Add": lambda a, b: real(a) + real(b), "Sub": lambda a, b: real(a) - real(b), "Mult": lambda a, b: real(a) * real(b)}
        if opname not in ops:
            return NotImplemented
        f = ops[opname]
        return self._elementwise(other, (lambda a, b: f(b, a)) if swapped else f)

    def pyvc_len(self, interp):
        return V(self.world.n)

    def pyvc_truth(self, interp):
        raise Undecided("truth value of an array")


class SortPerm:
    """np.argsort(x): A-ARGSORT"""

    def __init__(self, world, of):
        if of.space is not world.rows:
            raise Undecided("argsort of an array that is already a gathered view")
        _use("A-ARGSORT: np.argsort(x) is a permutation pi of range(len(x)) with x[pi] non-decreasing (ties in any order)")
        self.world, self.of = world, of
        self.pi = z3.Function(fresh_name("argsort"), z3.IntSort(), z3.IntSort())
        self.inv = z3.Function(fresh_name("argsort_inv"), z3.IntSort(), z3.IntSort())
        w, pi, inv, x = world, self.pi, self.inv, of.fn

        def hook(p, earlier):
            c = w.ctx
            c.assume(z3.Implies(w.inr(p), z3.And(w.inr(pi(p)), inv(pi(p)) == p)))
            for q in earlier:
                c.assume(z3.Implies(z3.And(w.inr(p), w.inr(q), p < q), real(x(pi(p))) <= real(x(pi(q)))))
                c.assume(z3.Implies(z3.And(w.inr(p), w.inr(q), q < p), real(x(pi(q))) <= real(x(pi(p)))))

        world.add_hook(hook)
        world.objects["perms"].append(self)


def np_argsort(world):
    def argsort(x, **kw):
        only_kw("np.argsort", kw, kind=ANY)  # (A-ARGSORT holds for every sorting algorithm; ties in any order)
        if not isinstance(x, PArr):
            raise Undecided("np.argsort of something that is not a positional array")
        return SortPerm(world, x)

    return argsort


def np_cumsum(world):
    def cumsum(a, **kw):
        only_kw("np.cumsum", kw)
        if not isinstance(a, PArr) or a.space is not world.pos:
            raise Undecided("np.cumsum of something that is not a sorted positional array")
        _use("A-CUMSUM: np.cumsum(a)[0] = a[0], np.cumsum(a)[p] = np.cumsum(a)[p-1] + a[p]")
        cum = z3.Function(fresh_name("cumsum"), z3.IntSort(), z3.RealSort())
        w = world

        def hook(p, earlier):
            c = w.ctx
            c.assume(z3.Implies(p == 0, cum(p) == real(a.fn(p))))
            for q in earlier:
                # consecutive positions: the recurrence
                c.assume(z3.Implies(z3.And(w.inr(p), w.inr(q), q == p + 1), cum(q) == cum(p) + real(a.fn(q))))
                c.assume(z3.Implies(z3.And(w.inr(p), w.inr(q), p == q + 1), cum(p) == cum(q) + real(a.fn(p))))

        world.add_hook(hook)
        out = PArr(world, world.pos, lambda p: cum(p), desc=f"cumsum({a.desc})", cum_of=a)
        out.cum = cum
        world.objects["cums"].append((cum, a))
        lemma_cumsum_total(world, a, out, "cumsum_total")  # the last entry is the total
        return out

    return cumsum


class PSel:
    """np.where(mask)[0]: the positions at which mask holds, increasing (A-WHERE)"""

    def __init__(self, world, mask):
        self.world, self.mask = world, mask

    def pyvc_getitem(self, interp, key):
        w = self.world
        if key == -1:
            # the LAST position at which the mask holds; IndexError when there is none
            cands = [z3.And(w.inr(p), self.mask.fn(p)) for p in w.points]
            none_known = z3.Not(z3.Or(*cands))
            if interp.ctx.branch(V(none_known), "where-selection-empty"):
                # (no position known to satisfy the mask: the selection may be empty)
                raise SymRaise(ExcVal("IndexError", ("index -1 is out of bounds for axis 0 with size 0",), ("LookupError",)))
            k = z3.Int(fresh_name("last_where"))
            interp.ctx.assume(z3.And(w.inr(k), self.mask.fn(k)))

            def hook(p, earlier, k=k):
                w.ctx.assume(z3.Implies(z3.And(w.inr(p), p > k), z3.Not(self.mask.fn(p))))

            w.instantiate(k)
            w.add_hook(hook)
            w.objects["lasts"].append((k, self.mask))
            return V(k)
        raise Undecided("np.where(mask)[0][i] other than the last element")

    def pyvc_len(self, interp):
        raise Undecided("number of selected positions")


def np_where(world, old):
    def where(c, *a, **kw):
        if isinstance(c, PArr) and not a and not kw:
            if not c.is_bool:
                raise Undecided("np.where of a non-boolean positional array")
            _use("A-WHERE: np.where(mask)[0] holds exactly the positions at which mask is true, in increasing order")
            return (PSel(world, c),)
        return old(c, *a, **kw)

    return where


def install(interp, world):
    for k in ("np", "numpy"):
        t = interp.theories[k]
        t["argsort"] = np_argsort(world)
        t["cumsum"] = np_cumsum(world)
        t["where"] = np_where(world, t["where"])


# ---- lemma applications ----------------------------------------------------------------------------------------------


def score_sum(world, scores, weights, pred):
    """Σ over the positions of `scores` (rows or sorted positions) with pred(score) of the weight"""
    sp = scores.space
    if weights.space is not sp:
        raise Undecided("scores and weights over different positions")
    return sums.formal_sum_dom(world.ctx, sp, pred(real(scores.fn(sp.u))), real(weights.fn(sp.u)))


def lemma_perm_filter_sum(world, xs, ws, pred, name):
    """the total weight of the entries whose score satisfies `pred` is the same over the sorted view (xs, ws) and over the
    arrays they were gathered from -- both gathered by the SAME permutation"""
    if xs.perm is None or ws.perm is not xs.perm or xs.src is None or ws.src is None:
        raise Undecided("perm_filter_sum: the two views are not gathered by one permutation")
    _use("perm_filter_sum")
    s_sorted, d_sorted = score_sum(world, xs, ws, pred)
    s_rows, d_rows = score_sum(world, xs.src, ws.src, pred)
    world.ctx.assume(s_sorted == s_rows)
    return s_sorted, s_rows


def lemma_prefix(world, xs, ws, cum, pred, name):
    """prefix_in / prefix_out for a DOWNWARD CLOSED predicate on scores (the caller passes `· <= v` or `· < v`), at every
    position of the world: pred(xs[p]) => cum[p] <= W_pred ;  not pred(xs[p]) => W_pred <= cum[p] - ws[p].
    Side conditions (obligations): xs is sorted, ws is non-negative, pred is downward closed; structural: cum is the
    cumsum of ws and both views are gathered by the permutation that sorts xs."""
    w, c = world, world.ctx
    if getattr(cum, "cum_of", None) is not ws or xs.perm is None or ws.perm is not xs.perm or xs.perm.of is not xs.src:
        raise Undecided("prefix lemma: not (scores sorted by their own argsort, weights gathered by it, their cumsum)")
    _use("prefix_in / prefix_out")
    u, u2 = w.pos.u, w.pos.u2
    facts = z3.And(*w.pos.facts())
    c.oblige(f"{w.prefix}.{name}/side.scores_sorted", z3.Implies(z3.And(facts, u < u2), real(xs.fn(u)) <= real(xs.fn(u2))), kind="lemma-side")
    c.oblige(f"{w.prefix}.{name}/side.weights_non_negative", z3.Implies(facts, real(ws.fn(u)) >= 0), kind="lemma-side")
    a, b = z3.Real(fresh_name("dc_a")), z3.Real(fresh_name("dc_b"))
    c.oblige(f"{w.prefix}.{name}/side.predicate_downward_closed", z3.Implies(z3.And(b <= a, pred(a)), pred(b)), kind="lemma-side")
    W, dW = score_sum(world, xs, ws, pred)

    def hook(p, earlier):
        c.assume(z3.Implies(z3.And(w.inr(p), pred(real(xs.fn(p)))), cum.fn(p) <= W))
        c.assume(z3.Implies(z3.And(w.inr(p), z3.Not(pred(real(xs.fn(p))))), W <= cum.fn(p) - real(ws.fn(p))))

    w.add_hook(hook)
    return W, dW


def lemma_cumsum_total(world, ws, cum, name):
    """the last entry of the cumsum is the sum of all entries (prefix_in with the predicate True)"""
    w, c = world, world.ctx
    if getattr(cum, "cum_of", None) is not ws:
        raise Undecided("cumsum_total: not the cumsum of these weights")
    _use("cumsum_total (List.take_length)")
    tot, d = sums.formal_sum_dom(c, w.pos, z3.BoolVal(True), real(ws.fn(w.pos.u)))
    last = w.n - 1
    w.instantiate(last)
    c.assume(z3.Implies(w.n >= 1, cum.fn(last) == tot))
    return tot, d
