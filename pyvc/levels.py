"""Frames whose rows live at DIFFERENT aggregation levels (pd.concat of per-level model tables).

A PartsFrame is a list of ordinary frames ("parts"), each over its own group-key universe (frames.KeySpace of a
prefix of the key list, possibly the empty prefix = one row for everything).  A column a part does not have is null in
that part -- exactly what pd.concat does.  Key constants are shared between key universes (gk_<name>), so a column term
of a coarser part is a valid term at the generic group of a finer universe: "the value at the group's state".

Only the operations the gaussian model tables go through are modelled; everything else is Undecided.
"""
import z3

from . import frames
from .frames import Frame, KeySpace, Poison, RowAxis, _null, _use
from .values import only_kw, SymRaise, ExcVal, Undecided, V, to_term


def _is_false(t):
    return z3.is_false(z3.simplify(t))


def _null_col(part, sort=None):
    srt = sort if sort is not None else z3.StringSort()
    return V(frames._default(srt), (part.axis,), part.index, z3.BoolVal(True))


class PartsFrame:
    def __init__(self, parts, names=None):
        self.parts = [p for p in parts]
        if names is None:
            names = []
            for p in self.parts:
                for k in p.cols:
                    if k not in names:
                        names.append(k)
        self.names = list(names)

    # ---- helpers ---------------------------------------------------------------------------------
    def _sort_of(self, name):
        for p in self.parts:
            c = p.cols.get(name)
            if c is not None and not isinstance(c, Poison):
                return c.t.sort()
        return z3.StringSort()

    def part_col(self, p, name):
        """column `name` of part p (null if the part does not have it)"""
        if name in p.cols:
            return p.col(name)
        return _null_col(p, self._sort_of(name))

    def map(self, fn):
        return PartsFrame([fn(p) for p in self.parts], self.names)

    def level_parts(self, root):
        return [p for p in self.parts if p.axis.root is root]

    # ---- python protocol --------------------------------------------------------------------------
    def pyvc_len(self, interp):
        return self.length()

    def length(self):
        n = z3.IntVal(0)
        for p in self.parts:
            n = n + p.axis.n
        return V(z3.simplify(n))

    def pyvc_getitem(self, interp, key):
        if isinstance(key, str):
            raise Undecided("a single column of a multi-level table")
        if isinstance(key, list):
            for k in key:
                if k not in self.names:
                    raise SymRaise(ExcVal("KeyError", (k,), ("LookupError",)))
            parts = []
            for p in self.parts:
                q = p._new(cols={})
                for k in key:
                    c = self.part_col(p, k)
                    q.cols[k] = V(c.t, (q.axis,), q.index, c.nan, c.inf, c.meta)
                parts.append(q)
            return PartsFrame(parts, list(key))
        if isinstance(key, PartsMask):
            if key.owner is not self and [id(p.axis) for p in key.owner.parts] != [id(p.axis) for p in self.parts]:
                if len(key.masks) != len(self.parts) or not all(frames.same_rows(m.axes[0], p.axis) for m, p in zip(key.masks, self.parts)):
                    raise Undecided("row mask built from another multi-level table")
            _use("multi-level table[bool mask]: each level filtered by its own part of the mask")
            parts = []
            for p, m in zip(self.parts, key.masks):
                mt = m.t if m.nan is None else z3.And(m.t, z3.Not(m.nan))
                if _is_false(mt):
                    continue  # no row of this level survives
                parts.append(p.filter(V(mt, (p.axis,), None)))
            return PartsFrame(parts, self.names)
        raise Undecided(f"multi-level table[{type(key).__name__}]")

    def pyvc_getattr(self, interp, name):
        if name == "shape":
            return (self.length(), len(self.names))
        if name == "columns":
            return frames.ColumnIndex(list(self.names))
        if name == "copy":
            def copy(deep=True):
                if deep is not True:
                    raise Undecided("copy(deep=False) aliases the data")
                return self.map(lambda p: p._new())

            return copy
        if name == "reset_index":

            def reset_index(drop=False, inplace=False, **kw):
                only_kw("levels.reset_index", kw)
                if inplace:
                    raise Undecided("reset_index(inplace=True)")
                if not drop:
                    raise Undecided("reset_index(drop=False) on a multi-level table")
                return self.map(lambda p: p._new(index=("range", p.axis.name)))

            return reset_index
        if name == "drop":

            def drop(labels=None, axis=0, columns=None, inplace=False, **kw):
                only_kw("levels.drop", kw)
                names = columns if columns is not None else labels
                if columns is None and axis != 1:
                    raise Undecided("DataFrame.drop of rows")
                if isinstance(names, (str, int)):
                    names = [names]
                for n in names:
                    if n not in self.names:
                        raise SymRaise(ExcVal("KeyError", (n,), ("LookupError",)))
                keep = [n for n in self.names if n not in names]
                parts = [p._new(cols={k: v for k, v in p.cols.items() if k not in names}) for p in self.parts]
                if inplace:
                    self.parts, self.names = parts, keep
                    return None
                return PartsFrame(parts, keep)

            return drop
        raise Undecided(f"multi-level table .{name} has no theory entry")

    def pyvc_contains(self, interp, x):
        return x in self.names


class PartsBool:
    """pd.isnull(multi-level table): per part, per column, a boolean column"""

    def __init__(self, owner, cells):
        self.owner = owner
        self.cells = cells  # list (per part) of dict name -> V(bool)

    def pyvc_getattr(self, interp, name):
        if name in ("all", "any"):

            def red(axis=0, **kw):
                only_kw("levels.red", kw)
                if axis != 1:
                    raise Undecided("reduction of a multi-level table along rows")
                masks = []
                for p, cs in zip(self.owner.parts, self.cells):
                    ts = [c.t for c in cs.values()]
                    t = (z3.And if name == "all" else z3.Or)(*ts) if ts else z3.BoolVal(name == "all")
                    masks.append(V(z3.simplify(t), (p.axis,), p.index))
                return PartsMask(self.owner, masks)

            return red
        raise Undecided(f"isnull(multi-level table).{name}")


class PartsMask:
    def __init__(self, owner, masks):
        self.owner = owner
        self.masks = masks


def isnull(pf):
    cells = []
    for p in pf.parts:
        cells.append({k: V(z3.simplify(_null(pf.part_col(p, k))), (p.axis,), p.index) for k in pf.names})
    return PartsBool(pf, cells)


# ---- merges ----------------------------------------------------------------------------------------------


def _nested(coarse, fine):
    return isinstance(coarse, KeySpace) and isinstance(fine, KeySpace) and set(coarse.keys) <= set(fine.keys)


def merge_coarse_fine(interp, fine, coarse, on, how, fine_is_left=True):
    """inner merge on the coarse frame's keys (or a cross merge with a frame that has at most ONE row): every row of the
    finer frame whose coarse key is a row of the coarse frame, carrying that row's columns"""
    cr, fr = coarse.axis.root, fine.axis.root
    if not _nested(cr, fr) or len(coarse.axis.doms) != 1:
        raise Undecided("merge of group frames over unrelated key universes")
    if how == "cross":
        if on:
            raise Undecided("cross merge with on=")
        if cr.keys != ():
            coarse = _at_most_one_row(interp, coarse)
            cr = coarse.axis.root
    elif how in ("inner", "left"):
        if set(on) != set(cr.keys):
            raise Undecided(f"merge of a {fr.keys} frame with a {cr.keys} frame on {on}")
        if how == "left" and not fine_is_left:
            raise Undecided("left merge with the coarser frame on the left")
    else:
        raise Undecided(f"merge how={how!r} between aggregation levels")
    if len(fine.axis.doms) != 1:
        fine = fine.flatten(interp)
    _use("merge(finer group frame, coarser group frame, on=coarse keys | how='cross' with a <=1-row frame): rows of the finer frame whose coarse key has a row, with that row's columns")
    cd = coarse.axis.doms[0]
    nn = []
    for k in cr.keys:
        c = fine.col(k)
        if not z3.eq(c.t, cr.keyvars[k]):
            raise Undecided("finer frame's key column is not the key itself")
        if c.nan is not None:
            nn.append(z3.Not(c.nan))
    matched = z3.And(cd, *nn)
    dom = fine.axis.doms[0] if how == "left" else z3.And(fine.axis.doms[0], matched)
    ax = RowAxis(fr, [dom], fine.axis.order)
    out = Frame(ax, {}, ("range", ax.name), fine.idkey)
    first, second = (fine, coarse) if fine_is_left else (coarse, fine)
    for f in (first, second):
        for name, c in f.cols.items():
            if name in out.cols:
                if name in on:
                    continue
                raise Undecided(f"column {name!r} on both sides of a merge between aggregation levels")
            if isinstance(c, Poison):
                out.cols[name] = c
            elif how == "left" and f is coarse:
                # an unmatched row of the finer (left) frame keeps its columns and gets nulls for the coarser ones
                nan = z3.Not(matched) if c.nan is None else z3.Or(c.nan, z3.Not(matched))
                out.cols[name] = V(c.t, (ax,), out.index, z3.simplify(nan), c.inf)
            else:
                out.cols[name] = V(c.t, (ax,), out.index, c.nan, c.inf)
    return out


def _at_most_one_row(interp, coarse):
    """a group frame used where the code relies on it having at most one row (cross merge): the obligation
    'two rows have the same key' (assert, then assume), and the frame re-expressed over the empty key tuple through a
    Skolem witness of its only row"""
    from .values import fresh_name

    cr = coarse.axis.root
    d = coarse.axis.doms[0]
    kvs = [cr.keyvars[k] for k in cr.keys]
    kv2 = [cr.keyvars2[k] for k in cr.keys]
    d2 = z3.substitute(d, *list(zip(kvs, kv2)))
    unique = z3.Implies(z3.And(d, d2), z3.And(*[a == b for a, b in zip(kvs, kv2)]))
    if not frames._provably(interp, unique):
        interp.ctx.oblige("cross_merge.other_side_has_at_most_one_row", unique, kind="alignment", why="how='cross' with a table that may hold several rows pairs every row with each of them (duplicated groups)")
        interp.ctx.assume(unique)
    wit = [z3.Const(fresh_name(f"onlyrow_{k}"), cr.keyvars[k].sort()) for k in cr.keys]
    b = z3.Bool(fresh_name("has_row"))
    at = lambda t: z3.substitute(t, *list(zip(kvs, wit)))  # noqa: E731
    interp.ctx.assume(z3.Implies(b, at(d)))
    for pt in (kvs, kv2):
        dp = z3.substitute(d, *list(zip(kvs, pt)))
        interp.ctx.assume(z3.Implies(dp, z3.And(b, *[x == w for x, w in zip(pt, wit)])))
    g0 = frames.keyspace([], {})
    ax = RowAxis(g0, [b], ("sorted", ()))
    out = Frame(ax, {}, ("range", ax.name), None)
    for name, c in coarse.cols.items():
        out.cols[name] = c if isinstance(c, Poison) else V(at(c.t), (ax,), out.index, at(c.nan) if c.nan is not None else None, None)
    return out


def merge_with_parts(interp, left, right, how="inner", on=None, **kw):
    """Frame.merge(multi-level table): the concatenation of the merges with every level (a level whose join key is null
    matches nothing -- the left frame's keys are never null)"""
    only_kw("levels.merge_with_parts", kw)
    if kw:
        raise Undecided(f"merge options {sorted(kw)}")
    on = [] if on is None else [on] if isinstance(on, str) else list(on)
    if how not in ("inner", "cross", "left"):
        raise Undecided(f"merge how={how!r} with a multi-level table")
    results = []
    for p in right.parts:
        if _is_false(z3.Or(*p.axis.doms)):
            continue
        if any(k not in p.cols or (p.cols[k].nan is not None and z3.is_true(z3.simplify(p.cols[k].nan))) for k in on):
            continue  # a null join key matches nothing
        if p.axis.root is left.axis.root:
            if how == "cross":
                raise Undecided("cross merge of frames over the same universe")
            results.append(frames.merge_frames(interp, left, p, how, on))
        else:
            results.append(merge_coarse_fine(interp, left, p, on, how))
    names = list(left.cols) + [n for n in right.names if n not in left.cols and n not in on]
    if how == "left":
        # every left row is kept; it is paired with the matching rows of the (at most one) level that can match
        if len(results) > 1:
            raise Undecided("left merge with a multi-level table in which several levels can match")
        if len(results) == 1:
            out = results[0]
            for n in names:
                if n not in out.cols:
                    out.cols[n] = _null_col(out, right._sort_of(n))
            return out
        out = left._new()
        for n in names:
            if n not in out.cols:
                out.cols[n] = _null_col(out, right._sort_of(n))
        return out
    if not results:
        empty = left.filter(V(z3.BoolVal(False), (left.axis,), None))
        for n in names:
            if n not in empty.cols:
                empty.cols[n] = _null_col(empty, right._sort_of(n))
        return empty
    if len(results) == 1:
        return results[0]
    return frames.pd_concat(interp)(results)


def concat(interp, objs):
    parts = []
    for o in objs:
        if isinstance(o, PartsFrame):
            parts.extend(o.parts)
        elif isinstance(o, Frame):
            parts.append(o)
        else:
            raise Undecided("pd.concat of non-frames")
    _use("pd.concat of tables over different key universes: rows appended; a key column absent from a part is null there")
    return PartsFrame(parts)
