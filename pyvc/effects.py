"""Guard / effect derivation over the real ASTs of the whole package (DESIGN 2.6, used by C12 and C18).

The package index resolves calls by name (functions: module-level name; methods: every class of the package
that defines a method of that name -- a sound over-approximation of dynamic dispatch).  For an entry point it
enumerates all call paths to *effect sites* (sinks / nondeterminism sources) and, for each path, the conjunction
of the branch conditions that enclose every call site on it, with parameters substituted by the call's argument
expressions and single-assignment locals expanded to their defining expressions.  Loops and recursion are handled
by visiting every function at most once per path (guards only get weaker, so this is sound for "every path to a
sink is guarded").
"""
import ast
import os

from . import SRC, source

PKG = "elexmodel"


class FnInfo:
    def __init__(self, mod, cls, node):
        self.mod = mod
        self.cls = cls
        self.node = node
        self.qual = f"{mod.modname}.{cls.name + '.' if cls is not None else ''}{node.name}"
        self.params = [a.arg for a in node.args.posonlyargs + node.args.args]
        self.defaults = {}
        nd = len(node.args.defaults)
        for p, d in zip(self.params[len(self.params) - nd:], node.args.defaults):
            self.defaults[p] = d
        for p, d in zip(node.args.kwonlyargs, node.args.kw_defaults):
            if d is not None:
                self.defaults[p.arg] = d


class Index:
    def __init__(self, skip=("elexmodel.cli",)):
        self.fns = {}
        self.by_name = {}
        self.methods = {}
        root = os.path.join(SRC, PKG)
        for dp, dn, fn in os.walk(root):
            for f in fn:
                if not f.endswith(".py"):
                    continue
                rel = os.path.relpath(os.path.join(dp, f), SRC)[:-3].replace(os.sep, ".")
                if rel.endswith(".__init__"):
                    rel = rel[: -len(".__init__")]
                if rel in skip:
                    continue
                try:
                    mod = source.module(rel)
                except Exception:
                    continue
                for n in mod.tree.body:
                    if isinstance(n, ast.FunctionDef):
                        self._add(FnInfo(mod, None, n))
                    elif isinstance(n, ast.ClassDef):
                        for m in n.body:
                            if isinstance(m, ast.FunctionDef):
                                self._add(FnInfo(mod, n, m))

    def _add(self, fi):
        self.fns[fi.qual] = fi
        if fi.cls is None:
            self.by_name.setdefault(fi.node.name, []).append(fi)
        else:
            self.methods.setdefault(fi.node.name, []).append(fi)

    def class_named(self, name):
        out = []
        for fi in self.fns.values():
            if fi.cls is not None and fi.cls.name == name and fi.node.name == "__init__":
                out.append(fi)
        return out

    COMMON = {"fit", "predict", "residuals", "get", "put", "copy", "update", "items", "keys", "values", "merge", "append", "extend", "sum", "mean", "std", "round", "min", "max", "all", "any", "load", "query", "sample", "fillna", "drop", "rename", "assign", "groupby", "agg", "apply", "reset_index", "sort_values", "astype", "reshape", "flatten", "clip", "isin", "tolist", "format", "join", "split", "startswith", "endswith", "index", "setdefault", "pop", "add", "read", "write", "close", "result", "empty", "task_done", "shuffle", "choice", "uniform", "multivariate_normal", "quantile", "cumsum", "unique", "to_numpy", "to_dict", "to_csv", "value_counts", "dropna", "isna", "isnull", "notnull", "where", "dot", "transpose", "ppf", "cdf", "debug", "info", "warning", "error", "difference", "lower", "upper", "strip", "replace", "count", "insert", "remove", "sort", "reverse", "head", "tail", "nunique", "size", "first", "last", "diff", "abs", "exp", "log"}

    def _class_fns(self, clsname, method, bases_only=False):
        """methods named `method` of class clsname, its package bases and (unless bases_only) its subclasses"""
        names = {clsname}
        # bases
        changed = True
        while changed:
            changed = False
            for fi in self.fns.values():
                if fi.cls is not None and fi.cls.name in names:
                    for m2, c2 in source.class_bases(fi.mod, fi.cls):
                        if c2.name not in names:
                            names.add(c2.name)
                            changed = True
                # subclasses
                if not bases_only and fi.cls is not None and fi.cls.name not in names:
                    for m2, c2 in source.class_bases(fi.mod, fi.cls):
                        if c2.name in names:
                            names.add(fi.cls.name)
                            changed = True
                            break
        return [fi for fi in self.methods.get(method, []) if fi.cls.name in names]

    def _ctor_class(self, expr):
        """class name if expr is a constructor call of a package class"""
        if isinstance(expr, ast.Call):
            f = expr.func
            nm = f.id if isinstance(f, ast.Name) else f.attr if isinstance(f, ast.Attribute) else None
            if nm and self.class_exists(nm):
                return nm
        return None

    def class_exists(self, name):
        return any(fi.cls is not None and fi.cls.name == name for fi in self.fns.values())

    def receiver_classes(self, recv, caller):
        """package classes the receiver expression may be an instance of (None = unknown)"""
        if isinstance(recv, ast.Name):
            if recv.id == "self" and caller.cls is not None:
                return {caller.cls.name}
            out = set()
            for n in ast.walk(caller.node):
                if isinstance(n, ast.Assign) and any(isinstance(t, ast.Name) and t.id == recv.id for t in n.targets):
                    c = self._ctor_class(n.value)
                    if c:
                        out.add(c)
                    elif isinstance(n.value, ast.Call):
                        # value returned by a package method whose every return is a constructor call / self
                        pass
            return out or None
        if isinstance(recv, ast.Attribute) and isinstance(recv.value, ast.Name) and recv.value.id == "self":
            out = set()
            for fi in self.fns.values():
                for n in ast.walk(fi.node):
                    if isinstance(n, ast.Assign):
                        for t in n.targets:
                            if isinstance(t, ast.Attribute) and t.attr == recv.attr and isinstance(t.value, ast.Name) and t.value.id == "self":
                                c = self._ctor_class(n.value)
                                if c:
                                    out.add(c)
                                elif isinstance(n.value, ast.Name):
                                    # self.x = param: constructor argument -- look at the call sites' argument? unknown
                                    pass
            return out or None
        if isinstance(recv, ast.Call) and isinstance(recv.func, ast.Name) and recv.func.id == "super" and caller.cls is not None:
            return {c.name for m, c in source.class_bases(caller.mod, caller.cls)} or set()
        c = self._ctor_class(recv)
        if c:
            return {c}
        return None

    def resolve(self, call, caller):
        """callees of an ast.Call inside `caller` (package functions only)"""
        f = call.func
        out = []
        if isinstance(f, ast.Name):
            out += [x for x in self.by_name.get(f.id, [])]
            out += self.class_named(f.id)  # constructor
        elif isinstance(f, ast.Attribute):
            name = f.attr
            recv = f.value
            if isinstance(recv, ast.Name) and recv.id in ("np", "pd", "math", "json", "os", "stats", "warnings", "LOG", "sp", "cvxpy", "tz", "io", "queue", "boto3"):
                return []
            is_super = isinstance(recv, ast.Call) and isinstance(recv.func, ast.Name) and recv.func.id == "super"
            classes = self.receiver_classes(recv, caller)
            if is_super:
                for c in classes or ():
                    out += self._class_fns(c, name, bases_only=True)
            elif classes:
                for c in classes:
                    out += self._class_fns(c, name)
            elif name.startswith("__"):
                pass
            else:
                # module-qualified function (math_utils.boot_sigma) or constructor (s3.S3CsvUtil)
                out += [x for x in self.by_name.get(name, [])]
                out += self.class_named(name)
                if name not in self.COMMON:
                    out += self.methods.get(name, [])
        seen, res = set(), []
        for x in out:
            if x.qual not in seen:
                seen.add(x.qual)
                res.append(x)
        return res


def _locals_single_assign(fn_node):
    """name -> defining expression, for locals assigned exactly once at the top level of the function by a simple
    assignment (used to expand guard atoms like `save_data` to `"data" in save_output`)"""
    counts, exprs = {}, {}
    for n in ast.walk(fn_node):
        if isinstance(n, (ast.Assign, ast.AugAssign, ast.AnnAssign, ast.For, ast.With, ast.NamedExpr)):
            targets = []
            if isinstance(n, ast.Assign):
                targets = n.targets
            elif isinstance(n, (ast.AugAssign, ast.AnnAssign)):
                targets = [n.target]
            elif isinstance(n, ast.For):
                targets = [n.target]
            for t in targets:
                for x in ast.walk(t):
                    if isinstance(x, ast.Name):
                        counts[x.id] = counts.get(x.id, 0) + (2 if not isinstance(n, ast.Assign) else 1)
                        if isinstance(n, ast.Assign) and len(n.targets) == 1 and isinstance(n.targets[0], ast.Name):
                            exprs[x.id] = n.value
    return {k: v for k, v in exprs.items() if counts.get(k) == 1}


def _attr_single_assign(index, clsname, attr):
    """self.<attr> assigned exactly once in the class (in any method): its defining expression and method"""
    found = []
    for fi in index.fns.values():
        if fi.cls is not None and fi.cls.name == clsname:
            for n in ast.walk(fi.node):
                if isinstance(n, ast.Assign):
                    for t in n.targets:
                        if isinstance(t, ast.Attribute) and isinstance(t.value, ast.Name) and t.value.id == "self" and t.attr == attr:
                            found.append((fi, n.value))
    return found


class Subst(ast.NodeTransformer):
    def __init__(self, mapping):
        self.mapping = mapping

    def visit_Name(self, node):
        if isinstance(node.ctx, ast.Load) and node.id in self.mapping:
            import copy

            return copy.deepcopy(self.mapping[node.id])
        return node


def subst(expr, mapping):
    import copy

    return ast.fix_missing_locations(Subst(mapping).visit(copy.deepcopy(expr)))


def enclosing_guards(fn_node, target):
    """[(test expr, polarity)] of the If / IfExp / While that enclose `target` inside fn_node; also the tests of
    earlier top-level `if ...: raise/return` statements that must have been false to get here are NOT included
    (they only strengthen the guard)."""
    path = []

    def walk(node, acc):
        if node is target:
            path.extend(acc)
            return True
        if isinstance(node, ast.If):
            for c in node.body:
                if walk(c, acc + [(node.test, True)]):
                    return True
            for c in node.orelse:
                if walk(c, acc + [(node.test, False)]):
                    return True
            return walk(node.test, acc)
        if isinstance(node, ast.IfExp):
            return walk(node.body, acc + [(node.test, True)]) or walk(node.orelse, acc + [(node.test, False)]) or walk(node.test, acc)
        for c in ast.iter_child_nodes(node):
            if walk(c, acc):
                return True
        return False

    walk(fn_node, [])
    return path


def bind_call(call, callee):
    """parameter name -> argument expression for a call into `callee` (self skipped for methods/constructors)"""
    params = list(callee.params)
    if callee.cls is not None and params and params[0] in ("self", "cls"):
        params = params[1:]
    m = {}
    for p, a in zip(params, call.args):
        if not isinstance(a, ast.Starred):
            m[p] = a
    for k in call.keywords:
        if k.arg is not None:
            m[k.arg] = k.value
    for p in params:
        if p not in m and p in callee.defaults:
            m[p] = callee.defaults[p]
    return m


class Path:
    def __init__(self, chain, guards, site, kind, detail):
        self.chain = chain  # list of function qualnames from the entry to the function containing the site
        self.guards = guards  # list of (expr ast, polarity) already substituted into the ENTRY's vocabulary where possible
        self.site = site
        self.kind = kind
        self.detail = detail

    def guard_text(self):
        return [("" if pol else "not ") + ast.unparse(e) for e, pol in self.guards]


def find_paths(index, entry_qual, site_finder, max_depth=12):
    """All call paths from the entry to effect sites.  site_finder(fn_info) -> [(ast node, kind, detail)]"""
    entry = index.fns[entry_qual]
    results = []

    def expand_locals(fi, expr):
        loc = _locals_single_assign(fi.node)
        # self.attr assigned exactly once in this function
        attrs = {}
        for n in ast.walk(fi.node):
            if isinstance(n, ast.Assign) and len(n.targets) == 1 and isinstance(n.targets[0], ast.Attribute) and isinstance(n.targets[0].value, ast.Name) and n.targets[0].value.id == "self":
                attrs.setdefault(n.targets[0].attr, []).append(n.value)
        attrs = {k: v[0] for k, v in attrs.items() if len(v) == 1}

        class A(ast.NodeTransformer):
            def visit_Attribute(self, node):
                if isinstance(node.value, ast.Name) and node.value.id == "self" and node.attr in attrs and isinstance(node.ctx, ast.Load):
                    import copy

                    return copy.deepcopy(attrs[node.attr])
                return self.generic_visit(node)

        import copy

        expr = ast.fix_missing_locations(A().visit(copy.deepcopy(expr)))
        for _ in range(4):
            names = {n.id for n in ast.walk(expr) if isinstance(n, ast.Name)}
            m = {k: v for k, v in loc.items() if k in names and k not in fi.params}
            if not m:
                break
            expr = subst(expr, m)
        return expr

    def visit(fi, chain, guards, mapping, depth):
        # mapping: parameter name of fi -> expression in the entry's vocabulary (or None if unknown)
        def translate(e):
            e = expand_locals(fi, e)
            e = subst(e, {k: v for k, v in mapping.items() if v is not None})
            try:
                if len(ast.unparse(e)) > 400:
                    return ast.Name(id="_large_expression_", ctx=ast.Load())
            except RecursionError:
                return ast.Name(id="_large_expression_", ctx=ast.Load())
            return e

        for node, kind, detail in site_finder(fi):
            g = [(translate(t), pol) for t, pol in enclosing_guards(fi.node, node)]
            results.append(Path(chain + [fi.qual], guards + g, node, kind, detail))
        if depth >= max_depth:
            return
        for call in [n for n in ast.walk(fi.node) if isinstance(n, ast.Call)]:
            for callee in index.resolve(call, fi):
                if callee.qual in chain or callee.qual == fi.qual:
                    continue
                g = [(translate(t), pol) for t, pol in enclosing_guards(fi.node, call)]
                b = bind_call(call, callee)
                m2 = {p: translate(a) for p, a in b.items()}
                visit(callee, chain + [fi.qual], guards + g, m2, depth + 1)

    visit(entry, [], [], {p: None for p in entry.params}, 0)
    return results
