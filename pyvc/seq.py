"""Symbolic sequences (python lists of unknown length), sets as membership predicates, and the
pointwise loop rule for `for i, x in enumerate(seq)` / `for x in seq`.

Loop rule (sound for loops whose iterations are independent): the body is executed ONCE for the generic
index u of the sequence's space with all its paths explored and merged by if-then-else; the only side
effects allowed are stores `arr[i] = v` into arrays over the same space at exactly the loop index (and
body-local temporaries).  This is the instantiation of the invariant
    forall j < i. arr[j] = F(seq[j])  and  forall j >= i. arr[j] = arr0[j].
Anything else in the body makes the function undecided.
"""
import z3

from .values import ExcVal, Space, SymRaise, Undecided, V, fresh_name, ite, root_space, to_term


class SymSeq:
    """list/Index of symbolic elements: element at generic index space.u is `elem` (a z3 term over space.u)."""

    def __init__(self, space, elem, name=None):
        self.space = space
        self.elem = elem
        self.name = name or space.name
        self._mem = None

    def mem(self):
        if self._mem is None:
            self._mem = z3.Function(fresh_name(f"mem_{self.name}"), self.elem.sort(), z3.BoolSort())
        return self._mem

    def facts(self):
        """every element is a member (instances at the two generic indices)"""
        m = self.mem()
        e2 = z3.substitute(self.elem, (self.space.u, self.space.u2))
        return [m(self.elem), m(e2)]

    def pyvc_contains(self, interp, x):
        xt = to_term(x)
        if xt.sort() != self.elem.sort():
            return False
        interp.ctx.assume(z3.And(*self.facts()))
        axes = x.axes if isinstance(x, V) else ()
        return V(self.mem()(xt), axes)

    def pyvc_len(self, interp):
        from .theory_np import SeqLen

        return SeqLen(self.space)

    def pyvc_set(self):
        return SymSet(lambda t: self.mem()(t), self.elem.sort(), [self])

    def pyvc_list(self):
        return self

    def pyvc_enumerate(self):
        return SymEnum(self, True)

    def pyvc_foreach(self, interp, stmt, env):
        return SymEnum(self, False).pyvc_foreach(interp, stmt, env)

    def pyvc_getitem(self, interp, key):
        if isinstance(key, int):
            n = self.space.n if z3.is_expr(self.space.n) else z3.IntVal(self.space.n)
            idx = n + key if key < 0 else z3.IntVal(key)
            if interp.ctx.branch(V(z3.Or(idx < 0, idx >= n)), "list-index"):
                raise SymRaise(ExcVal("IndexError", ("list index out of range",), ("LookupError",)))
            return V(z3.substitute(self.elem, (self.space.u, idx)))
        raise Undecided("subscript on a symbolic sequence")

    def pyvc_getattr(self, interp, name):
        if name in ("values", "tolist", "to_list"):
            return self if name == "values" else (lambda: self)
        raise Undecided(f"SymSeq.{name}")

    def as_v(self):
        return V(self.elem, (self.space,))


class SymSet:
    def __init__(self, pred, sort, seqs=()):
        self.pred = pred
        self.sort = sort
        self.seqs = list(seqs)

    def pyvc_binop(self, interp, opname, o, rev):
        if not isinstance(o, SymSet):
            if isinstance(o, (set, frozenset)):
                items = [to_term(i) for i in o]
                o = SymSet(lambda t: z3.Or(*[t == i for i in items]) if items else z3.BoolVal(False), self.sort)
            else:
                return NotImplemented
        a, b = (o, self) if rev else (self, o)
        if opname == "BitAnd":
            return SymSet(lambda t: z3.And(a.pred(t), b.pred(t)), self.sort, a.seqs + b.seqs)
        if opname == "BitOr":
            return SymSet(lambda t: z3.Or(a.pred(t), b.pred(t)), self.sort, a.seqs + b.seqs)
        if opname == "Sub":
            return SymSet(lambda t: z3.And(a.pred(t), z3.Not(b.pred(t))), self.sort, a.seqs + b.seqs)
        return NotImplemented

    def pyvc_len(self, interp):
        card = z3.Int(fresh_name("card"))
        w = z3.Const(fresh_name("witness"), self.sort)
        x = z3.Const(fresh_name("x"), self.sort)
        ctx = interp.ctx
        ctx.assume(card >= 0)
        ctx.assume(z3.Implies(card > 0, self.pred(w)))
        ctx.assume(z3.ForAll([x], z3.Implies(self.pred(x), card > 0)))
        return V(card)

    def pyvc_contains(self, interp, x):
        return V(self.pred(to_term(x)), x.axes if isinstance(x, V) else ())

    def pyvc_str(self, interp):
        return "<set>"


class SymEnum:
    def __init__(self, seq, with_index):
        self.seq = seq
        self.with_index = with_index

    def loop_with_invariant(self, interp, stmt, env, inv):
        """classical loop contract: (1) the invariant holds initially, (2) it is preserved by one arbitrary
        iteration, (3) after the loop the modified variables are arbitrary values satisfying it at i = len."""
        import ast

        from .interp import PathDone, _Break, _Continue, _Return

        seq, sp = self.seq, self.seq.space
        ctx = interp.ctx
        ctx.assume(z3.And(*sp.facts()))
        n = sp.n if z3.is_expr(sp.n) else z3.IntVal(sp.n)
        tnames = {x.id for x in _target_names(stmt.target)}
        modified = sorted({x.id for st in stmt.body for x in ast.walk(st) if isinstance(x, ast.Name) and isinstance(x.ctx, ast.Store)} - tnames)
        get0 = lambda name: env.get(name, interp)  # noqa: E731
        ctx.oblige("loop.invariant_holds_initially", inv(get0, z3.IntVal(0), seq), kind="loop")

        def havoc():
            for name in modified:
                try:
                    old = env.get(name, interp)
                except SymRaise:
                    continue  # body-local
                t = to_term(old)
                srt = z3.RealSort() if z3.is_real(t) or z3.is_int(t) else t.sort()
                _rebind(env, name, V(z3.Const(fresh_name(f"loop_{name}"), srt)))

        phase = z3.Bool(fresh_name("loop_phase_preservation"))
        if ctx.branch(V(phase), "loop-contract"):
            havoc()
            i = sp.u
            ctx.assume(inv(lambda nm: env.get(nm, interp), i, seq))
            item = V(seq.elem)
            interp.assign(stmt.target, (V(i), item) if self.with_index else item, env)
            try:
                interp.exec_block(stmt.body, env)
            except _Continue:
                pass
            except (_Break, _Return):
                raise Undecided("break/return inside a loop with an invariant")
            ctx.oblige("loop.invariant_preserved", inv(lambda nm: env.get(nm, interp), i + 1, seq), kind="loop")
            raise PathDone()
        havoc()
        ctx.assume(inv(lambda nm: env.get(nm, interp), n, seq))

    def pyvc_foreach(self, interp, stmt, env):
        from .interp import Env, Explorer, PathCtx, InfeasiblePath, _Break, _Continue, _Return

        inv = getattr(interp, "loop_invariants", {}).get(stmt.lineno) or getattr(interp, "loop_invariants", {}).get("*")
        if inv is not None:
            return self.loop_with_invariant(interp, stmt, env, inv)
        if stmt.orelse:
            raise Undecided("for/else over a symbolic sequence")
        seq = self.seq
        sp = seq.space
        outer_ctx = interp.ctx
        outer_ctx.assume(z3.And(*sp.facts()))
        outer_ctx.assume(z3.And(*seq.facts()))
        item = V(seq.elem)  # scalar at the generic index
        idx = V(sp.u)
        value = (idx, item) if self.with_index else item
        objs = _reachable_objs(env)
        before = {id(o): len(o.written) for o in objs}
        results = []
        ex = Explorer(max_paths=64)
        ex.notes = outer_ctx.notes
        ex.pending = [[]]
        base_pc = list(outer_ctx.pc)
        # the variables of the enclosing functions as they are BEFORE the loop: an in-place update inside the body (an item
        # assignment at the generic index) re-binds every holder of the array, but the pointwise rule needs the pre-loop
        # value to merge with -- the enclosing tables are restored after each explored path of the body
        chain, p_ = [], env
        while isinstance(p_, Env):
            chain.append((p_, dict(p_.vars)))
            p_ = p_.parent
        while ex.pending:
            dec = ex.pending.pop()
            ctx = PathCtx(dec, ex)
            ctx.pc = list(base_pc)
            for k, v in outer_ctx.__dict__.items():
                if k.startswith("_"):
                    ctx.__dict__[k] = v
            interp.ctx = ctx
            child = Env(env)
            try:
                interp.assign(stmt.target, value, child)
                interp.exec_block(stmt.body, child)
            except InfeasiblePath:
                continue
            except _Continue:
                pass
            except (_Break, _Return):
                interp.ctx = outer_ctx
                raise Undecided("break/return inside a loop over a symbolic sequence")
            except SymRaise:
                interp.ctx = outer_ctx
                raise Undecided("raise inside a loop over a symbolic sequence")
            finally:
                interp.ctx = outer_ctx
                for e_, snap in chain:
                    for k_, v_ in snap.items():
                        if e_.vars.get(k_) is not v_:
                            # (re-bound by an in-place update of the body: the new value is the body's result for it)
                            child.vars.setdefault(k_, e_.vars.get(k_))
                            e_.vars[k_] = v_
            outer_ctx.obligations.extend(ctx.obligations)
            # branch conditions of the body select the merged value; facts assumed in the body (definitional
            # facts of theory symbols) are exported to the enclosing path, guarded by the branches before them
            bids = {b.get_id() for b in ctx.branches}
            local_pc, guards = [], []
            for f in ctx.pc[len(base_pc):]:
                if f.get_id() in bids:
                    local_pc.append(f)
                    guards.append(f)
                else:
                    outer_ctx.assume(z3.Implies(z3.And(*guards), f) if guards else f)
            results.append((local_pc, child.vars))
        for o in objs:
            if len(o.written) != before[id(o)]:
                raise Undecided("object attribute written inside a loop over a symbolic sequence")
        # merge stores
        tnames = {n.id for n in _target_names(stmt.target)}
        names = set()
        for _, vars_ in results:
            names |= set(vars_)
        names -= tnames
        for name in names:
            try:
                old = env.get(name, interp)
            except SymRaise:
                continue  # body-local temporary
            if not (isinstance(old, V) and len(old.axes) == 1 and root_space(old.axes[0]) is sp):
                raise Undecided(f"loop over a symbolic sequence assigns outer variable {name!r} (not an array over the sequence)")
            merged = old
            for local_pc, vars_ in results:
                if name in vars_:
                    new = vars_[name]
                    cond = V(z3.And(*local_pc) if local_pc else z3.BoolVal(True), (sp,))
                    merged = ite(cond, V(new.t, old.axes, old.series, new.nan, new.inf), merged)
            aliases = interp.holders_of(old, stmt.lineno)
            _rebind(env, name, merged)
            interp.rebind_holders(aliases, old, merged)


def _rebind(env, name, val):
    from .interp import Env

    p = env
    while isinstance(p, Env):
        if name in p.vars:
            p.vars[name] = val
            return
        p = p.parent
    env.set(name, val)


def _target_names(t):
    import ast

    return [n for n in ast.walk(t) if isinstance(n, ast.Name)]


def _reachable_objs(env):
    from .interp import Env
    from .values import Obj

    out = []
    p = env
    while isinstance(p, Env):
        for v in p.vars.values():
            if isinstance(v, Obj):
                out.append(v)
        p = p.parent
    return out
