"""Evaluation of symbolic results on a CONCRETE input (conformance drivers: a differential test of the trusted base).

Every input symbol is pinned (function applications at the concrete row indices), every reduction symbol (formal sum,
any/all, group presence, cardinality, spec-side existentials) gets its finite definition over the N concrete rows -- for
every concrete tuple of group keys --, and terms are evaluated bottom-up by substitution + simplification to a fixpoint.
No solver search is involved; a term that does not reduce to a value is reported, not guessed."""
import itertools
import math
from fractions import Fraction

import z3


def rv(x):
    fr = Fraction(x) if isinstance(x, int) else Fraction(x).limit_denominator(10**9)
    return z3.RealVal(f"{fr.numerator}/{fr.denominator}")


def is_value(v):
    return z3.is_int_value(v) or z3.is_rational_value(v) or z3.is_algebraic_value(v) or z3.is_true(v) or z3.is_false(v) or z3.is_string_value(v)


class Evaluator:
    def __init__(self, ctx, root, N, key_values):
        self.ctx, self.root, self.N = ctx, root, N
        self.key_values = key_values  # key name -> list of concrete values (strings)
        self.pairs = {}
        self.pin(root.n, z3.IntVal(N))

    def pin(self, term, val):
        self.pairs[term.get_id()] = (term, val)

    def at(self, t, i):
        return z3.substitute(t, (self.root.u, z3.IntVal(i)))

    def combos(self, params):
        names = [str(p)[3:] for p in params]
        for vals in itertools.product(*[self.key_values[n] for n in names]):
            yield [(p, z3.StringVal(v)) for p, v in zip(params, vals)]

    def _sqrt_pass(self, t):
        out, stack, seen = [], [t], set()
        while stack:
            x = stack.pop()
            if x.get_id() in seen:
                continue
            seen.add(x.get_id())
            if z3.is_app(x):
                if x.decl().name() == "pyvc_sqrt" and (z3.is_rational_value(x.arg(0)) or z3.is_int_value(x.arg(0))):
                    a0 = x.arg(0)
                    val = float(Fraction(a0.numerator_as_long(), a0.denominator_as_long())) if z3.is_rational_value(a0) else float(a0.as_long())
                    out.append((x, rv(round(math.sqrt(max(val, 0.0)), 12))))
                stack.extend(x.children())
        return out

    def ev(self, t):
        for _ in range(16):
            t2 = z3.simplify(z3.substitute(t, *self.pairs.values()))
            sq = self._sqrt_pass(t2)
            if sq:
                t2 = z3.simplify(z3.substitute(t2, *sq))
            if t2.get_id() == t.get_id():
                break
            t = t2
        return t

    def num(self, t):
        v = self.ev(t)
        if z3.is_int_value(v):
            return float(v.as_long())
        if z3.is_rational_value(v):
            return float(Fraction(v.numerator_as_long(), v.denominator_as_long()))
        if z3.is_algebraic_value(v):
            return float(v.approx(15).as_fraction())
        return None

    def define_reductions(self, extra_defs=()):
        """finite definitions of every reduction symbol registered on the path; returns the list of unresolved ones"""
        from . import frames

        ctx, root, N, at = self.ctx, self.root, self.N, self.at
        defs = list(extra_defs)
        for d in ctx.__dict__.get("_sums", []):
            if d.space is not root:
                continue
            ps = [p for p in d.rest_idx if str(p).startswith("gk_")]
            if len(ps) != len(d.rest_idx):
                continue
            for sub in (self.combos(ps) if ps else [[]]):
                sb = (lambda t_, sub=sub: z3.substitute(t_, *sub)) if sub else (lambda t_: t_)
                defs.append((sb(d.sym), z3.Sum([z3.If(at(sb(d.dom), i), at(sb(d.summand), i), 0) for i in range(N)])))
        for nm, (p, member, r) in ctx.__dict__.get("_present_defs", {}).items():
            if r is not root:
                continue
            ps = list(p.children())
            for sub in (self.combos(ps) if ps else [[]]):
                sb = (lambda t_, sub=sub: z3.substitute(t_, *sub)) if sub else (lambda t_: t_)
                defs.append((sb(p), z3.Or(*[at(sb(member), i) for i in range(N)])))
        for rec in ctx.__dict__.get("_anyall", []):
            if rec["root"] is root:
                defs.append((rec["hit"], z3.Or(*[rec["body"](z3.IntVal(i)) for i in range(N)])))
        for b, body, r in ctx.__dict__.get("_exists_defs", []):
            if r is root:
                defs.append((b, z3.Or(*[at(body, i) for i in range(N)])))
        for (rn, _k), (c, dom) in list(frames._COUNTS.items()):
            if rn == root.name and z3.is_const(c):
                defs.append((c, z3.Sum([z3.If(at(dom, i), 1, 0) for i in range(N)])))
        pending = [(z3.simplify(l), r) for l, r in defs]
        progress, rounds = True, 0
        while progress and pending and rounds < 16:
            progress, rounds, nxt = False, rounds + 1, []
            for lhs, rhs in pending:
                if lhs.get_id() in self.pairs:
                    continue
                lhs2 = lhs if z3.is_const(lhs) else self.ev(lhs)
                if is_value(lhs2):
                    continue
                v = self.ev(rhs)
                if is_value(v):
                    self.pin(lhs, v)
                    if lhs2.get_id() != lhs.get_id():
                        self.pin(lhs2, v)
                    progress = True
                else:
                    nxt.append((lhs, rhs))
            pending = nxt
        return pending

    def path_matches(self):
        """True / False / None (a branch condition does not evaluate)"""
        conds = [self.ev(b) for b in self.ctx.branches]
        if any(z3.is_false(c) for c in conds):
            return False
        if all(z3.is_true(c) for c in conds):
            return True
        return None
