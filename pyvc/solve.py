"""Back ends: z3 (python API) first, cvc5 (CLI) on z3's `unknown`; both in the thorough tier."""
import os
import subprocess
import tempfile
import time

import z3

CVC5 = "/usr/bin/cvc5"


def to_smt2(assertions, logic="ALL"):
    s = z3.Solver()
    for a in assertions:
        s.add(a)
    txt = s.to_smt2()
    # z3 prints "(set-info :status unknown)" and no logic
    return txt


def run_z3(assertions, timeout_ms):
    s = z3.Solver()
    s.set("timeout", int(timeout_ms))
    for a in assertions:
        s.add(a)
    t0 = time.time()
    r = s.check()
    dt = time.time() - t0
    model = None
    reason = None
    if r == z3.sat:
        model = s.model()
    elif r == z3.unknown:
        reason = s.reason_unknown()
    return str(r), model, dt, reason


def run_cvc5(assertions, timeout_ms, extra=()):
    txt = to_smt2(assertions)
    txt = "(set-logic ALL)\n" + "\n".join(l for l in txt.splitlines() if not l.startswith("(set-info"))
    fd, path = tempfile.mkstemp(suffix=".smt2", dir=os.environ.get("TMPDIR", "/tmp"))
    try:
        with os.fdopen(fd, "w") as f:
            f.write(txt)
        t0 = time.time()
        try:
            p = subprocess.run(
                [CVC5, f"--tlimit={int(timeout_ms)}", "--nl-ext-tplanes", "--strings-exp", *extra, path],
                capture_output=True,
                text=True,
                timeout=timeout_ms / 1000 + 10,
            )
            out = p.stdout.strip().splitlines()
            r = out[0].strip() if out else "unknown"
            if r not in ("sat", "unsat", "unknown"):
                r = "unknown"
        except subprocess.TimeoutExpired:
            r = "unknown"
        return r, time.time() - t0
    finally:
        try:
            os.unlink(path)
        except OSError:
            pass


def discharge(assertions, timeout_ms=20000, both=False):
    """Is the conjunction of `assertions` unsatisfiable?  Returns dict(verdict, backend, seconds, model, note).
    The last assertion is the negated goal, the others the path condition; denominators that are provably
    positive under the path condition are cleared first (pyvc.normdiv, equivalence preserving)."""
    from .normdiv import normalize

    if assertions:
        try:
            pc2, extra2 = normalize(assertions[:-1], assertions[-1:])
            assertions = pc2 + extra2
        except z3.Z3Exception:
            pass
    r, model, dt, reason = run_z3(assertions, timeout_ms)
    out = {"verdict": r, "backend": "z3", "seconds": round(dt, 4), "model": model, "note": reason}
    if r == "unknown":
        r2, dt2 = run_cvc5(assertions, timeout_ms)
        out["seconds"] = round(dt + dt2, 4)
        if r2 != "unknown":
            out.update(verdict=r2, backend="cvc5", note=f"z3 unknown ({reason})")
            return out
        # both back ends ran out of time: verdicts must not flip when the machine is busy (all cores taken by other
        # checks), so ask z3 once more with four times the budget before calling the obligation undecided
        r3, model3, dt3, reason3 = run_z3(assertions, timeout_ms * 4)
        out["seconds"] = round(dt + dt2 + dt3, 4)
        if r3 != "unknown":
            out.update(verdict=r3, backend="z3", model=model3, note=f"decided on the retry with a {timeout_ms * 4} ms budget")
        return out
    if both:
        r2, dt2 = run_cvc5(assertions, timeout_ms)
        out["seconds"] = round(dt + dt2, 4)
        out["cvc5"] = r2
        if r2 != "unknown" and r2 != r:
            out["verdict"] = "disagree"
            out["note"] = f"z3={r} cvc5={r2}"
        elif r2 == r:
            out["backend"] = "z3+cvc5"
    return out
