"""Reductions along an axis as formal (uninterpreted) symbols related only through lemma instances.

Each lemma corresponds to a statement proved in /verif/lean/FrameSums.lean (table in DESIGN 2.5);
applying a lemma emits its side conditions as *obligations* and only then adds the conclusion to the
path condition.
"""
import z3

from .values import ONE, Space, SubSpace, Undecided, V, fresh_name, num, real, root_space

LEMMAS_USED = []


def _use(n):
    if n not in LEMMAS_USED:
        LEMMAS_USED.append(n)


class SumDef:
    def __init__(self, sym, space, dom, summand, rest_idx):
        self.sym = sym  # z3 term: the value of the sum (function application over rest indices)
        self.space = space  # root Space reduced over
        self.dom = dom  # z3 Bool over space.u (rows included)
        self.summand = summand  # z3 term over space.u (+ rest indices)
        self.rest_idx = rest_idx


def _registry(ctx):
    return ctx.__dict__.setdefault("_sums", [])


def _axis(v, axis):
    nd = len(v.axes)
    if axis is None:
        real_axes = [i for i, a in enumerate(v.axes) if a is not ONE]
        if len(real_axes) != 1:
            raise Undecided("reduction over all axes of a multi-dimensional array")
        return real_axes[0]
    if axis < 0:
        axis += nd
    return axis


def formal_sum(ctx, space_axis, summand, rest_axes=()):
    """Σ over the rows of `space_axis` (Space or SubSpace) of `summand`; returns (term, SumDef)."""
    root = root_space(space_axis)
    dom = z3.BoolVal(True)
    a = space_axis
    while isinstance(a, SubSpace):
        dom = z3.And(a.mask, dom)
        a = a.parent
    dom = z3.simplify(dom)
    summand = num(summand)
    reg = _registry(ctx)
    for d in reg:
        if d.space is root and z3.eq(d.dom, dom) and z3.eq(z3.simplify(d.summand), z3.simplify(summand)):
            return d.sym, d
    idx = [root_space(x).u for x in rest_axes if x is not ONE]
    sort = z3.IntSort() if z3.is_int(summand) else z3.RealSort()
    if idx:
        f = z3.Function(fresh_name(f"sum_{root.name}"), *([z3.IntSort()] * len(idx) + [sort]))
        sym = f(*idx)
    else:
        sym = z3.Const(fresh_name(f"sum_{root.name}"), sort)
    d = SumDef(sym, root, dom, summand, idx)
    reg.append(d)
    return sym, d


def _params(terms, exclude):
    """generic-index / group-key constants occurring in the terms (the sum symbol is a function of them)"""
    seen = {}
    stack = list(terms)
    visited = set()
    while stack:
        t = stack.pop()
        if t.get_id() in visited:
            continue
        visited.add(t.get_id())
        if z3.is_const(t) and t.decl().kind() == z3.Z3_OP_UNINTERPRETED:
            n = t.decl().name()
            if (n.startswith("gk_") or n.startswith("u_") or n.startswith("gk2_") or n.startswith("u2_") or n.startswith("seg!")) and not any(z3.eq(t, e) for e in exclude):
                seen[n] = t
        elif z3.is_app(t):
            stack.extend(t.children())
        elif z3.is_quantifier(t):
            stack.append(t.body())
    return [seen[k] for k in sorted(seen)]


def _mentions(t, var):
    stack = [t]
    seen = set()
    while stack:
        x = stack.pop()
        if x.get_id() in seen:
            continue
        seen.add(x.get_id())
        if z3.eq(x, var):
            return True
        if z3.is_app(x):
            stack.extend(x.children())
    return False


def formal_sum_dom(ctx, root, dom, summand):
    """Σ_{u in root, dom(u)} summand(u) where dom/summand may mention group-key constants / other generic
    indices: the symbol is an uninterpreted function of those parameters."""
    dom = z3.simplify(dom)
    summand = z3.simplify(num(summand))
    reg = _registry(ctx)
    for d in reg:
        if d.space is root and z3.eq(d.dom, dom) and z3.eq(d.summand, summand):
            return d.sym, d
    # a sum of integers read as reals is the integer sum read as a real
    if z3.is_app(summand) and summand.decl().kind() == z3.Z3_OP_TO_REAL:
        inner, dinner = formal_sum_dom(ctx, root, dom, summand.arg(0))
        return z3.ToReal(inner) if z3.is_int(inner) else inner, dinner
    # sum_linear: a factor that does not depend on the summation index moves out of the sum
    if z3.is_app(summand) and summand.decl().kind() == z3.Z3_OP_DIV and not _mentions(summand.arg(1), root.u):
        inner, dinner = formal_sum_dom(ctx, root, dom, summand.arg(0))
        _use("sum_linear")
        return real(inner) / summand.arg(1), dinner
    if (z3.is_int_value(summand) or z3.is_rational_value(summand)) and z3.is_true(z3.simplify(summand == 0)):
        # a sum of zeros is zero (sum_linear with coefficient 0)
        zero = z3.IntVal(0) if z3.is_int(summand) else z3.RealVal(0)
        return zero, SumDef(zero, root, dom, summand, [])
    # sum_congr_dom: universally equivalent domain and summand => the same sum (checked without assumptions)
    for d in reg:
        if d.space is not root or d.summand.sort() != summand.sort():
            continue
        s_ = z3.Solver()
        s_.set("timeout", 800)
        s_.add(z3.Or(dom != d.dom, z3.And(dom, summand != d.summand)))
        if s_.check() == z3.unsat:
            nd = SumDef(d.sym, root, dom, summand, d.rest_idx)
            reg.append(nd)
            return d.sym, nd
    ps = _params([dom, summand], [root.u])
    sort = z3.IntSort() if z3.is_int(summand) else z3.RealSort()
    if z3.is_false(dom):
        sym = z3.IntVal(0) if z3.is_int(summand) else z3.RealVal(0)
    elif ps:
        f = z3.Function(fresh_name(f"sum_{root.name}"), *([p.sort() for p in ps] + [sort]))
        sym = f(*ps)
    else:
        sym = z3.Const(fresh_name(f"sum_{root.name}"), sort)
    d = SumDef(sym, root, dom, summand, ps)
    reg.append(d)
    return sym, d


class StatDef:
    def __init__(self, kind, sym, space, dom, terms, extra):
        self.kind, self.sym, self.space, self.dom, self.terms, self.extra = kind, sym, space, dom, terms, extra


def formal_stat(ctx, kind, root, dom, terms, extra=()):
    """an order-insensitive statistic `kind` of the rows {u in root : dom(u)} with per-row data `terms` (and scalar
    parameters `extra`): an uninterpreted function of the group-key parameters; the same (universally equivalent) rows
    and data give the same symbol, anything else a fresh one -- nothing else is known about the value"""
    dom = z3.simplify(dom)
    terms = [z3.simplify(t) for t in terms]
    extra = [z3.simplify(e) for e in extra]
    reg = ctx.__dict__.setdefault("_stats", [])
    for d in reg:
        if d.kind != kind or d.space is not root or len(d.terms) != len(terms) or len(d.extra) != len(extra):
            continue
        if not all(a.sort() == b.sort() for a, b in zip(d.terms + d.extra, terms + extra)):
            continue
        if z3.eq(d.dom, dom) and all(z3.eq(a, b) for a, b in zip(d.terms + d.extra, terms + extra)):
            return d.sym, d
        s_ = z3.Solver()
        s_.set("timeout", 800)
        s_.add(z3.Or(dom != d.dom, z3.And(dom, z3.Or(*[a != b for a, b in zip(d.terms, terms)])) if terms else z3.BoolVal(False), *[a != b for a, b in zip(d.extra, extra)]))
        if s_.check() == z3.unsat:
            nd = StatDef(kind, d.sym, root, dom, terms, extra)
            reg.append(nd)
            return d.sym, nd
    ps = _params([dom] + terms, [root.u])
    args = ps + list(extra)
    if args:
        f = z3.Function(fresh_name(f"{kind}_{root.name}"), *([a.sort() for a in args] + [z3.RealSort()]))
        sym = f(*args)
    else:
        sym = z3.Real(fresh_name(f"{kind}_{root.name}"))
    d = StatDef(kind, sym, root, dom, terms, extra)
    reg.append(d)
    return sym, d


def lemma_stat_congr(ctx, a, b, guard=None, name="stat_congr"):
    """two statistics of the same kind over the same rows with the same data (under `guard`, a condition on the group
    parameters only) are equal"""
    _use("stat_congr (a statistic is a function of the multiset of its rows' data)")
    if a.space is not b.space or a.kind != b.kind:
        raise Undecided("stat_congr over different spaces / kinds")
    g = guard if guard is not None else z3.BoolVal(True)
    same = z3.And(a.dom == b.dom, z3.Implies(a.dom, z3.And(*[x == y for x, y in zip(a.terms, b.terms)])) if a.terms else z3.BoolVal(True), *[x == y for x, y in zip(a.extra, b.extra)])
    ctx.oblige(name + "/side.pointwise", z3.Implies(z3.And(g, *a.space.facts()), same), kind="lemma-side")
    ctx.assume(z3.Implies(g, a.sym == b.sym))


def axis_sum(ctx, axis, term):
    """Σ over the rows of a frames.RowAxis / SubSpace / Space of `term` (a z3 term over the generic row)"""
    from .frames import RowAxis

    masks = []
    a = axis
    while isinstance(a, SubSpace):
        masks.append(a.mask)
        a = a.parent
    if isinstance(a, RowAxis):
        total = None
        defs = []
        for i, dd in enumerate(a.doms):
            dom = z3.And(dd, *[a.seg_term(m, i) for m in masks]) if masks else dd
            sym, d = formal_sum_dom(ctx, a.root, dom, a.seg_term(num(term), i))
            defs.append(d)
            total = sym if total is None else total + sym
        return total, defs
    dom = z3.And(*masks) if masks else z3.BoolVal(True)
    sym, d = formal_sum_dom(ctx, a, dom, term)
    return sym, [d]


def reduce_sum(interp, v, axis):
    from .frames import RowAxis

    ax0 = _axis(v, axis)
    a = v.axes[ax0]
    b = a
    while isinstance(b, SubSpace):
        b = b.parent
    if isinstance(b, RowAxis):
        rest = tuple(x for i, x in enumerate(v.axes) if i != ax0)
        t = v.t
        if v.nan is not None:
            t = z3.If(v.nan, 0 * num(t), num(t))  # pandas Series.sum skips NaN
        sym, defs = axis_sum(interp.ctx, a, t)
        # pandas (a Series) skips NaN; numpy (a bare array) does not: the sum is NaN as soon as ONE entry is
        out = V(sym, rest, None, None if v.series is not None else _flag_of_reduction(interp, v, v.nan, ax0), _flag_of_reduction(interp, v, v.inf, ax0))
        out.meta = ("sum", defs[0] if len(defs) == 1 else defs)
        return out
    return _reduce_sum_plain(interp, v, axis)


def _flag_of_reduction(interp, v, flag, ax):
    """NaN / inf flag of a reduction along axis `ax`: some reduced entry carries the flag"""
    if flag is None:
        return None
    red = v.axes[ax]
    if not _mentions(flag, root_space(red).u):
        return flag
    if len(v.axes) != 1:
        raise Undecided("NaN / inf flag of a reduction along one axis of a 2-D array")
    return reduce_anyall(interp, V(flag, v.axes), ax, "any").t


def _reduce_sum_plain(interp, v, axis):
    ax = _axis(v, axis)
    rest = tuple(a for i, a in enumerate(v.axes) if i != ax)
    sym, d = formal_sum(interp.ctx, v.axes[ax], v.t, rest)
    out = V(sym, rest, None, _flag_of_reduction(interp, v, v.nan, ax), _flag_of_reduction(interp, v, v.inf, ax))
    out.meta = ("sum", d)
    return out


def reduce_mean(interp, v, axis):
    ax = _axis(v, axis)
    if v.nan is not None and v.series is not None:
        raise Undecided("mean of a Series that may hold NaN (pandas divides by the number of non-missing entries)")
    s = reduce_sum(interp, v, axis)
    n = v.axes[ax].n
    r = s / V(n if z3.is_expr(n) else z3.IntVal(n))
    r.meta = ("mean", s.meta[1], v.axes[ax])
    return r


def _rows_cond(axis, cond):
    """(root, term over root.u): 'u is a row of `axis` (in some segment) and `cond` holds there'"""
    from .frames import RowAxis

    masks = []
    a = axis
    while isinstance(a, SubSpace):
        masks.append(a.mask)
        a = a.parent
    if isinstance(a, RowAxis):
        parts = []
        for i, d in enumerate(a.doms):
            parts.append(z3.And(d, *[a.seg_term(m, i) for m in masks], a.seg_term(cond, i)))
        return a.root, z3.simplify(z3.Or(*parts) if len(parts) > 1 else parts[0])
    return a, z3.simplify(z3.And(*masks, cond))


def reduce_minmax(interp, v, axis, which):
    """min / max along an axis: a symbol that bounds every entry (generic instances + quantified fact) and is
    attained by some row when the axis is not empty"""
    ax = _axis(v, axis)
    rest = tuple(a for i, a in enumerate(v.axes) if i != ax)
    idx = [root_space(x).u for x in rest if x is not ONE]
    t = num(v.t)
    sort = t.sort()
    if idx:
        f = z3.Function(fresh_name(which), *([z3.IntSort()] * len(idx) + [sort]))
        sym = f(*idx)
    else:
        sym = z3.Const(fresh_name(which), sort)
    space_axis = v.axes[ax]
    from .frames import RowAxis

    base = space_axis
    while isinstance(base, SubSpace):
        base = base.parent
    multi = isinstance(base, RowAxis) and len(base.doms) > 1
    if multi:
        raise Undecided("min/max over a concatenated frame")
    root, dom = _rows_cond(space_axis, z3.BoolVal(True))
    if isinstance(base, RowAxis) and base.sel is not None:
        t = base.seg_term(t, 0)
    bound = (lambda tt: sym <= tt) if which == "min" else (lambda tt: sym >= tt)
    keyed = hasattr(root, "keyvars")
    if keyed:
        kvs = [root.keyvars[k] for k in root.keys]
        wit = [z3.Const(fresh_name(f"argext_{k}"), root.keyvars[k].sort()) for k in root.keys]
        at = lambda term, point: z3.substitute(term, *list(zip(kvs, point)))  # noqa: E731
        inrange = lambda point: z3.BoolVal(True)  # noqa: E731
        w = wit
        generic_points = [kvs, [root.keyvars2[k] for k in root.keys]]
    else:
        w = z3.Int(fresh_name("argext"))
        at = lambda term, point: z3.substitute(term, (root.u, point))  # noqa: E731
        inrange = lambda point: z3.And(point >= 0, point < root.n)  # noqa: E731
        generic_points = [root.u, root.u2]
    nonempty = z3.Bool(fresh_name("nonempty"))
    # non-empty <=> some row is in the domain; the extremum is attained by a row (w) when non-empty
    interp.ctx.assume(z3.Implies(nonempty, z3.And(inrange(w), at(dom, w), sym == at(t, w))))

    def instantiate(ctx, point):
        """the defining facts of the extremum at one row (ghost instantiation instead of a quantifier);
        point: an index term (unit universes) or a list of key terms (group universes)"""
        ins = z3.And(inrange(point), at(dom, point))
        ctx.assume(z3.Implies(ins, z3.And(nonempty, bound(at(t, point)))))

    for gp in generic_points:
        instantiate(interp.ctx, gp)
    infflag = None
    if v.inf is not None and not rest:
        # an infinite entry makes the extremum of |x| infinite
        infflag = reduce_anyall(interp, V(v.inf, v.axes), None, "any").t
    out = V(sym, rest, None, z3.Not(nonempty), infflag)
    out.meta = (which, dict(posinf=(v.meta == "posinf"), v=v, axis=space_axis, witness=w, nonempty=nonempty, instantiate=instantiate, dom=dom, root=root))
    interp.ctx.__dict__.setdefault("_extrema", []).append(out.meta[1])
    return out


def cumsum_sorted(interp, v):
    """Series.cumsum() of a weight column of a frame sorted by one score column (ascending, stable).
    Assumed contract = the prefix-sum lemmas (lean/FrameSums.lean prefix_*), for non-negative weights, with
    Wle(x) := Σ_{rows, score <= x} w :
      (a) cum(r) <= Wle(score(r))                 (prefix_ge: the prefix of r holds only scores <= score(r))
      (b) cum(r) >= w(r), cum non-decreasing in score: score(r) < score(r') => cum(r) + w(r') <= cum(r')
      (c) every score value present has a LAST tied row l with cum(l) = Wle(score)   (prefix_last_tie)
      (d) Wle is non-decreasing and bounded by the total weight, which is attained by the last row.
    Side condition (emitted as an obligation): the weights are non-negative."""
    from .frames import RowAxis

    ax = v.axes[0] if len(v.axes) == 1 else None
    if not isinstance(ax, RowAxis) or len(ax.doms) != 1 or not getattr(ax, "sortkey", None) or len(ax.sortkey) != 1:
        raise Undecided("cumsum of something that is not a column of a frame sorted by one key")
    _use("prefix_le / prefix_ge / prefix_last_tie")
    root, dom = ax.root, ax.doms[0]
    sc, w = ax.sortkey[0], real(v.t)
    ctx = interp.ctx
    ctx.oblige("cumsum.side.weights_non_negative", z3.Implies(z3.And(*root.facts(), dom), w >= 0), kind="lemma-side")
    cum = z3.Function(fresh_name("cum"), z3.IntSort(), z3.RealSort())
    Wle = z3.Function(fresh_name("Wle"), sc.sort(), z3.RealSort())
    last = z3.Function(fresh_name("last_tie"), z3.IntSort(), z3.IntSort())
    total, dtot = formal_sum_dom(ctx, root, dom, w)
    sx = lambda t, i: z3.substitute(t, (root.u, i))  # noqa: E731
    inr = lambda i: z3.And(i >= 0, i < root.n, sx(dom, i))  # noqa: E731
    m = z3.Int(fresh_name("lastrow"))
    seen = []

    def instantiate(c, i):
        """prefix-sum facts at row index i (and pairwise with every index instantiated before)"""
        li = last(i)
        c.assume(z3.Implies(inr(i), z3.And(cum(i) <= Wle(sx(sc, i)), cum(i) >= sx(w, i), cum(i) <= total, Wle(sx(sc, i)) <= total, Wle(sx(sc, i)) >= 0)))
        c.assume(z3.Implies(inr(i), z3.And(inr(li), sx(sc, li) == sx(sc, i), cum(li) == Wle(sx(sc, i)))))
        c.assume(z3.Implies(inr(i), z3.And(inr(m), cum(m) == total)))
        for j in seen:
            for (p, r) in ((i, j), (j, i)):
                c.assume(z3.Implies(z3.And(inr(p), inr(r), sx(sc, p) < sx(sc, r)), cum(p) + sx(w, r) <= cum(r)))
                c.assume(z3.Implies(sx(sc, p) <= sx(sc, r), Wle(sx(sc, p)) <= Wle(sx(sc, r))))
        seen.append(i)

    def wle_at(c, xterm):
        """monotonicity / bounds of Wle at an arbitrary score value"""
        c.assume(z3.And(Wle(xterm) <= total, Wle(xterm) >= 0))
        for j in seen:
            c.assume(z3.Implies(sx(sc, j) <= xterm, Wle(sx(sc, j)) <= Wle(xterm)))
            c.assume(z3.Implies(xterm <= sx(sc, j), Wle(xterm) <= Wle(sx(sc, j))))
            c.assume(z3.Implies(xterm == sx(sc, j), Wle(xterm) == Wle(sx(sc, j))))

    for i0 in (root.u, root.u2, m):
        instantiate(ctx, i0)
    out = V(cum(root.u), v.axes, v.series)
    out.meta = ("cumsum", dict(cum=cum, Wle=Wle, last=last, total=total, score=sc, weight=w, root=root, dom=dom, lastrow=m, instantiate=instantiate, wle_at=wle_at))
    ctx.__dict__.setdefault("_cumsums", []).append(out.meta[1])
    return out


def reduce_opaque(interp, v, axis, what, nonneg=False):
    """a reduction whose value is not modelled beyond being a function of the reduced array"""
    ax = _axis(v, axis)
    rest = tuple(a for i, a in enumerate(v.axes) if i != ax)
    idx = [root_space(x).u for x in rest if x is not ONE]
    if idx:
        f = z3.Function(fresh_name(what), *([z3.IntSort()] * len(idx) + [z3.RealSort()]))
        sym = f(*idx)
    else:
        sym = z3.Real(fresh_name(what))
    if nonneg:
        interp.ctx.assume(sym >= 0)
    return V(sym, rest, None)


def reduce_anyall(interp, v, axis, which):
    """any / all along an axis as a boolean symbol b with its defining facts: a Skolem witness when b is true
    (any) / false (all), and instances "row i satisfies the condition => ..." at the generic rows; further instances
    are added by ghost instantiation (meta['instantiate'](ctx, index))."""
    ax = _axis(v, axis)
    rest = tuple(a for i, a in enumerate(v.axes) if i != ax)
    if rest:
        raise Undecided("any/all along one axis of a 2-D array")
    cond = v.t if which == "any" else z3.Not(v.t)
    root, body_u = _rows_cond(v.axes[ax], cond)
    b = z3.Bool(fresh_name(which))
    w = z3.Int(fresh_name("w"))
    keyed = hasattr(root, "keyvars")
    inr = (lambda i: z3.BoolVal(True)) if keyed else (lambda i: z3.And(i >= 0, i < root.n))
    body = lambda i: z3.substitute(body_u, (root.u, i))  # noqa: E731
    hit = b if which == "any" else z3.Not(b)
    interp.ctx.assume(z3.Implies(hit, z3.And(inr(w), body(w))))

    def instantiate(ctx, i):
        ctx.assume(z3.Implies(z3.And(inr(i), body(i)), hit))

    instantiate(interp.ctx, root.u)
    instantiate(interp.ctx, root.u2)
    if not keyed:
        for r in getattr(interp, "ghost_rows", []):  # rows the harness declared worth instantiating at
            instantiate(interp.ctx, r)
    out = V(b)
    out.meta = (which, dict(which=which, instantiate=instantiate, witness=w, root=root, b=b, body=body, hit=hit))
    interp.ctx.__dict__.setdefault("_anyall", []).append(out.meta[1])
    return out


# ---- lemma applications (ghost code in contracts) ---------------------------------------------------


def _pointwise(ctx, name, d, prop):
    """side condition: for the generic row of d.space inside d.dom, prop holds"""
    ctx.oblige(name, z3.Implies(z3.And(*(d.space.facts() + [d.dom])), prop), kind="lemma-side")


def lemma_sum_mono(ctx, lo, hi, name="sum_mono"):
    """Σ_A f <= Σ_A g  if f <= g pointwise on A (same space, same domain)."""
    _use("sum_mono")
    if lo.space is not hi.space or not z3.eq(lo.dom, hi.dom):
        raise Undecided("sum_mono over different domains")
    _pointwise(ctx, name + "/side.pointwise", lo, lo.summand <= hi.summand)
    ctx.assume(lo.sym <= hi.sym)


def lemma_sum_mono_dom(ctx, small, big, name="sum_mono_dom", guard=None):
    """Σ_A f <= Σ_B f  when A is contained in B and f >= 0 on B (the same summand on A); `guard`: a condition on the
    parameters only, under which the inclusion holds and the conclusion is used"""
    _use("sum_mono_dom")
    if small.space is not big.space:
        raise Undecided("sum_mono_dom over different spaces")
    g = guard if guard is not None else z3.BoolVal(True)
    if _mentions(g, small.space.u):
        raise Undecided("sum_mono_dom: the guard mentions the summation index")
    f = z3.And(*small.space.facts())
    ctx.oblige(name + "/side.inclusion", z3.Implies(z3.And(g, f, small.dom), z3.And(big.dom, small.summand == big.summand)), kind="lemma-side")
    ctx.oblige(name + "/side.nonneg", z3.Implies(z3.And(g, f, big.dom), big.summand >= 0), kind="lemma-side")
    ctx.assume(z3.Implies(g, small.sym <= big.sym))


def lemma_sum_bound(ctx, d, n_term, lo=None, hi=None, name="sum_bound"):
    """n*lo <= Σ_A f <= n*hi when lo <= f <= hi pointwise and |A| = n (lo, hi constant along the axis)."""
    _use("sum_mono (against a constant)")
    if lo is not None:
        _pointwise(ctx, name + "/side.lower", d, d.summand >= lo)
        ctx.assume(d.sym >= real(n_term) * lo)
    if hi is not None:
        _pointwise(ctx, name + "/side.upper", d, d.summand <= hi)
        ctx.assume(d.sym <= real(n_term) * hi)


def lemma_sum_ge_member(ctx, d, row, subs=(), name="sum_ge_member"):
    """Σ_A f >= f(r) for a row r of A when f >= 0 on A (Finset.single_le_sum); `subs` instantiates group parameters"""
    _use("sum_ge_member (Finset.single_le_sum: non-negative summands)")
    _pointwise(ctx, name + "/side.nonneg", d, d.summand >= 0)
    sp = d.space
    sym = z3.substitute(d.sym, *subs) if subs else d.sym
    at = lambda t: z3.substitute(t, (sp.u, row), *subs)  # noqa: E731
    ctx.assume(z3.Implies(z3.And(row >= 0, row < sp.n, at(d.dom)), sym >= at(d.summand)))


def lemma_sum_nonneg(ctx, d, name="sum_nonneg"):
    _use("sum_mono (against 0)")
    _pointwise(ctx, name + "/side.pointwise", d, d.summand >= 0)
    ctx.assume(d.sym >= 0)


def lemma_sum_int(ctx, d, name="sum_int"):
    _use("sum_int")
    s = d.summand
    if not z3.is_int(s):
        _pointwise(ctx, name + "/side.pointwise", d, z3.IsInt(s))
        ctx.assume(z3.IsInt(d.sym))


def lemma_sum_empty(ctx, d, name="sum_empty"):
    """Σ over an empty domain is 0 (side: no row of the space is in the domain)."""
    _use("sum_empty")
    ctx.oblige(name + "/side.empty", z3.Implies(z3.And(*d.space.facts()), z3.Not(d.dom)), kind="lemma-side")
    ctx.assume(d.sym == 0)


def sum_nonzero_witness(ctx, d, subs=()):
    """contrapositive of "a sum of zeros is zero" with a Skolem witness: a sum that is not 0 has a row in its domain
    whose summand is not 0 (Finset.exists_ne_zero_of_sum_ne_zero).  `subs` instantiates the sum's parameters (group
    keys).  Returns the witness row (an Int constant)."""
    _use("sum_empty (contrapositive: a non-zero sum has a row in its domain with a non-zero summand)")
    sp = d.space
    w = z3.Int(fresh_name("sumwit"))
    sym = z3.substitute(d.sym, *subs) if subs else d.sym
    dom = z3.substitute(d.dom, (sp.u, w), *subs)
    nz = z3.substitute(d.summand, (sp.u, w), *subs) != 0
    ctx.assume(z3.Implies(sym != 0, z3.And(w >= 0, w < sp.n, dom, nz)))
    return w


def lemma_sum_split(ctx, whole, a, b, name="sum_split"):
    """Σ_{A∨B} f = Σ_A f + Σ_B f for disjoint A, B (same summand on both parts)"""
    _use("sum_split")
    if not (whole.space is a.space is b.space):
        raise Undecided("sum_split over different spaces")
    f = z3.And(*whole.space.facts())
    ctx.oblige(name + "/side.domains", z3.Implies(f, z3.And(whole.dom == z3.Or(a.dom, b.dom), z3.Not(z3.And(a.dom, b.dom)))), kind="lemma-side")
    ctx.oblige(name + "/side.summands", z3.Implies(f, z3.And(z3.Implies(a.dom, whole.summand == a.summand), z3.Implies(b.dom, whole.summand == b.summand))), kind="lemma-side")
    ctx.assume(whole.sym == a.sym + b.sym)


def lemma_sum_singleton(ctx, d, point, name="sum_singleton"):
    """a sum whose domain holds at most the one row `point`: Σ = f(point) if the row is in the domain, else 0"""
    _use("sum_split (singleton)")
    sp = d.space
    ctx.oblige(name + "/side.at_most_one_row", z3.Implies(z3.And(*sp.facts(), d.dom), sp.u == point), kind="lemma-side")
    at = lambda t: z3.substitute(t, (sp.u, point))  # noqa: E731
    ctx.assume(d.sym == z3.If(at(d.dom), at(d.summand), 0 * at(d.summand)))


def lemma_sum_congr(ctx, a, b, name="sum_congr", guard=None, points=()):
    """Σ_A f = Σ_B g when A<->B and f=g on A pointwise.  With `guard` (a condition on the group parameters only): for
    every parameter tuple satisfying the guard; `points` are further parameter tuples (lists of (const, term) pairs)
    at which the conclusion is instantiated."""
    _use("sum_congr_dom")
    if a.space is not b.space:
        raise Undecided("sum_congr over different spaces")
    g = guard if guard is not None else z3.BoolVal(True)
    if _mentions(g, a.space.u):
        raise Undecided("sum_congr guard mentions the summation index")
    ctx.oblige(
        name + "/side.pointwise",
        z3.Implies(z3.And(g, *a.space.facts()), z3.And(a.dom == b.dom, z3.Implies(a.dom, a.summand == b.summand))),
        kind="lemma-side",
    )
    concl = z3.Implies(g, a.sym == b.sym)
    ctx.assume(concl)
    for subs in points:
        ctx.assume(z3.substitute(concl, *subs))
