"""Reductions along an axis as formal (uninterpreted) symbols related only through lemma instances.

Each lemma corresponds to a statement proved in /verif/lean/FrameSums.lean (table in DESIGN 2.5);
applying a lemma emits its side conditions as *obligations* and only then adds the conclusion to the
path condition.
"""
import z3

from .values import ONE, Space, SubSpace, Undecided, V, fresh_name, num, real, root_space

LEMMAS_USED = []


def _use(n):
    if n not in LEMMAS_USED:
        LEMMAS_USED.append(n)


class SumDef:
    def __init__(self, sym, space, dom, summand, rest_idx):
        self.sym = sym  # z3 term: the value of the sum (function application over rest indices)
        self.space = space  # root Space reduced over
        self.dom = dom  # z3 Bool over space.u (rows included)
        self.summand = summand  # z3 term over space.u (+ rest indices)
        self.rest_idx = rest_idx


def _registry(ctx):
    return ctx.__dict__.setdefault("_sums", [])


def _axis(v, axis):
    nd = len(v.axes)
    if axis is None:
        real_axes = [i for i, a in enumerate(v.axes) if a is not ONE]
        if len(real_axes) != 1:
            raise Undecided("reduction over all axes of a multi-dimensional array")
        return real_axes[0]
    if axis < 0:
        axis += nd
    return axis


def formal_sum(ctx, space_axis, summand, rest_axes=()):
    """Σ over the rows of `space_axis` (Space or SubSpace) of `summand`; returns (term, SumDef)."""
    root = root_space(space_axis)
    dom = z3.BoolVal(True)
    a = space_axis
    while isinstance(a, SubSpace):
        dom = z3.And(a.mask, dom)
        a = a.parent
    dom = z3.simplify(dom)
    summand = num(summand)
    reg = _registry(ctx)
    for d in reg:
        if d.space is root and z3.eq(d.dom, dom) and z3.eq(z3.simplify(d.summand), z3.simplify(summand)):
            return d.sym, d
    idx = [root_space(x).u for x in rest_axes if x is not ONE]
    sort = z3.IntSort() if z3.is_int(summand) else z3.RealSort()
    if idx:
        f = z3.Function(fresh_name(f"sum_{root.name}"), *([z3.IntSort()] * len(idx) + [sort]))
        sym = f(*idx)
    else:
        sym = z3.Const(fresh_name(f"sum_{root.name}"), sort)
    d = SumDef(sym, root, dom, summand, idx)
    reg.append(d)
    return sym, d


def _params(terms, exclude):
    """generic-index / group-key constants occurring in the terms (the sum symbol is a function of them)"""
    seen = {}
    stack = list(terms)
    visited = set()
    while stack:
        t = stack.pop()
        if t.get_id() in visited:
            continue
        visited.add(t.get_id())
        if z3.is_const(t) and t.decl().kind() == z3.Z3_OP_UNINTERPRETED:
            n = t.decl().name()
            if (n.startswith("gk_") or n.startswith("u_") or n.startswith("gk2_") or n.startswith("u2_") or n.startswith("seg!")) and not any(z3.eq(t, e) for e in exclude):
                seen[n] = t
        elif z3.is_app(t):
            stack.extend(t.children())
        elif z3.is_quantifier(t):
            stack.append(t.body())
    return [seen[k] for k in sorted(seen)]


def formal_sum_dom(ctx, root, dom, summand):
    """Σ_{u in root, dom(u)} summand(u) where dom/summand may mention group-key constants / other generic
    indices: the symbol is an uninterpreted function of those parameters."""
    dom = z3.simplify(dom)
    summand = z3.simplify(num(summand))
    reg = _registry(ctx)
    for d in reg:
        if d.space is root and z3.eq(d.dom, dom) and z3.eq(d.summand, summand):
            return d.sym, d
    if (z3.is_int_value(summand) or z3.is_rational_value(summand)) and z3.is_true(z3.simplify(summand == 0)):
        # a sum of zeros is zero (sum_linear with coefficient 0)
        zero = z3.IntVal(0) if z3.is_int(summand) else z3.RealVal(0)
        return zero, SumDef(zero, root, dom, summand, [])
    # sum_congr_dom: universally equivalent domain and summand => the same sum (checked without assumptions)
    for d in reg:
        if d.space is not root or d.summand.sort() != summand.sort():
            continue
        s_ = z3.Solver()
        s_.set("timeout", 800)
        s_.add(z3.Or(dom != d.dom, z3.And(dom, summand != d.summand)))
        if s_.check() == z3.unsat:
            nd = SumDef(d.sym, root, dom, summand, d.rest_idx)
            reg.append(nd)
            return d.sym, nd
    ps = _params([dom, summand], [root.u])
    sort = z3.IntSort() if z3.is_int(summand) else z3.RealSort()
    if z3.is_false(dom):
        sym = z3.IntVal(0) if z3.is_int(summand) else z3.RealVal(0)
    elif ps:
        f = z3.Function(fresh_name(f"sum_{root.name}"), *([p.sort() for p in ps] + [sort]))
        sym = f(*ps)
    else:
        sym = z3.Const(fresh_name(f"sum_{root.name}"), sort)
    d = SumDef(sym, root, dom, summand, ps)
    reg.append(d)
    return sym, d


def axis_sum(ctx, axis, term):
    """Σ over the rows of a frames.RowAxis / SubSpace / Space of `term` (a z3 term over the generic row)"""
    from .frames import RowAxis

    masks = []
    a = axis
    while isinstance(a, SubSpace):
        masks.append(a.mask)
        a = a.parent
    if isinstance(a, RowAxis):
        total = None
        defs = []
        for i, dd in enumerate(a.doms):
            dom = z3.And(dd, *[a.seg_term(m, i) for m in masks]) if masks else dd
            sym, d = formal_sum_dom(ctx, a.root, dom, a.seg_term(num(term), i))
            defs.append(d)
            total = sym if total is None else total + sym
        return total, defs
    dom = z3.And(*masks) if masks else z3.BoolVal(True)
    sym, d = formal_sum_dom(ctx, a, dom, term)
    return sym, [d]


def reduce_sum(interp, v, axis):
    from .frames import RowAxis

    ax0 = _axis(v, axis)
    a = v.axes[ax0]
    b = a
    while isinstance(b, SubSpace):
        b = b.parent
    if isinstance(b, RowAxis):
        rest = tuple(x for i, x in enumerate(v.axes) if i != ax0)
        t = v.t
        if v.nan is not None:
            t = z3.If(v.nan, 0 * num(t), num(t))  # pandas Series.sum skips NaN
        sym, defs = axis_sum(interp.ctx, a, t)
        out = V(sym, rest, None, None if v.series is not None else v.nan, v.inf)
        out.meta = ("sum", defs[0] if len(defs) == 1 else defs)
        return out
    return _reduce_sum_plain(interp, v, axis)


def _reduce_sum_plain(interp, v, axis):
    ax = _axis(v, axis)
    rest = tuple(a for i, a in enumerate(v.axes) if i != ax)
    sym, d = formal_sum(interp.ctx, v.axes[ax], v.t, rest)
    out = V(sym, rest, None, v.nan, v.inf)
    out.meta = ("sum", d)
    return out


def reduce_mean(interp, v, axis):
    ax = _axis(v, axis)
    s = reduce_sum(interp, v, axis)
    n = v.axes[ax].n
    r = s / V(n if z3.is_expr(n) else z3.IntVal(n))
    r.meta = ("mean", s.meta[1], v.axes[ax])
    return r


def _rows_cond(axis, cond):
    """(root, term over root.u): 'u is a row of `axis` (in some segment) and `cond` holds there'"""
    from .frames import RowAxis

    masks = []
    a = axis
    while isinstance(a, SubSpace):
        masks.append(a.mask)
        a = a.parent
    if isinstance(a, RowAxis):
        parts = []
        for i, d in enumerate(a.doms):
            parts.append(z3.And(d, *[a.seg_term(m, i) for m in masks], a.seg_term(cond, i)))
        return a.root, z3.simplify(z3.Or(*parts) if len(parts) > 1 else parts[0])
    return a, z3.simplify(z3.And(*masks, cond))


def reduce_minmax(interp, v, axis, which):
    ax = _axis(v, axis)
    rest = tuple(a for i, a in enumerate(v.axes) if i != ax)
    idx = [root_space(x).u for x in rest if x is not ONE]
    t = num(v.t)
    sort = t.sort()
    if idx:
        f = z3.Function(fresh_name(which), *([z3.IntSort()] * len(idx) + [sort]))
        sym = f(*idx)
    else:
        sym = z3.Const(fresh_name(which), sort)
    # the extremum bounds the generic entry (instance of the defining property); attained by some entry
    space_axis = v.axes[ax]
    dom = z3.BoolVal(True)
    a = space_axis
    while isinstance(a, SubSpace):
        dom = z3.And(a.mask, dom)
        a = a.parent
    root = a
    for u in (root.u, root.u2):
        tu = z3.substitute(t, (root.u, u))
        du = z3.substitute(dom, (root.u, u))
        interp.ctx.assume(z3.Implies(du, sym <= tu if which == "min" else sym >= tu))
    w = z3.Int(fresh_name("argext"))
    n = space_axis.n if z3.is_expr(space_axis.n) else z3.IntVal(space_axis.n)
    interp.ctx.assume(
        z3.Implies(n > 0, z3.And(w >= 0, w < root.n, z3.substitute(dom, (root.u, w)), sym == z3.substitute(t, (root.u, w))))
    )
    out = V(sym, rest, None, v.nan, v.inf)
    out.meta = (which, v, space_axis, w)
    return out


def reduce_opaque(interp, v, axis, what, nonneg=False):
    """a reduction whose value is not modelled beyond being a function of the reduced array"""
    ax = _axis(v, axis)
    rest = tuple(a for i, a in enumerate(v.axes) if i != ax)
    idx = [root_space(x).u for x in rest if x is not ONE]
    if idx:
        f = z3.Function(fresh_name(what), *([z3.IntSort()] * len(idx) + [z3.RealSort()]))
        sym = f(*idx)
    else:
        sym = z3.Real(fresh_name(what))
    if nonneg:
        interp.ctx.assume(sym >= 0)
    return V(sym, rest, None)


def reduce_anyall(interp, v, axis, which):
    ax = _axis(v, axis)
    rest = tuple(a for i, a in enumerate(v.axes) if i != ax)
    if rest:
        raise Undecided("any/all along one axis of a 2-D array")
    cond = v.t if which == "any" else z3.Not(v.t)
    root, body_u = _rows_cond(v.axes[ax], cond)
    b = z3.Bool(fresh_name(which))
    x = z3.Int(fresh_name("i"))
    body = z3.substitute(body_u, (root.u, x))
    rng = z3.And(x >= 0, x < root.n) if not hasattr(root, "keyvars") else z3.BoolVal(True)
    w = z3.Int(fresh_name("w"))
    wfact = z3.And(w >= 0, w < root.n, z3.substitute(body, (x, w))) if not hasattr(root, "keyvars") else z3.substitute(body, (x, w))
    if which == "any":
        interp.ctx.assume(z3.Implies(b, wfact))
        interp.ctx.assume(z3.ForAll([x], z3.Implies(z3.And(rng, body), b)))
    else:
        interp.ctx.assume(z3.Implies(z3.Not(b), wfact))
        interp.ctx.assume(z3.ForAll([x], z3.Implies(z3.And(rng, body), z3.Not(b))))
    # generic-row instances
    interp.ctx.assume(z3.Implies(z3.And(*root.facts(), body_u), b if which == "any" else z3.Not(b)))
    return V(b)


# ---- lemma applications (ghost code in contracts) ---------------------------------------------------


def _pointwise(ctx, name, d, prop):
    """side condition: for the generic row of d.space inside d.dom, prop holds"""
    ctx.oblige(name, z3.Implies(z3.And(*(d.space.facts() + [d.dom])), prop), kind="lemma-side")


def lemma_sum_mono(ctx, lo, hi, name="sum_mono"):
    """Σ_A f <= Σ_A g  if f <= g pointwise on A (same space, same domain)."""
    _use("sum_mono")
    if lo.space is not hi.space or not z3.eq(lo.dom, hi.dom):
        raise Undecided("sum_mono over different domains")
    _pointwise(ctx, name + "/side.pointwise", lo, lo.summand <= hi.summand)
    ctx.assume(lo.sym <= hi.sym)


def lemma_sum_bound(ctx, d, n_term, lo=None, hi=None, name="sum_bound"):
    """n*lo <= Σ_A f <= n*hi when lo <= f <= hi pointwise and |A| = n (lo, hi constant along the axis)."""
    _use("sum_mono (against a constant)")
    if lo is not None:
        _pointwise(ctx, name + "/side.lower", d, d.summand >= lo)
        ctx.assume(d.sym >= real(n_term) * lo)
    if hi is not None:
        _pointwise(ctx, name + "/side.upper", d, d.summand <= hi)
        ctx.assume(d.sym <= real(n_term) * hi)


def lemma_sum_nonneg(ctx, d, name="sum_nonneg"):
    _use("sum_mono (against 0)")
    _pointwise(ctx, name + "/side.pointwise", d, d.summand >= 0)
    ctx.assume(d.sym >= 0)


def lemma_sum_int(ctx, d, name="sum_int"):
    _use("sum_int")
    s = d.summand
    if not z3.is_int(s):
        _pointwise(ctx, name + "/side.pointwise", d, z3.IsInt(s))
        ctx.assume(z3.IsInt(d.sym))


def lemma_sum_empty(ctx, d, name="sum_empty"):
    """Σ over an empty domain is 0 (side: no row of the space is in the domain)."""
    _use("sum_empty")
    ctx.oblige(name + "/side.empty", z3.Implies(z3.And(*d.space.facts()), z3.Not(d.dom)), kind="lemma-side")
    ctx.assume(d.sym == 0)


def lemma_sum_congr(ctx, a, b, name="sum_congr"):
    """Σ_A f = Σ_B g when A<->B and f=g on A pointwise."""
    _use("sum_congr_dom")
    if a.space is not b.space:
        raise Undecided("sum_congr over different spaces")
    ctx.oblige(
        name + "/side.pointwise",
        z3.Implies(z3.And(*a.space.facts()), z3.And(a.dom == b.dom, z3.Implies(a.dom, a.summand == b.summand))),
        kind="lemma-side",
    )
    ctx.assume(a.sym == b.sym)
