"""KFrame / GFrame: the pandas subset used by the functions under contract (DESIGN 2.3, Appendix A).

A frame is a predicate over a *key universe* plus columns that are terms over the generic key:
  * unit frames live over the universe of unit ids (root Space "units"): a frame is `dom(u)` + columns;
    every base table is key-unique (input-validity V1), so a row is identified by its id;
  * group frames (results of groupby) live over the universe of key tuples (KeySpace): the generic group is
    a tuple of key constants shared by all groupbys on the same key list, value columns are formal sums.
Concatenation keeps *segments* (a selector variable distinguishes them) so that multiplicities are exact.
Every method below is one assumed pandas contract; anything not listed is Undecided.
"""
import z3

from . import sums
from .values import only_kw, ONE, ExcVal, Space, SubSpace, SymRaise, Undecided, V, _b, _or, fresh_name, ite, num, real, to_term

TRUSTED = []


def _use(s):
    if s not in TRUSTED:
        TRUSTED.append(s)


# ---- universes -------------------------------------------------------------------------------------

_KEYSPACES = {}


class KeySpace(Space):
    """universe of key tuples for groupby on `keys`; the generic group is the tuple of constants keyvars."""

    def __init__(self, keys, sorts=None):
        name = "grp_" + "_".join(keys)
        super().__init__(name)
        self.keys = tuple(keys)
        self.keyvars = {k: z3.Const(f"gk_{k}", (sorts or {}).get(k, z3.StringSort())) for k in keys}
        self.keyvars2 = {k: z3.Const(f"gk2_{k}", (sorts or {}).get(k, z3.StringSort())) for k in keys}

    def facts(self):
        return []


def keyspace(keys, sorts=None):
    k = tuple(keys)
    if k not in _KEYSPACES:
        _KEYSPACES[k] = KeySpace(k, sorts)
    return _KEYSPACES[k]


_COUNTS = {}


def count_of(root, dom):
    """|{u in root : dom(u)}| as a definitional Int symbol (same domain => same symbol)."""
    dom = z3.simplify(dom)
    if z3.is_false(dom):
        return z3.IntVal(0)
    if isinstance(root, KeySpace) and not root.keys:
        return z3.If(dom, z3.IntVal(1), z3.IntVal(0))  # the universe of the empty key tuple has one element
    if z3.is_true(dom) and not isinstance(root, KeySpace) and z3.is_expr(root.n):
        return root.n  # every row of the universe
    from .values import tid

    key = (root.name, tid(dom))
    if key not in _COUNTS:
        # count congruence: a domain that is (propositionally / theory-) equivalent to a known one shares its symbol
        for (rn, _), (c, d2) in list(_COUNTS.items()):
            if rn != root.name:
                continue
            s = z3.Solver()
            s.set("timeout", 1000)
            s.add(dom != d2)
            if s.check() == z3.unsat:
                _COUNTS[key] = (c, dom)
                return c
        _COUNTS[key] = (z3.Int(fresh_name(f"cnt_{root.name}")), dom)
    return _COUNTS[key][0]


def count_witness(ctx, root, dom, rows=()):
    """ghost: |{u : dom(u)}| != 0 => a witness row; a row in dom (the generic rows and `rows`) => the count is >= 1"""
    _use("count_witness (a non-empty finite set has an element; a set with an element has cardinality >= 1)")
    c = count_of(root, dom)
    reg = ctx.__dict__.setdefault("_count_wit", {})
    from .values import tid

    key = (root.name, tid(z3.simplify(dom)))
    if key not in reg:
        w = z3.Int(fresh_name("cntwit"))
        ctx.assume(z3.Implies(c != 0, z3.And(w >= 0, w < root.n, z3.substitute(dom, (root.u, w)))))
        reg[key] = w
    w = reg[key]
    for g in (root.u, root.u2) + tuple(rows):
        ctx.assume(z3.Implies(z3.And(g >= 0, g < root.n, z3.substitute(dom, (root.u, g))), c >= 1))
    return w


def lemma_count_mono(ctx, root, small, big, name="count_mono"):
    """|A| <= |B| for A a subset of B (side condition: A(u) => B(u) for the generic row)"""
    _use("count_mono (Finset.card_le_card)")
    ctx.oblige(name + "/side.subset", z3.Implies(z3.And(*root.facts(), small), big), kind="lemma-side")
    ctx.assume(count_of(root, small) <= count_of(root, big))


def count_facts():
    out = []
    for (rn, _), (c, dom) in _COUNTS.items():
        out.append(c >= 0)
    return out


class RowAxis:
    """rows of a frame: segments (root universe, dom_i), in order; `sel` tells the segment of the generic row."""

    def __init__(self, root, doms, order, sel=None, name=None):
        self.root = root
        self.doms = [z3.simplify(d) for d in doms]
        self.order = order
        self.u = root.u
        self.u2 = root.u2
        self.name = name or fresh_name(f"rows_{root.name}")
        if len(self.doms) > 1:
            self.sel = sel if sel is not None else z3.Int(fresh_name("seg"))
        else:
            self.sel = None
        n = z3.IntVal(0)
        for d in self.doms:
            n = n + count_of(root, d)
        self.n = z3.simplify(n)

    def member(self):
        """the generic (u, sel) is a row of the frame"""
        if self.sel is None:
            return self.doms[0]
        return z3.Or(*[z3.And(self.sel == i, d) for i, d in enumerate(self.doms)])

    def present(self):
        """key u occurs in some segment"""
        return z3.Or(*self.doms) if len(self.doms) > 1 else self.doms[0]

    def multiplicity(self):
        m = z3.IntVal(0)
        for d in self.doms:
            m = m + z3.If(d, 1, 0)
        return m

    def facts(self):
        f = list(self.root.facts()) + [self.member()]
        if self.sel is not None:
            f += [self.sel >= 0, self.sel < len(self.doms)]
        f += [self.n >= 0]
        return f

    def seg_term(self, t, i):
        if self.sel is None:
            return t
        return z3.simplify(z3.substitute(t, (self.sel, z3.IntVal(i))))

    def __repr__(self):
        return f"RowAxis({self.name},{len(self.doms)} seg,{self.order})"


def same_rows(a, b):
    if a is b:
        return True
    if not (isinstance(a, RowAxis) and isinstance(b, RowAxis)):
        return False
    if a.root is not b.root or len(a.doms) != len(b.doms) or a.order != b.order:
        return False
    return all(z3.eq(x, y) for x, y in zip(a.doms, b.doms))


def provably_same_rows(a, b):
    """same universe, same order, and the membership predicates are equivalent under the current path
    condition (a discharged positional-alignment side condition)"""
    from . import values

    if not (isinstance(a, RowAxis) and isinstance(b, RowAxis)):
        return False
    if a.root is not b.root or len(a.doms) != len(b.doms) or a.order != b.order:
        return False
    prov = values.PC_PROVIDER[0]
    if prov is None:
        return False
    s = z3.Solver()
    s.set("timeout", 3000)
    for f in prov():
        s.add(f)
    for f in count_facts():
        s.add(f)
    s.add(z3.Or(*[x != y for x, y in zip(a.doms, b.doms)]))
    return s.check() == z3.unsat


# ---- frame ---------------------------------------------------------------------------------------


class Poison:
    """a column whose value is not modelled (e.g. groupby().sum() of a non-numeric column)"""

    def __init__(self, why):
        self.why = why


class FrameCols(dict):
    """the columns of a frame (a dict subclass so that the interpreter can tell 'held by a DataFrame' from 'held by a
    variable / attribute / container of the program' -- pandas 3 is copy-on-write: a Series taken out of a frame never writes
    through to it)"""


class Frame:
    def __init__(self, axis, cols=None, index=None, idkey=None):
        self.axis = axis
        self.cols = FrameCols(cols or {})
        self.index = index if index is not None else ("range", axis.name)
        self.idkey = idkey  # name of the column that identifies rows of the root universe (or None)

    # ---- helpers ---------------------------------------------------------------------------------
    def col(self, name):
        if name not in self.cols:
            raise SymRaise(ExcVal("KeyError", (name,), ("LookupError",)))
        c = self.cols[name]
        if isinstance(c, Poison):
            raise Undecided(f"column {name!r} is not modelled: {c.why}")
        if c.meta is None:
            c.meta = ("col", name)
        return c

    def _tag(self, v):
        return V(v.t, (self.axis,), self.index, v.nan, v.inf, v.meta)

    def _new(self, axis=None, cols=None, index=None):
        axis = axis or self.axis
        f = self.__class__(axis, {}, index if index is not None else self.index, self.idkey)
        if getattr(self, "_ncols", None) is not None:
            f._ncols = self._ncols
        if getattr(self, "_dedup", None):
            f._dedup = list(self._dedup)
        for k, c in (cols if cols is not None else self.cols).items():
            f.cols[k] = c if isinstance(c, Poison) else V(c.t, (axis,), f.index, c.nan, c.inf, c.meta)
        return f

    def filter(self, mask, keep_index=True):
        if not (isinstance(mask, V) and len(mask.axes) == 1 and same_rows(mask.axes[0], self.axis) and mask.is_bool):
            if isinstance(mask, V) and len(mask.axes) == 1 and mask.is_bool:
                raise Undecided("boolean mask built from other rows than the frame it filters")
            raise Undecided(f"frame filter with {type(mask).__name__}")
        _use("DataFrame[bool mask]: stable row filter")
        ax = self.axis
        m = mask.t
        if mask.nan is not None:
            m = z3.And(m, z3.Not(mask.nan))
        doms = [z3.And(d, ax.seg_term(m, i)) for i, d in enumerate(ax.doms)]
        new = RowAxis(ax.root, doms, ax.order, sel=ax.sel)
        out = self._new(new, index=("labels", self.index))
        # the labels of the kept rows: positions in the unfiltered frame when that frame had a fresh RangeIndex
        prev = getattr(self, "_sel_from", None)
        if prev is not None:
            out._sel_from = (prev[0], z3.And(prev[1], m))
        elif self.index[0] == "range":
            out._sel_from = (ax, m)
        return out

    def flatten(self, interp):
        """a concatenated frame whose segments are pairwise key-disjoint (proved under the path condition) as ONE
        key-unique segment (row order is lost: only used where the result is re-keyed, e.g. merges)"""
        ax = self.axis
        if len(ax.doms) == 1:
            return self
        for i in range(len(ax.doms)):
            for j in range(i + 1, len(ax.doms)):
                disjoint = z3.Not(z3.And(ax.doms[i], ax.doms[j]))
                if not _provably(interp, disjoint):
                    # not provable within the small budget: a proper obligation (assert, then assume) -- a key that
                    # occurs in two parts would be joined twice
                    interp.ctx.oblige(f"key_unique.parts_{i}_{j}", disjoint, kind="alignment", why="a concatenated frame used as the key-unique side of a merge: its parts must not share a key (a shared key is joined twice)")
                    interp.ctx.assume(disjoint)
        new = RowAxis(ax.root, [z3.Or(*ax.doms)], ("flattened", ax.order))
        f = self.__class__(new, {}, ("flattened", self.index), self.idkey)
        if getattr(self, "_dedup", None):
            f._dedup = list(self._dedup)
        for k, c in self.cols.items():
            if isinstance(c, Poison):
                f.cols[k] = c
                continue
            t = ax.seg_term(c.t, len(ax.doms) - 1)
            nan = ax.seg_term(c.nan, len(ax.doms) - 1) if c.nan is not None else None
            for i in range(len(ax.doms) - 2, -1, -1):
                t = z3.If(ax.doms[i], ax.seg_term(c.t, i), t)
                if c.nan is not None:
                    nan = z3.If(ax.doms[i], ax.seg_term(c.nan, i), nan)
            f.cols[k] = V(z3.simplify(t), (new,), f.index, nan, None)
        return f

    def length(self):
        from .theory_np import SeqLen

        return SeqLen(self.axis)

    # ---- python protocol used by the interpreter ---------------------------------------------------
    def pyvc_len(self, interp):
        return self.length()

    def pyvc_getitem(self, interp, key):
        if isinstance(key, str):
            return self.col(key)
        if isinstance(key, list):
            _use("DataFrame[list of names]: column selection (KeyError on a missing name)")
            for k in key:
                if k not in self.cols:
                    raise SymRaise(ExcVal("KeyError", (k,), ("LookupError",)))
            return self._new(cols={k: self.cols[k] for k in key})
        if isinstance(key, V):
            return self.filter(key)
        if isinstance(key, slice):
            return self.slice_rows(interp, key)
        raise Undecided(f"DataFrame[{type(key).__name__}]")

    def pyvc_binop(self, interp, opname, o, rev):
        if not self.cols and isinstance(o, (EmptySeries, Frame)) and (isinstance(o, EmptySeries) or not o.cols):
            return self._new()
        from . import colwise

        return colwise.frame_binop(self, interp, opname, o, rev)

    def pyvc_setitem(self, interp, key, val):
        if isinstance(key, list) and not key and isinstance(val, Frame) and not val.cols:
            return  # df[[]] = <frame without columns>: nothing changes
        if isinstance(key, list) and isinstance(val, Frame) and list(val.cols) == list(key) and (same_rows(val.axis, self.axis) or provably_same_rows(val.axis, self.axis)):
            _use("DataFrame[list of names] = frame with the same rows and names: the columns are replaced")
            for k in key:
                c = val.cols[k]
                self.cols[k] = c if isinstance(c, Poison) else V(c.t, (self.axis,), self.index, c.nan, c.inf, c.meta)
            return
        if not isinstance(key, str):
            raise Undecided("DataFrame[non-string] = ...")
        self.cols[key] = self.coerce_column(interp, val, key)

    def coerce_column(self, interp, val, name="?"):
        """value assigned as a column: scalar, aligned Series, or positional array"""
        if isinstance(val, Poison):
            return val
        if callable(val) and not isinstance(val, V):
            val = val(self)
        if not isinstance(val, V):
            if hasattr(val, "as_v"):
                val = val.as_v()
            elif val is None:
                _use("DataFrame[c] = None: a column of nulls")
                return V(z3.RealVal(0), (self.axis,), self.index, z3.BoolVal(True))
            else:
                _use("DataFrame[c] = scalar: constant column")
                return V(to_term(val), (self.axis,), self.index)
        if not val.axes:
            return V(val.t, (self.axis,), self.index, val.nan, val.inf)
        axes = [a for a in val.axes if a is not ONE]
        if len(axes) != 1:
            raise Undecided(f"assigning a {len(axes)}-D array to column {name!r}")
        ax = axes[0]
        if same_rows(ax, self.axis):
            if val.series is not None and val.series != self.index and not (val.series[0] == "range" and self.index[0] == "range"):
                raise Undecided(f"column {name!r}: Series with index {val.series} assigned into frame with index {self.index} (label alignment)")
            _use("DataFrame[c] = array/Series over the same rows: positional / same-index assignment")
            return V(val.t, (self.axis,), self.index, val.nan, val.inf, val.meta)
        # different row axis: positional alignment obligation
        if isinstance(ax, RowAxis) and ax.root is self.axis.root and len(ax.doms) == 1 and len(self.axis.doms) == 1 and ax.order == self.axis.order:
            positional = val.series is None or (val.series[0] == "range" and self.index[0] == "range")
            if positional:
                interp.ctx.oblige(
                    f"align.{name}",
                    z3.And(*[z3.Implies(z3.And(*self.axis.root.facts()), ax.doms[0] == self.axis.doms[0])]),
                    kind="alignment",
                    why=f"column {name!r}: the assigned values and the frame must have the same rows in the same order",
                )
                return V(val.t, (self.axis,), self.index, val.nan, val.inf, val.meta)
        raise Undecided(f"column {name!r} assigned from an array over different rows ({ax} vs {self.axis})")

    def pyvc_getattr(self, interp, name):
        if name in self.cols and name not in _FRAME_METHODS:
            return self.col(name)
        m = _FRAME_METHODS.get(name)
        if m is None:
            raise Undecided(f"DataFrame.{name} has no theory entry")
        r = m(self, interp)
        return r

    def pyvc_setattr(self, interp, name, val):
        raise Undecided("attribute assignment on a DataFrame")

    def pyvc_contains(self, interp, x):
        return x in self.cols

    # ---- row slices ------------------------------------------------------------------------------
    def seg_lengths(self):
        return [count_of(self.axis.root, d) for d in self.axis.doms]

    def slice_rows(self, interp, sl):
        """F[a:b] with symbolic bounds: only cuts at segment boundaries (or rank cuts in a permuted segment)"""
        if sl.step is not None:
            raise Undecided("row slice with a step")
        lens = self.seg_lengths()
        bounds = [z3.IntVal(0)]
        for l in lens:
            bounds.append(z3.simplify(bounds[-1] + l))

        def locate(b, default):
            if b is None:
                return default
            bt = to_term(b.v if hasattr(b, "v") else b)
            bt = z3.simplify(bt)
            for i, x in enumerate(bounds):
                if z3.eq(z3.simplify(x - bt), z3.IntVal(0)) or _provably_equal(interp, x, bt):
                    return i
            return ("cut", bt)

        lo = locate(sl.start, 0)
        hi = locate(sl.stop, len(lens))
        if isinstance(lo, int) and isinstance(hi, int):
            _use("DataFrame[a:b] / ndarray[a:b]: positional slice (here: at concatenation boundaries)")
            doms = self.axis.doms[lo:hi]
            if not doms:
                doms = [z3.BoolVal(False)]
                new = RowAxis(self.axis.root, doms, self.axis.order)
                return self._new(new, index=("labels", self.index))
            # order of a slice at concatenation boundaries: the order of the part(s) it consists of
            order = self.axis.order
            if isinstance(order, tuple) and order and order[0] == "concat" and len(order) == 1 + len(self.axis.doms):
                parts = order[1 + lo : 1 + hi]
                order = parts[0] if len(parts) == 1 else ("concat",) + tuple(parts)
            new = RowAxis(self.axis.root, doms, order)
            f = self.__class__(new, {}, ("labels", self.index), self.idkey)
            if getattr(self, "_dedup", None):
                f._dedup = list(self._dedup)
            for k, c in self.cols.items():
                if isinstance(c, Poison):
                    f.cols[k] = c
                    continue
                t = c.t
                nan, inf = c.nan, c.inf
                if self.axis.sel is not None:
                    if new.sel is not None:
                        sub = (self.axis.sel, new.sel + lo)
                    else:
                        sub = (self.axis.sel, z3.IntVal(lo))
                    t = z3.simplify(z3.substitute(t, sub))
                    nan = z3.simplify(z3.substitute(nan, sub)) if nan is not None else None
                    inf = z3.simplify(z3.substitute(inf, sub)) if inf is not None else None
                f.cols[k] = V(t, (new,), f.index, nan, inf, c.meta)
            return f
        # cut inside a single permuted / ordered segment
        if len(lens) == 1:
            return self.rank_cut(interp, sl, lens[0])
        # general case: each bound lies inside some segment (proved under the path condition)
        def seg_of(b):
            if isinstance(b, int):
                return b, None
            bt = b[1]
            for k in range(len(lens)):
                if _provably(interp, z3.And(bounds[k] <= bt, bt <= bounds[k + 1])):
                    return k, bt - bounds[k]
            raise Undecided("row slice bound whose segment cannot be determined")

        klo, offlo = seg_of(lo)
        khi, offhi = seg_of(hi)
        start_seg = lo if isinstance(lo, int) else klo
        end_seg_excl = hi if isinstance(hi, int) else khi + 1
        result_parts = []
        for k in range(start_seg, end_seg_excl):
            a = V(offlo) if (not isinstance(lo, int) and k == klo) else None
            b = V(offhi) if (not isinstance(hi, int) and k == khi) else None
            segf = self.slice_rows(interp, slice(V(bounds[k]), V(bounds[k + 1])))
            if a is not None or b is not None:
                segf = segf.rank_cut(interp, slice(a, b), lens[k])
            result_parts.append(segf)
        if not result_parts:
            raise Undecided("empty general slice")
        if len(result_parts) == 1:
            return result_parts[0]
        return pd_concat(interp)(result_parts)

    def rank_cut(self, interp, sl, n):
        _use("DataFrame[a:b] inside one ordered segment: the rows whose position (an injective rank 0..n-1 determined by the order) lies in [a,b)")
        ax = self.axis
        rk = rank_fn(ax)
        r = rk(ax.root.u)
        conds = [ax.doms[0]]
        if sl.start is not None:
            conds.append(r >= to_term(getattr(sl.start, "v", sl.start)))
        if sl.stop is not None:
            conds.append(r < to_term(getattr(sl.stop, "v", sl.stop)))
        new = RowAxis(ax.root, [z3.And(*conds)], ax.order)
        # length of a rank cut: clamp(b,0,n) - clamp(a,0,n)
        a = to_term(getattr(sl.start, "v", sl.start)) if sl.start is not None else z3.IntVal(0)
        b = to_term(getattr(sl.stop, "v", sl.stop)) if sl.stop is not None else n
        clamp = lambda x: z3.If(x < 0, 0, z3.If(x > n, n, x))  # noqa: E731
        interp.ctx.assume(z3.Implies(z3.And(a >= 0, b >= 0), new.n == z3.If(clamp(b) >= clamp(a), clamp(b) - clamp(a), 0)))
        interp.ctx.assume(z3.Implies(ax.doms[0], z3.And(r >= 0, r < n)))
        return self._new(new, index=("labels", self.index))


_RANKS = {}


def rank_fn(ax):
    from .values import tid

    key = (ax.root.name, tid(ax.doms[0]), str(ax.order))
    if key not in _RANKS:
        _RANKS[key] = z3.Function(fresh_name("rank"), z3.IntSort(), z3.IntSort())
    return _RANKS[key]


def _provably(interp, cond):
    s = z3.Solver()
    s.set("timeout", 3000)
    for f in interp.ctx.pc:
        s.add(f)
    for f in count_facts():
        s.add(f)
    s.add(z3.Not(cond))
    return s.check() == z3.unsat


def _provably_equal(interp, a, b):
    s = z3.Solver()
    s.set("timeout", 2000)
    for f in interp.ctx.pc:
        s.add(f)
    for f in count_facts():
        s.add(f)
    s.add(a != b)
    return s.check() == z3.unsat


# ---- frame methods -----------------------------------------------------------------------------------


def _m_reset_index(self, interp):
    def reset_index(drop=False, inplace=False, **kw):
        only_kw("frames.reset_index", kw)
        if inplace:
            raise Undecided("reset_index(inplace=True)")
        if isinstance(self.axis.root, KeySpace) and not drop:
            # groupby result: keys become columns (they already are, as key constants)
            _use("groupby(...).agg(...).reset_index(): key tuples become columns; one row per present group, sorted by key")
            return self._new(index=("range", self.axis.name))
        if not drop:
            raise Undecided("reset_index(drop=False) on a unit frame")
        _use("DataFrame.reset_index(drop=True): same rows, fresh RangeIndex")
        return self._new(index=("range", self.axis.name))

    return reset_index


def _m_copy(self, interp):
    def copy(deep=True):
        if deep is not True:
            raise Undecided("copy(deep=False) aliases the data")
        return self._new()

    return copy


def _m_shape(self, interp):
    if getattr(self, "opaque", False):
        # a design matrix whose column set depends on the data: the NUMBER of columns is an unknown positive integer
        # (the same for every row slice of the same matrix)
        if getattr(self, "_ncols", None) is None:
            self._ncols = z3.Int(fresh_name("n_design_columns"))
            interp.ctx.assume(self._ncols >= 1)
        return (self.length(), V(self._ncols))
    return (self.length(), len(self.cols))


def _m_columns(self, interp):
    return ColumnIndex(list(self.cols.keys()))


class ColumnIndex(list):
    @property
    def values(self):
        return self

    def tolist(self):
        return list(self)

    def difference(self, other, sort=None):
        """Index.difference(other): the labels not in other, sorted (pandas default)"""
        other = set(other)
        return ColumnIndex(sorted(x for x in dict.fromkeys(self) if x not in other))


def _m_drop(self, interp):
    def drop(labels=None, axis=0, columns=None, inplace=False, **kw):
        only_kw("frames.drop", kw)
        names = columns if columns is not None else labels
        if columns is None and axis != 1:
            raise Undecided("DataFrame.drop of rows")
        if isinstance(names, (str, int)):
            names = [names]
        for n in names:
            if n not in self.cols:
                raise SymRaise(ExcVal("KeyError", (n,), ("LookupError",)))
        cols = {k: v for k, v in self.cols.items() if k not in names}
        if inplace:
            self.cols = cols
            return None
        return self._new(cols=cols)

    return drop


def _null(c):
    return c.nan if c.nan is not None else z3.BoolVal(False)


def _m_dropna(self, interp):
    def dropna(axis=0, how="any", subset=None, **kw):
        only_kw("frames.dropna", kw)
        if axis != 0 or subset is None:
            raise Undecided("dropna without subset / along columns")
        _use("DataFrame.dropna(subset, how): row filter on null-ness of the listed columns")
        nulls = [_null(self.col(c)) for c in subset]
        cond = z3.Or(*nulls) if how == "any" else z3.And(*nulls)
        r = self.filter(V(z3.Not(cond), (self.axis,)))
        # surviving rows are non-null in the subset columns (how == any)
        if how == "any":
            for c in subset:
                cc = r.cols[c]
                r.cols[c] = V(cc.t, cc.axes, cc.series, None, cc.inf, cc.meta)
        return r

    return dropna


def _m_fillna(self, interp):
    def fillna(value=None, inplace=False, **kw):
        only_kw("frames.fillna", kw)
        if inplace not in (True, False):
            raise Undecided("fillna(inplace=<symbolic>)")
        _use("DataFrame.fillna(v | {col: v}): nulls of the listed columns replaced, other cells unchanged")
        # (inplace=True: the frame OBJECT is updated -- every holder of it sees the filled cells -- and None is returned)
        out = self if inplace else self._new()
        items = value.items() if isinstance(value, dict) else [(k, value) for k in self.cols]
        for k, v in items:
            if k not in out.cols:
                continue
            c = out.cols[k]
            if isinstance(c, Poison):
                continue
            if c.nan is not None:
                vt = to_term(v)
                ct = c.t
                if vt.sort() != ct.sort():
                    vt, ct = real(vt), real(ct)
                out.cols[k] = V(z3.If(c.nan, vt, ct), c.axes, c.series, None, c.inf)
        return None if inplace else out

    return fillna


def _m_update(self, interp):
    def update(other, **kw):
        only_kw("frames.update", kw)
        _use("DataFrame.update(other): cells overwritten by other's non-null cells (same rows)")
        if not isinstance(other, Frame) or not same_rows(other.axis, self.axis):
            raise Undecided("DataFrame.update with a frame over other rows")
        for k, oc in other.cols.items():
            if k not in self.cols:
                continue
            c = self.cols[k]
            if oc.nan is None:
                self.cols[k] = V(oc.t, c.axes, c.series, None, oc.inf)
            else:
                a, b = oc.t, c.t
                if a.sort() != b.sort():
                    a, b = real(a), real(b)
                self.cols[k] = V(z3.If(oc.nan, b, a), c.axes, c.series, z3.And(oc.nan, _null(c)), c.inf)
        return None

    return update


def _m_isna(self, interp):
    def isna():
        f = self._new()
        for k, c in f.cols.items():
            f.cols[k] = V(_null(c), c.axes, c.series)
        return f

    return isna


def _m_any(self, interp):
    def any_(axis=0, **kw):
        only_kw("frames.any_", kw)
        if axis != 1:
            raise Undecided("DataFrame.any along rows")
        cs = [self.col(k) for k in self.cols]
        return V(z3.Or(*[_b(c.t) for c in cs]), (self.axis,), self.index)

    return any_


def _m_all(self, interp):
    def all_(axis=0, **kw):
        only_kw("frames.all_", kw)
        if axis != 1:
            raise Undecided("DataFrame.all along rows")
        cs = [self.col(k) for k in self.cols]
        return V(z3.And(*[_b(c.t) for c in cs]), (self.axis,), self.index)

    return all_


class Loc:
    def __init__(self, frame):
        self.frame = frame

    def pyvc_setitem(self, interp, key, val):
        f = self.frame
        if isinstance(key, tuple) and len(key) == 2 and isinstance(key[0], V) and isinstance(key[1], str):
            _use("DataFrame.loc[mask, col] = v: masked cell assignment")
            mask, name = key
            if not same_rows(mask.axes[0], f.axis):
                raise Undecided(".loc with a mask over other rows")
            old = f.col(name)
            newv = val if isinstance(val, V) else V(to_term(val))
            r = ite(V(mask.t, (f.axis,)), V(newv.t, newv.axes if newv.axes else (), None, newv.nan, newv.inf), old)
            f.cols[name] = V(r.t, (f.axis,), f.index, r.nan, r.inf)
            return
        if isinstance(key, tuple) and len(key) == 2 and isinstance(key[0], V) and isinstance(key[1], list) and all(isinstance(n, str) for n in key[1]) and not isinstance(val, (V, Frame)):
            _use("DataFrame.loc[mask, [cols]] = scalar: masked assignment of a constant to several columns")
            for n in key[1]:
                self.pyvc_setitem(interp, (key[0], n), val)
            return
        raise Undecided(".loc assignment form")

    def pyvc_getitem(self, interp, key):
        f = self.frame
        if isinstance(key, V):
            return f.filter(key)
        if isinstance(key, tuple) and len(key) == 2 and isinstance(key[0], V):
            sub = f.filter(key[0])
            return sub.pyvc_getitem(interp, key[1])
        raise Undecided(".loc indexing form")


def _m_loc(self, interp):
    return Loc(self)


def _m_rename(self, interp):
    def rename(columns=None, **kw):
        only_kw("frames.rename", kw)
        if columns is None:
            raise Undecided("rename without columns=")
        cols = {}
        for k, v in self.cols.items():
            cols[columns.get(k, k)] = v
        return self._new(cols=cols)

    return rename


def _m_assign(self, interp):
    def assign(**kwargs):
        _use("DataFrame.assign(**kw): new frame, columns added left to right, callables receive the frame so far")
        out = self._new()
        for k, v in kwargs.items():
            if callable(v) and not isinstance(v, V):
                v = v(out)
            out.cols[k] = out.coerce_column(interp, v, k)
        return out

    return assign


def _m_sort_values(self, interp):
    def sort_values(by=None, key=None, **kw):
        only_kw("frames.sort_values", kw, ascending=(True,), inplace=(False,), ignore_index=(False,), na_position=("last",))
        by = [by] if isinstance(by, str) else list(by)
        for b in by:
            self.col(b)
        _use("DataFrame.sort_values(keys): same rows, ordered by the key tuple (stable); index labels travel with the rows")
        if key is not None:
            # ordered by a transformation of the keys: the same rows in SOME order that is not the order of the key tuple
            # (nothing is assumed about it; whatever needs the two orders to agree becomes an obligation that fails)
            node = getattr(key, "node", None)
            tag = ("sorted_by_key_function", tuple(by), f"line {getattr(node, 'lineno', '?')}")
            return self._new(RowAxis(self.axis.root, self.axis.doms, tag, sel=self.axis.sel), index=("labels", self.index))
        if len(self.axis.doms) > 1:
            # after sorting the segment structure is no longer positional: require key-disjoint segments
            new = RowAxis(self.axis.root, self.axis.doms, ("sorted", tuple(by)), sel=self.axis.sel)
        else:
            new = RowAxis(self.axis.root, self.axis.doms, ("sorted", tuple(by)))
            new.sortkey = [self.col(b).t for b in by]
        return self._new(new, index=("labels", self.index))

    return sort_values


def _m_sample(self, interp):
    def sample(n=None, frac=None, random_state=None, **kw):
        only_kw("frames.sample", kw)
        if frac != 1 or kw:
            raise Undecided("DataFrame.sample other than frac=1")
        _use("DataFrame.sample(frac=1, random_state=s): a permutation of the rows that is a function of (number of rows, s) only")
        if len(self.axis.doms) != 1:
            raise Undecided("sample of a concatenated frame")
        seed = str(random_state.t) if isinstance(random_state, V) else repr(random_state)
        new = RowAxis(self.axis.root, self.axis.doms, ("perm", seed, self.axis.order))
        return self._new(new, index=("labels", self.index))

    return sample


def _m_drop_duplicates(self, interp):
    def drop_duplicates(subset=None, **kw):
        only_kw("frames.drop_duplicates", kw)
        if subset is None or kw:
            raise Undecided("drop_duplicates without subset")
        subset = [subset] if isinstance(subset, str) else subset
        if subset != [self.idkey]:
            raise Undecided(f"drop_duplicates on {subset}: only the row-identifying key column is modelled")
        _use("DataFrame.drop_duplicates(subset=id): first occurrence of every id kept (rows of one base table have unique ids, V1)")
        ax = self.axis
        doms = []
        for i, d in enumerate(ax.doms):
            prev = [ax.doms[j] for j in range(i)]
            doms.append(z3.And(d, z3.Not(z3.Or(*prev))) if prev else d)
        new = RowAxis(ax.root, doms, ax.order, sel=ax.sel)
        out = self._new(new, index=("labels", self.index))
        # ghost: the rows of this frame have been through a de-duplicating operation (under V1 it changes nothing; a
        # contract about REPEATED ids -- which V1 excludes -- asks for this mark instead)
        out._dedup = list(getattr(self, "_dedup", None) or []) + [f"drop_duplicates(subset={subset!r})"]
        return out

    return drop_duplicates


def _m_merge(self, interp):
    def merge(right, how="inner", on=None, suffixes=("_x", "_y"), indicator=False, **kw):
        return merge_frames(interp, self, right, how, on, suffixes, indicator, **kw)

    return merge


def merge_frames(interp, left, right, how="inner", on=None, suffixes=("_x", "_y"), indicator=False, **kw):
    only_kw("frames.merge_frames", kw)
    from . import levels

    if isinstance(right, levels.PartsFrame):
        if indicator:
            raise Undecided("merge with a multi-level table and indicator")
        return levels.merge_with_parts(interp, left, right, how, on, **kw)
    if kw:
        raise Undecided(f"merge options {sorted(kw)}")
    if on is None and how != "cross":
        raise Undecided("merge without on=")
    on = [] if on is None else [on] if isinstance(on, str) else list(on)
    if left.axis.root is not right.axis.root:
        lk, rk = isinstance(left.axis.root, KeySpace), isinstance(right.axis.root, KeySpace)
        if indicator:
            raise Undecided("merge of frames over different universes with indicator")
        if lk != rk and how == "inner":
            return _merge_group_with_units(interp, left if lk else right, right if lk else left, on, group_is_left=lk)
        if lk and rk and levels._nested(right.axis.root, left.axis.root):
            return levels.merge_coarse_fine(interp, left, right, on, how, fine_is_left=True)
        if lk and rk and levels._nested(left.axis.root, right.axis.root):
            return levels.merge_coarse_fine(interp, right, left, on, how, fine_is_left=False)
        raise Undecided("merge of frames over different universes")
    if how == "cross":
        raise Undecided("cross merge of frames over the same universe")
    if len(left.axis.doms) != 1:
        left = left.flatten(interp)
    if len(right.axis.doms) != 1:
        right = right.flatten(interp)
    root = left.axis.root
    # the join key must determine the row of the universe on both sides
    if isinstance(root, KeySpace):
        if not set(root.keys) <= set(on):
            raise Undecided(f"merge of group frames on {on}, grouped by {root.keys}")
        conds = []
        for k in on:
            if k in root.keys:
                continue
            lc, rc = left.col(k), right.col(k)
            a, b = lc.t, rc.t
            if a.sort() != b.sort():
                a, b = real(a), real(b)
            conds.append(z3.And(z3.Not(_null(lc)), z3.Not(_null(rc)), a == b))
        match = z3.And(*conds) if conds else z3.BoolVal(True)
    else:
        if left.idkey is None or left.idkey != right.idkey or left.idkey not in on:
            raise Undecided("merge of unit frames not on the row-identifying key")
        conds = []
        for k in on:
            if k == left.idkey:
                continue
            lc, rc = left.col(k), right.col(k)
            a, b = lc.t, rc.t
            if a.sort() != b.sort():
                a, b = real(a), real(b)
            conds.append(z3.And(z3.Not(_null(lc)), z3.Not(_null(rc)), a == b))
        match = z3.And(*conds) if conds else z3.BoolVal(True)
    _use(f"DataFrame.merge(how={how!r}, on=keys) of key-unique frames: rows paired by key; unmatched side null (left/outer) or dropped (inner)")
    ld, rd = left.axis.doms[0], right.axis.doms[0]
    both = z3.And(ld, rd, match)
    if how == "inner":
        dom = both
    elif how == "left":
        dom = ld
    elif how == "outer":
        if not z3.is_true(match):
            raise Undecided("outer merge with extra key columns")
        dom = z3.Or(ld, rd)
    else:
        raise Undecided(f"merge how={how!r}")
    order = left.axis.order if how in ("inner", "left") else ("sorted", tuple(on))
    ax = RowAxis(root, [dom], order)
    out = Frame(ax, {}, ("range", ax.name), left.idkey)
    if getattr(left, "_dedup", None) or getattr(right, "_dedup", None):
        out._dedup = list(getattr(left, "_dedup", None) or []) + list(getattr(right, "_dedup", None) or [])
    lnames, rnames = list(left.cols), list(right.cols)
    overlap = [c for c in lnames if c in rnames and c not in on]

    def put(name, c, present):
        if isinstance(c, Poison):
            out.cols[name] = c
            return
        nan = _or(c.nan, z3.Not(present)) if not z3.is_true(z3.simplify(present)) else c.nan
        if how == "inner":
            nan = c.nan
        out.cols[name] = V(c.t, (ax,), out.index, nan, c.inf, c.meta)

    for c in lnames:
        if c in on:
            lc = left.cols[c]
            if how == "outer" and not isinstance(root, KeySpace):
                raise Undecided("outer merge of unit frames")
            out.cols[c] = V(lc.t, (ax,), out.index, None if isinstance(root, KeySpace) else lc.nan, None)
            continue
        put(c + suffixes[0] if c in overlap else c, left.cols[c], ld if how == "outer" else z3.BoolVal(True))
    for c in rnames:
        if c in on:
            continue
        put(c + suffixes[1] if c in overlap else c, right.cols[c], z3.And(rd, match) if how in ("left", "outer") else z3.BoolVal(True))
    if indicator:
        _use("merge(..., indicator=True): column _merge in {'both','left_only','right_only'}")
        both_t, lo_t, ro_t = z3.StringVal("both"), z3.StringVal("left_only"), z3.StringVal("right_only")
        out.cols["_merge"] = V(z3.If(both, both_t, z3.If(ld, lo_t, ro_t)), (ax,), out.index)
    return out


def _m_agg(self, interp):
    def agg(func=None, axis=0, *a2, **kw):
        only_kw("frames.agg", kw)
        if a2:
            raise Undecided("DataFrame.agg extra positional arguments")
        pm = getattr(func, "pyvc_method", None)
        if axis == 1 and func is tuple or (axis == 1 and getattr(func, "__name__", "") == "tuple"):
            return TupleCol(self, list(self.cols))
        if axis == 1 and pm and pm[1] == "join" and isinstance(pm[0], str):
            _use("DataFrame.agg(sep.join, axis=1): row-wise string join of the columns (TypeError if a cell is not a string, e.g. NaN)")
            cols = [self.col(c) for c in self.cols]
            anynull = z3.Or(*[_null(c) for c in cols])
            if not z3.is_false(z3.simplify(anynull)):
                # is there a row with a null (non-string) cell?  then str.join raises TypeError
                from . import sums as _s

                b = _s.reduce_anyall(interp, V(anynull, (self.axis,)), None, "any")
                if interp.ctx.branch(b, "agg-join-null"):
                    raise SymRaise(ExcVal("TypeError", ("sequence item: expected str instance, float found",)))
            t = cols[0].t
            for c in cols[1:]:
                t = z3.Concat(t, z3.StringVal(pm[0]), c.t)
            return V(t, (self.axis,), self.index, None, None, ("joined", tuple(self.cols), [c.t for c in cols], [c.nan for c in cols]))
        raise Undecided("DataFrame.agg form")

    return agg


def _merge_group_with_units(interp, gf, uf, on, group_is_left):
    """inner merge of a per-group frame with a per-unit frame on the group keys: the unit rows whose group is a row
    of the group frame, carrying the group's columns"""
    gs = gf.axis.root
    if set(on) != set(gs.keys) or len(gf.axis.doms) != 1 or len(uf.axis.doms) != 1:
        raise Undecided("group/unit merge form")
    _use("merge(group frame, unit frame, how='inner', on=group keys): unit rows of the groups present in the group frame")
    subs = []
    nonnull = []
    for k in gs.keys:
        c = uf.col(k)
        subs.append((gs.keyvars[k], c.t))
        if c.nan is not None:
            nonnull.append(z3.Not(c.nan))
    inst = lambda t: z3.substitute(t, *subs)  # noqa: E731
    dom = z3.And(uf.axis.doms[0], inst(gf.axis.doms[0]), *nonnull)
    ax = RowAxis(uf.axis.root, [dom], ("merged", gf.axis.order, uf.axis.order))
    out = Frame(ax, {}, ("range", ax.name), uf.idkey)
    first, second = (gf, uf) if group_is_left else (uf, gf)
    for fr in (first, second):
        for name, c in fr.cols.items():
            if name in out.cols:
                continue
            if isinstance(c, Poison):
                out.cols[name] = c
            elif fr is gf:
                out.cols[name] = V(inst(c.t), (ax,), out.index, inst(c.nan) if c.nan is not None else None, None)
            else:
                out.cols[name] = V(c.t, (ax,), out.index, c.nan, c.inf)
    return out


class TupleCol:
    """DataFrame[cols].agg(tuple, axis=1): the row's key tuple (only membership tests are modelled)"""

    def __init__(self, frame, names):
        self.frame = frame
        self.names = list(names)

    def pyvc_getattr(self, interp, name):
        if name == "isin":

            def isin(other):
                if not isinstance(other, TupleCol) or other.names != self.names:
                    raise Undecided("isin of key tuples over different columns")
                _use("keys.agg(tuple,1).isin(other keys): the row's key tuple occurs among the other frame's rows")
                of = other.frame
                gs = keyspace(self.names, {k: of.col(k).t.sort() for k in self.names})
                gb = GroupBy(of, self.names, interp)
                segs = gb._group_dom(gs)
                p = gb._present(gs, segs)
                subs = [(gs.keyvars[k], self.frame.col(k).t) for k in self.names]
                nn = [z3.Not(self.frame.col(k).nan) for k in self.names if self.frame.col(k).nan is not None]
                return V(z3.And(z3.substitute(p, *subs), *nn), (self.frame.axis,), self.frame.index)

            return isin
        raise Undecided(f"key tuples .{name}")


def _m_groupby(self, interp):
    def groupby(by=None, sort=True, **kw):
        only_kw("frames.groupby", kw)
        if sort is not True and sort is not False:
            raise Undecided("groupby(sort=<symbolic>)")
        if callable(by) and not isinstance(by, (list, tuple, str)):
            # groupby(function of the index label): only the constant function (everything in one group) is modelled
            r = by(V(self.axis.root.u))
            if isinstance(r, V) or r is None:
                raise Undecided("groupby(function) with a non-constant function")
            _use("groupby(lambda label: const): all rows in one group")
            return GroupBy(self, [], interp)
        by = [by] if isinstance(by, str) else list(by)
        g = GroupBy(self, by, interp)
        if not sort:
            # groups in order of first appearance: the same groups, in an order about which nothing is known here
            _use("groupby(keys, sort=False): the same groups and values as sort=True, in order of first appearance")
            g.order = ("first_appearance", tuple(by))
        return g

    return groupby


def _m_query(self, interp):
    def query(expr, **kw):
        """DataFrame.query for comparison expressions between a column and an @local / literal"""
        only_kw("frames.query", kw)
        import ast as _ast
        import re

        _use("DataFrame.query('<col> <op> @local'): row filter by the comparison (local variables of the caller via @)")
        src = re.sub(r"@([A-Za-z_][A-Za-z_0-9]*)", r"__at_\1", expr)
        try:
            tree = _ast.parse(src, mode="eval")
        except SyntaxError:
            raise Undecided(f"DataFrame.query({expr!r})")
        env = getattr(interp, "cur_env", None)

        def ev(n):
            if isinstance(n, _ast.Compare) and len(n.ops) == 1:
                a, b = ev(n.left), ev(n.comparators[0])
                import operator as _op

                ops = {_ast.Gt: _op.gt, _ast.GtE: _op.ge, _ast.Lt: _op.lt, _ast.LtE: _op.le, _ast.Eq: _op.eq, _ast.NotEq: _op.ne}
                if type(n.ops[0]) in ops:
                    return ops[type(n.ops[0])](a, b)
                if isinstance(n.ops[0], _ast.In):
                    return interp.contains(b, a)
                raise Undecided(f"query operator in {expr!r}")
            if isinstance(n, _ast.Name):
                if n.id.startswith("__at_"):
                    if env is None:
                        raise Undecided("query with @local outside interpreted code")
                    return env.get(n.id[5:], interp)
                return self.col(n.id)
            if isinstance(n, _ast.Constant):
                return n.value
            raise Undecided(f"DataFrame.query({expr!r})")

        mask = ev(tree.body)
        if not isinstance(mask, V):
            raise Undecided(f"DataFrame.query({expr!r}) did not produce a row mask")
        return self.filter(V(mask.t, (self.axis,), None, mask.nan))

    return query


def _m_values(self, interp):
    from .theory_ext import FrameMatrix

    return FrameMatrix(self)


def _m_mean(self, interp):
    def mean(axis=0, **kw):
        only_kw("frames.mean", kw)
        if not self.cols:
            return EmptySeries()
        from . import colwise

        return colwise.frame_reduce(self, interp, "mean", axis)

    return mean


def _m_std(self, interp):
    def std(axis=0, **kw):
        only_kw("frames.std", kw)
        if not self.cols:
            return EmptySeries()
        raise Undecided("DataFrame.std of a non-empty frame")

    return std


def _m_sum(self, interp):
    def sum_(axis=0, **kw):
        only_kw("frames.sum_", kw)
        from . import colwise

        return colwise.frame_reduce(self, interp, "sum", axis)

    return sum_


class EmptySeries:
    """the Series obtained by reducing a frame that has no columns"""


class ILoc:
    def __init__(self, frame):
        self.frame = frame

    def pyvc_getitem(self, interp, key):
        if isinstance(key, slice):
            _use("DataFrame.iloc[a:b]: positional row slice")
            return self.frame.slice_rows(interp, key)
        if isinstance(key, IndexSel):
            f = self.frame
            if not (same_rows(key.base, f.axis) or provably_same_rows(key.base, f.axis)):
                raise Undecided("iloc[positions] taken from a frame with other rows")
            _use("DataFrame.iloc[positions of the rows kept by a filter of a row-aligned frame]: the same filter applied to this frame")
            return f.filter(V(key.mask, (f.axis,), None))
        raise Undecided("DataFrame.iloc with a non-slice key")


def _m_iloc(self, interp):
    return ILoc(self)


class IndexSel:
    """index labels of a row-filtered frame whose unfiltered frame had a fresh RangeIndex: the POSITIONS of the kept rows"""

    def __init__(self, base, mask):
        self.base = base
        self.mask = mask


def _m_index(self, interp):
    sf = getattr(self, "_sel_from", None)
    if sf is None:
        raise Undecided("DataFrame.index")
    return IndexSel(*sf)


def _m_astype(self, interp):
    def astype(dtype=None, **kw):
        only_kw("frames.astype", kw)
        if isinstance(dtype, dict) and all(v is float or getattr(v, '__name__', '') in ('float', 'py_float') for v in dtype.values()) and not kw:
            for k in dtype:
                self.col(k)
            _use("DataFrame.astype({col: float}): the same values as floats (null stays null)")
            return self._new()
        def _isint(v_):
            return v_ is int or getattr(v_, "__name__", "") in ("int", "py_int", "int64") or v_ in ("int", "int64")

        def _isfloat(v_):
            return v_ is float or getattr(v_, "__name__", "") in ("float", "py_float", "float64") or v_ in ("float", "float64")

        if isinstance(dtype, dict) and all(_isint(v_) or _isfloat(v_) for v_ in dtype.values()):
            _use("DataFrame.astype({col: int | float}): int truncates toward zero (a missing or infinite cell raises), float keeps the value")
            out = self._new()
            for k, ty in dtype.items():
                c = self.col(k)
                if not (z3.is_int(c.t) or z3.is_real(c.t)):
                    raise Undecided("astype of a non-numeric column")
                if _isfloat(ty):
                    out.cols[k] = V(real(c.t), (out.axis,), out.index, c.nan, c.inf, c.meta)
                    continue
                bad = _or(c.nan, c.inf)
                if bad is not None:
                    rows = z3.And(*self.axis.facts())
                    if interp.ctx.branch(V(z3.And(rows, bad)), "astype-int-of-a-missing-cell"):
                        raise SymRaise(ExcVal("IntCastingNaNError", ("Cannot convert non-finite values (NA or inf) to integer",), ("ValueError",)))
                t_ = c.t if z3.is_int(c.t) else z3.If(c.t >= 0, z3.ToInt(c.t), -z3.ToInt(-c.t))
                out.cols[k] = V(t_, (out.axis,), out.index, None, None, c.meta)
            return out
        if dtype in ("float64", "float") or dtype is float or getattr(dtype, "__name__", "") in ("float", "py_float"):
            _use("DataFrame.astype('float64'): the same numbers as floats")
            out = self._new()
            for k, c in out.cols.items():
                if not isinstance(c, Poison) and (z3.is_int(c.t) or z3.is_real(c.t)):
                    out.cols[k] = V(real(c.t), (out.axis,), out.index, c.nan, c.inf, c.meta)
                elif not isinstance(c, Poison):
                    raise Undecided("astype(float) of a non-numeric column")
            return out
        raise Undecided("DataFrame.astype form")

    return astype


_FRAME_METHODS = {
    "astype": _m_astype,
    "reset_index": _m_reset_index,
    "copy": _m_copy,
    "shape": _m_shape,
    "empty": lambda self, interp: self.length().v == 0,  # DataFrame.empty: no rows (the frames here always have columns)
    "columns": _m_columns,
    "drop": _m_drop,
    "dropna": _m_dropna,
    "fillna": _m_fillna,
    "update": _m_update,
    "isna": _m_isna,
    "isnull": _m_isna,
    "any": _m_any,
    "all": _m_all,
    "loc": _m_loc,
    "rename": _m_rename,
    "assign": _m_assign,
    "sort_values": _m_sort_values,
    "sample": _m_sample,
    "drop_duplicates": _m_drop_duplicates,
    "merge": _m_merge,
    "groupby": _m_groupby,
    "agg": _m_agg,
    "query": _m_query,
    "values": _m_values,
    "mean": _m_mean,
    "std": _m_std,
    "sum": _m_sum,
    "iloc": _m_iloc,
    "index": _m_index,
}


# ---- groupby ---------------------------------------------------------------------------------------


def _is_numeric(c):
    return isinstance(c, V) and (z3.is_int(c.t) or z3.is_real(c.t) or z3.is_bool(c.t))


class GroupBy:
    def __init__(self, frame, by, interp):
        self.frame = frame
        self.by = by
        self.interp = interp
        for b in by:
            frame.col(b)

    def _space(self):
        sorts = {b: self.frame.col(b).t.sort() for b in self.by}
        return keyspace(self.by, sorts)

    def _group_dom(self, gs):
        """present(g): some row of the frame has key g.  Returned as (pred term, per-segment membership terms)."""
        f = self.frame
        ax = f.axis
        segs = []
        for i, d in enumerate(ax.doms):
            conds = [d]
            for b in self.by:
                c = f.col(b)
                conds.append(z3.Not(_null(V(ax.seg_term(_null(c), i)))) if False else z3.Not(ax.seg_term(_null(c), i)))
                conds.append(ax.seg_term(c.t, i) == gs.keyvars[b])
            segs.append(z3.simplify(z3.And(*conds)))
        return segs

    def _present(self, gs, segs):
        """uninterpreted presence predicate with its defining instances"""
        ctx = self.interp.ctx
        from .values import tid

        key = tuple(tid(s) for s in segs) + (gs.name,)
        reg = ctx.__dict__.setdefault("_present", {})
        if key in reg:
            return reg[key]
        pname = fresh_name(f"present_{gs.name}")
        kv = [gs.keyvars[b] for b in self.by]
        P = z3.Function(pname, *([k.sort() for k in kv] + [z3.BoolSort()]))
        p = P(*kv)
        root = self.frame.axis.root
        member = z3.Or(*segs) if len(segs) > 1 else segs[0]
        # (i) a row with key g makes g present (generic row instance)
        ctx.assume(z3.Implies(z3.And(*root.facts(), member), p))
        # (ii) a present g has a witness row
        w = z3.Int(fresh_name("wit"))
        ctx.assume(z3.Implies(p, z3.substitute(member, (root.u, w))))
        ctx.assume(z3.Implies(z3.Not(p), z3.Not(member)))
        ctx.assume(z3.Implies(p, z3.And(w >= 0, w < root.n)))
        # cross-instantiation: the witness of every other presence predicate over the same universe and key
        # space is a row like any other -- instantiate fact (i) at it, in both directions (ground reasoning
        # instead of quantified axioms; needed when two group domains are compared for alignment)
        wl = ctx.__dict__.setdefault("_present_wit", [])
        for (root2, gs2, p2, member2, w2) in wl:
            if root2 is root and gs2 is gs:
                ctx.assume(z3.Implies(z3.And(p2, z3.substitute(member, (root.u, w2))), p))
                ctx.assume(z3.Implies(z3.And(p, z3.substitute(member2, (root.u, w))), p2))
        wl.append((root, gs, p, member, w))
        reg[key] = p
        ctx.__dict__.setdefault("_present_defs", {})[pname] = (p, member, root)
        return p

    def _result(self, colterms):
        """colterms: name -> summand term builder(seg index) ; returns group Frame"""
        gs = self._space()
        segs = self._group_dom(gs)
        p = self._present(gs, segs)
        ax = RowAxis(gs, [p], getattr(self, "order", None) or ("sorted", tuple(self.by)))
        out = Frame(ax, {}, ("groupkeys", ax.name), None)
        for b in self.by:
            out.cols[b] = V(gs.keyvars[b], (ax,), out.index)
        root = self.frame.axis.root
        ctx = self.interp.ctx
        for name, fn in colterms.items():
            if isinstance(fn, Poison):
                out.cols[name] = fn
                continue
            total = None
            for i, sd in enumerate(segs):
                t = fn(i)
                sym, d = sums.formal_sum_dom(ctx, root, sd, t)
                # empty group => 0
                total = sym if total is None else total + sym
            # a group without rows sums to 0 (sum_empty; the side condition is the definition of `present`)
            ctx.assume(z3.Implies(z3.Not(p), total == 0))
            out.cols[name] = V(total, (ax,), out.index)
        return out

    def sum(self, **kw):
        only_kw("frames.sum", kw)
        _use("groupby(keys).sum(): one row per distinct non-null key tuple, numeric columns summed over the rows of the group (non-numeric columns: not modelled, A-OBJSUM)")
        f = self.frame
        ax = f.axis
        cols = {}
        for name, c in f.cols.items():
            if name in self.by:
                continue
            if isinstance(c, Poison):
                cols[name] = c
            elif _is_numeric(c):
                if c.nan is not None:
                    # pandas skips NaN in group sums
                    cols[name] = (lambda i, c=c: z3.If(ax.seg_term(c.nan, i), 0 * num(ax.seg_term(c.t, i)), num(ax.seg_term(c.t, i))))
                else:
                    cols[name] = (lambda i, c=c: num(ax.seg_term(c.t, i)))
            else:
                cols[name] = Poison("groupby().sum() of a non-numeric column (A-OBJSUM)")
        return self._result(cols)

    def pyvc_getitem(self, interp, key):
        """groupby(keys)[col] / groupby(keys)[[cols]]: the same grouping restricted to the selected columns"""
        if isinstance(key, str):
            self.frame.col(key)
            return GroupByCol(self, key)
        raise Undecided("subscript on GroupBy other than one column name")

    def size(self, **kw):
        only_kw("frames.size", kw)
        _use("groupby(keys).size(): number of rows per group")
        r = self._result({"size": lambda i: z3.IntVal(1)})
        return GroupSize(r)

    def agg(self, *a, **named):
        if a:
            raise Undecided("groupby.agg with positional spec")
        f = self.frame
        ax = f.axis
        cols = {}
        for out, spec in named.items():
            src, how = spec
            if how != "sum":
                raise Undecided(f"groupby.agg {how}")
            c = f.col(src)
            cols[out] = (lambda i, c=c: num(ax.seg_term(c.t, i)))
        _use("groupby(keys).agg(name=(col,'sum')): named group sums")
        return self._result(cols)

    def apply(self, func, include_groups=True, **kw):
        """groupby(keys).apply(lambda x: pd.Series({...})): `func` is run ONCE on the view of the generic group (the rows
        whose key tuple is the generic group); every entry of the returned record must be a scalar"""
        only_kw("frames.apply", kw)
        f = self.frame
        if len(f.axis.doms) != 1:
            raise Undecided("groupby.apply on a concatenated frame")
        gs = self._space()
        segs = self._group_dom(gs)
        p = self._present(gs, segs)
        _use("groupby(keys).apply(f -> Series of scalars): one row per group, f evaluated on the rows of the group")
        gax = RowAxis(f.axis.root, [segs[0]], ("group", f.axis.order))
        view = Frame(gax, {}, ("labels", f.index), f.idkey)
        for k, c in f.cols.items():
            if k in self.by and not include_groups:
                continue
            view.cols[k] = c if isinstance(c, Poison) else V(c.t, (gax,), view.index, c.nan, c.inf, c.meta)
        # (ghost: contracts of functions called on the group's rows may use that pandas calls `func` only for groups that
        # exist -- the presence predicate and its witness row)
        wit = next((w_ for (r_, g_, p_, m_, w_) in self.interp.ctx.__dict__.get("_present_wit", []) if p_ is p or z3.eq(p_, p)), None)
        prev = getattr(self.interp, "current_group", None)
        self.interp.current_group = {"present": p, "witness": wit, "root": f.axis.root, "member": segs[0]}
        nmin = getattr(self.interp, "group_rows_at_least", None)
        if nmin:
            # a precondition the harness states for the function under contract: every group it forms has >= nmin rows
            self.interp.ctx.assume(z3.Implies(p, count_of(f.axis.root, segs[0]) >= nmin))
        try:
            res = func(view)
        finally:
            self.interp.current_group = prev
        if not isinstance(res, SeriesRecord):
            raise Undecided("groupby.apply with a function that does not return pd.Series({...})")
        ax = RowAxis(gs, [p], getattr(self, "order", None) or ("sorted", tuple(self.by)))
        out = Frame(ax, {}, ("groupkeys", ax.name), None)
        for b in self.by:
            out.cols[b] = V(gs.keyvars[b], (ax,), out.index)
        for k, v in res.data.items():
            if not isinstance(v, V):
                v = V(to_term(v))
            if [a for a in v.axes if a is not ONE]:
                raise Undecided(f"groupby.apply: entry {k!r} of the record is not a scalar")
            out.cols[k] = V(v.t, (ax,), out.index, v.nan, v.inf)
        return out

    def pyvc_getattr(self, interp, name):
        if name in ("sum", "size", "agg", "apply"):
            return getattr(self, name)
        raise Undecided(f"groupby(...).{name}")


def presence_instances(ctx, root, point, rows=(), rounds=2):
    """ghost instantiation of the definition  P(k) <=> some row r of the frame has key tuple k  of EVERY group
    presence predicate over `root` at the key tuple `point` (a dict key name -> term; terms may mention the generic
    row): (=>) a fresh witness row per predicate, (<=) at each of `rows`, the generic rows and all the witnesses.
    Quantifier-free instances of the defining axiom -- sound; returns the witness rows."""
    defs = [(p, member, r) for (p, member, r) in ctx.__dict__.get("_present_defs", {}).values() if r is root]
    wits = []
    cache = ctx.__dict__.setdefault("_presence_inst", {})
    for p, member, r in defs:
        kvs = [a for a in p.children()]
        try:
            subs = [(kv, point[str(kv)[3:]]) for kv in kvs]
        except KeyError:
            continue
        from .values import tid

        key = (p.decl().name(), tuple(tid(t) for _, t in subs))
        if key in cache:
            wits.append(cache[key])
            continue
        w = z3.Int(fresh_name("pwit"))
        cache[key] = w
        ctx.assume(z3.Implies(z3.substitute(p, *subs), z3.And(w >= 0, w < root.n, z3.substitute(member, (root.u, w), *subs))))
        wits.append(w)
    allrows = [root.u] + list(rows) + wits
    for p, member, r in defs:
        kvs = [a for a in p.children()]
        try:
            subs = [(kv, point[str(kv)[3:]]) for kv in kvs]
        except KeyError:
            continue
        for row in allrows:
            ctx.assume(z3.Implies(z3.And(row >= 0, row < root.n, z3.substitute(member, (root.u, row), *subs)), z3.substitute(p, *subs)))
    return wits


class SeriesRecord:
    """pd.Series({name: scalar, ...}): a record (only as the return value of a groupby.apply function)"""

    def __init__(self, data):
        self.data = dict(data)


def _series_ctor(interp):
    def Series(data=None, **kw):
        only_kw("frames.Series", kw)
        if isinstance(data, dict) and not kw:
            return SeriesRecord(data)
        raise Undecided("pd.Series(...) form")

    return Series


class GroupByCol:
    """groupby(keys)[col]: only .sum() is modelled -- the Series of group sums of that column, indexed by the group keys"""

    def __init__(self, gb, colname):
        self.gb, self.colname = gb, colname

    def sum(self, **kw):
        only_kw("frames.GroupByCol.sum", kw)
        return self.gb.sum().col(self.colname)


class GroupSize:
    def __init__(self, frame):
        self.frame = frame

    def pyvc_getattr(self, interp, name):
        if name == "reset_index":

            def reset_index(drop=False, name=0, **kw):
                only_kw("frames.reset_index", kw)
                if drop:
                    raise Undecided("groupby.size().reset_index(drop=True) loses the group keys")
                # an unnamed size() Series becomes column 0 (pandas), or `name` if given
                f = self.frame._new(index=("range", self.frame.axis.name))
                f.cols[name] = f.cols.pop("size")
                return f

            return reset_index
        raise Undecided(f"groupby.size().{name}")


# ---- Series-level methods on V (registered into theory_np.v_getattr through hooks) ---------------------


class ColList:
    """Series.tolist() of a frame column: only membership is modelled"""

    def __init__(self, v):
        self.v = v


class SeriesConcat:
    """pd.concat([Series, Series, ...]): the values of all parts (only membership tests -- .isin -- are modelled)"""

    def __init__(self, parts):
        self.parts = list(parts)


def series_isin(interp, s, values):
    """Series.isin(values)"""
    if isinstance(values, SeriesConcat):
        _use("Series.isin(pd.concat([a, b])): in a or in b")
        rs = [series_isin(interp, s, p) for p in values.parts]
        t = z3.Or(*[r.t for r in rs])
        return V(t, s.axes, s.series)
    if isinstance(values, ColList):
        values = values.v
    if isinstance(values, V) and values.axes:
        oax = values.axes[0]
        sax = s.axes[0] if s.axes else None
        if isinstance(oax, RowAxis) and isinstance(sax, RowAxis) and oax.root is sax.root:
            # both are the row-identifying key of the same universe?  then membership = presence of the key
            idt = id_term(sax.root)
            if idt is not None and z3.eq(z3.simplify(s.t), idt) and z3.eq(z3.simplify(values.t), idt):
                _use("Series.isin(other id column): the id occurs in the other frame")
                pres = oax.present()
                return V(pres, s.axes, s.series)
        raise Undecided("Series.isin(Series) that is not id-in-ids over one universe")
    if hasattr(values, "pyvc_contains"):
        return values.pyvc_contains(interp, s)
    if isinstance(values, (list, tuple, set)):
        r = interp.contains(list(values), s)
        if isinstance(r, bool):
            return V(z3.BoolVal(r), s.axes, s.series)
        return V(r.t, s.axes, s.series)
    raise Undecided(f"Series.isin({type(values).__name__})")


_IDTERMS = {}


def set_id_term(root, term):
    _IDTERMS[root.name] = z3.simplify(term)


def id_term(root):
    return _IDTERMS.get(root.name)


# ---- pandas module table -------------------------------------------------------------------------------


def pd_concat(interp):
    def concat(objs, axis=0, **kw):
        only_kw("frames.concat", kw)
        objs = list(objs)
        if axis == 1:
            if not all(isinstance(o, Frame) for o in objs) or not all(same_rows(o.axis, objs[0].axis) or provably_same_rows(o.axis, objs[0].axis) for o in objs):
                raise Undecided("pd.concat(axis=1) of frames with different rows")
            _use("pd.concat(frames over the same rows, axis=1): columns side by side")
            out = objs[0]._new()
            for o in objs[1:]:
                for k, c in o.cols.items():
                    if k in out.cols:
                        raise Undecided("pd.concat(axis=1) with a repeated column name")
                    out.cols[k] = c if isinstance(c, Poison) else V(c.t, (out.axis,), out.index, c.nan, c.inf, c.meta)
            return out
        if axis != 0:
            raise Undecided("pd.concat along columns")
        from . import levels

        if any(isinstance(o, levels.PartsFrame) for o in objs) or (all(isinstance(o, Frame) for o in objs) and any(o.axis.root is not objs[0].axis.root for o in objs)):
            return levels.concat(interp, objs)
        if objs and all(isinstance(o, V) and len(o.axes) == 1 for o in objs):
            return SeriesConcat(objs)
        if not all(isinstance(o, Frame) for o in objs):
            raise Undecided("pd.concat of non-frames")
        _use("pd.concat(frames, axis=0): rows appended in order; columns absent from a part are null there; index labels kept")
        root = objs[0].axis.root
        if any(o.axis.root is not root for o in objs):
            raise Undecided("pd.concat of frames over different universes")
        doms = []
        parts = []  # (frame, seg index in frame)
        for o in objs:
            for i, d in enumerate(o.axis.doms):
                doms.append(d)
                parts.append((o, i))
        order = ("concat",)
        for o in objs:
            oo = o.axis.order
            if len(o.axis.doms) == 1:
                order += (oo,)
            elif isinstance(oo, tuple) and oo and oo[0] == "concat" and len(oo) == 1 + len(o.axis.doms):
                order += tuple(oo[1:])
            else:
                order += tuple(("part", oo, i) for i in range(len(o.axis.doms)))
        ax = RowAxis(root, doms, order)
        out = Frame(ax, {}, ("concat",) + tuple(o.index for o in objs), objs[0].idkey)
        if any(getattr(o, "_dedup", None) for o in objs):
            out._dedup = [d for o in objs for d in (getattr(o, "_dedup", None) or [])]
        names = []
        for o in objs:
            for k in o.cols:
                if k not in names:
                    names.append(k)
        for k in names:
            # poison if any part poisons
            if any(isinstance(o.cols.get(k), Poison) for o in objs):
                out.cols[k] = next(o.cols[k] for o in objs if isinstance(o.cols.get(k), Poison))
                continue
            t = None
            nan = None
            pieces = []
            for (o, i) in parts:
                if k in o.cols:
                    c = o.cols[k]
                    pieces.append((o.axis.seg_term(c.t, i), o.axis.seg_term(c.nan, i) if c.nan is not None else z3.BoolVal(False)))
                else:
                    pieces.append((None, z3.BoolVal(True)))
            proto = next(p[0] for p in pieces if p[0] is not None)
            sorts = {p[0].sort() for p in pieces if p[0] is not None}
            if len(sorts) > 1:
                pieces = [((real(p[0]) if p[0] is not None else None), p[1]) for p in pieces]
                proto = next(p[0] for p in pieces if p[0] is not None)
            dflt = _default(proto.sort())
            if ax.sel is None:
                t, nan = pieces[0]
                t = t if t is not None else dflt
            else:
                t = pieces[-1][0] if pieces[-1][0] is not None else dflt
                nan = pieces[-1][1]
                for j in range(len(pieces) - 2, -1, -1):
                    pt = pieces[j][0] if pieces[j][0] is not None else dflt
                    t = z3.If(ax.sel == j, pt, t)
                    nan = z3.If(ax.sel == j, pieces[j][1], nan)
            nan = z3.simplify(nan)
            out.cols[k] = V(t, (ax,), out.index, None if z3.is_false(nan) else nan, None)
        return out

    return concat


def _default(sort):
    if sort == z3.StringSort():
        return z3.StringVal("")
    if sort == z3.BoolSort():
        return z3.BoolVal(False)
    if sort == z3.IntSort():
        return z3.IntVal(0)
    return z3.RealVal(0)


class Dummies:
    """pd.get_dummies(series): indicator matrix rows x sorted distinct non-null values"""

    def __init__(self, interp, series):
        if not (isinstance(series, V) and len(series.axes) == 1 and isinstance(series.axes[0], RowAxis)):
            raise Undecided("get_dummies of something that is not a frame column")
        _use("pd.get_dummies(col): one indicator column per distinct non-null value, columns sorted; .values[i,j] = (col[i] == value_j)")
        self.interp = interp
        self.series = series
        ax = series.axes[0]
        if series.meta and series.meta[0] == "joined":
            keys, terms = list(series.meta[1]), series.meta[2]
            nulls = series.meta[3]
            _use("A-KEYJOIN (V3): joining the key columns with '_' is injective and order-preserving on the data, so the dummy columns of the joined key are the key tuples in tuple order")
        else:
            # the column's own name is not known here: recover it from the frame-independent key term
            keys, terms = [_colname_of(series)], [series.t]
            nulls = [series.nan]
        self.keys = keys
        sorts = {k: t.sort() for k, t in zip(keys, terms)}
        gs = keyspace(keys, sorts)
        self.gs = gs
        fr = Frame(ax, {k: V(t, (ax,), None, nl) for k, t, nl in zip(keys, terms, nulls)}, None, None)
        self.frame = fr
        gb = GroupBy(fr, keys, interp)
        segs = gb._group_dom(gs)
        p = gb._present(gs, segs)
        self.contest_axis = RowAxis(gs, [p], ("sorted", tuple(keys)))

    def pyvc_getattr(self, interp, name):
        if name == "values":
            return Indicator(self, self.frame)
        if name == "columns":
            from .seq import SymSeq

            kv = [self.gs.keyvars[k] for k in self.keys]
            elem = kv[0]
            for k in kv[1:]:
                elem = z3.Concat(elem, z3.StringVal("_"), k)
            return SymSeq(self.contest_axis, elem, "contests")
        raise Undecided(f"get_dummies(...).{name}")


def _colname_of(series):
    if series.meta and series.meta[0] == "col":
        return series.meta[1]
    t = series.t
    if z3.is_app(t) and t.num_args() == 1:
        return t.decl().name()
    raise Undecided("get_dummies: cannot identify the key column")


class Indicator:
    """rows of (a slice of) the frame the dummies were built from; value[i, j] = (key(row i) == contest j)"""

    def __init__(self, dummies, frame, transposed=False):
        self.d = dummies
        self.frame = frame
        self.transposed = transposed

    def pyvc_getitem(self, interp, key):
        if isinstance(key, slice):
            return Indicator(self.d, self.frame.slice_rows(interp, key), self.transposed)
        raise Undecided("indicator indexing")

    def pyvc_getattr(self, interp, name):
        if name == "T":
            return Indicator(self.d, self.frame, not self.transposed)
        if name == "shape":
            return (self.frame.length(), self.d.contest_axis and SeqLenOf(self.d.contest_axis))
        raise Undecided(f"indicator.{name}")

    def pyvc_binop(self, interp, opname, o, rev):
        if opname != "MatMult":
            return NotImplemented
        d = self.d
        gs = d.gs
        if not rev and self.transposed:
            # A.T @ X : group sums of X's rows
            _use("indicator.T @ X = per-contest sums of the rows of X (lemma indicator_matmul)")
            x = o if isinstance(o, V) else V(to_term(o))
            if not x.axes:
                raise Undecided("indicator.T @ scalar")
            xa = x.axes[0]
            fa = self.frame.axis
            from .values import same_axis

            if not same_axis(xa, fa):
                raise Undecided(f"indicator.T @ X over different rows ({xa} vs {fa})")
            rest = tuple(x.axes[1:])
            total = None
            for i, dd in enumerate(fa.doms):
                conds = [dd]
                for k in d.keys:
                    c = self.frame.cols[k]
                    if c.nan is not None:
                        conds.append(z3.Not(fa.seg_term(c.nan, i)))
                    conds.append(fa.seg_term(c.t, i) == gs.keyvars[k])
                xt = x.t
                if isinstance(xa, RowAxis) and xa.sel is not None:
                    xt = xa.seg_term(xt, i)
                sym, _ = sums.formal_sum_dom(interp.ctx, fa.root, z3.And(*conds), num(xt))
                total = sym if total is None else total + sym
            sums._use("indicator_matmul")
            return V(total, (d.contest_axis,) + rest, None)
        if not rev and not self.transposed:
            # A @ e : broadcast a per-contest vector back to the rows
            _use("indicator @ e = the entry of e for the row's own contest (0 if the row has no contest)")
            e = o if isinstance(o, V) else V(to_term(o))
            raise Undecided("indicator @ vector (broadcast back) not modelled")
        return NotImplemented


def SeqLenOf(axis):
    from .theory_np import SeqLen

    return SeqLen(axis)


def pd_isnull(x):
    from . import levels

    if isinstance(x, levels.PartsFrame):
        return levels.isnull(x)
    if isinstance(x, Frame):
        return _m_isna(x, None)()
    if isinstance(x, V):
        return V(_null(x), x.axes, x.series)
    return x is None


def frame_dummies(interp, df, columns=None, prefix=None, prefix_sep="_", dtype=None, **kw):
    """pd.get_dummies(frame, columns=[...], prefix=[...]): every listed column is replaced by one 0/1 column per value
    that OCCURS in it (values sorted, names prefix+sep+value), appended after the other columns.  The values range over a
    finite universe of names declared by the harness (interp.level_universe[col], plus 'other'); which of them occur is
    decided by branching, so the column set is concrete on every path.  Obligation: the universe covers the column."""
    only_kw("frames.frame_dummies", kw)
    if kw or columns is None:
        raise Undecided("get_dummies form")
    columns = list(columns)
    prefix = list(prefix) if prefix is not None else list(columns)
    uni = getattr(interp, "level_universe", None)
    if uni is None:
        raise Undecided("get_dummies on a frame without a declared universe of level names")
    _use("pd.get_dummies(frame, columns, prefix, prefix_sep): one indicator column per value that occurs in the column (sorted), after the remaining columns")
    if len(df.axis.doms) != 1:
        raise Undecided("get_dummies on a concatenated frame")
    out = df._new(cols={k: v for k, v in df.cols.items() if k not in columns})
    for cname, pfx in zip(columns, prefix):
        c = df.col(cname)
        cands = sorted(set(list(uni.get(cname, [])) + ["other"]))
        nn = z3.Not(c.nan) if c.nan is not None else z3.BoolVal(True)
        interp.ctx.oblige(f"get_dummies.{cname}.level_universe_covers_the_column", z3.Implies(z3.And(*df.axis.facts(), nn), z3.Or(*[c.t == z3.StringVal(v) for v in cands])), kind="alignment", why="the finite universe of level names the harness declared must contain every value of the column")
        for v in cands:
            hit = z3.And(nn, c.t == z3.StringVal(v))
            b = sums.reduce_anyall(interp, V(hit, (df.axis,)), None, "any")
            if interp.ctx.branch(b, f"level_present[{cname}={v}]"):
                out.cols[f"{pfx}{prefix_sep}{v}"] = V(z3.If(hit, z3.IntVal(1), z3.IntVal(0)), (out.axis,), out.index)
    return out


def pandas_table(interp):
    return {
        "concat": pd_concat(interp),
        "isnull": pd_isnull,
        "isna": pd_isnull,
        "merge": lambda l, r, **kw: merge_frames(interp, l, r, **kw),
        "DataFrame": _dataframe_ctor(interp),
        "Series": _series_ctor(interp),
        "get_dummies": lambda data, **kw: (frame_dummies(interp, data, **kw) if isinstance(data, Frame) else (only_kw("get_dummies(Series)", kw), Dummies(interp, data))[1]),
    }


class PlainTable(dict):
    pass


def _dataframe_ctor(interp):
    def DataFrame(data=None, **kw):
        only_kw("frames.DataFrame", kw)
        if isinstance(data, Frame):
            return data._new()
        if isinstance(data, dict) and data and all(isinstance(v, V) and len(v.axes) == 1 for v in data.values()):
            axs = [v.axes[0] for v in data.values()]
            ax0 = axs[0]
            if not all(same_rows(a, ax0) or a is ax0 for a in axs):
                raise Undecided("pd.DataFrame from columns over different rows")
            if not isinstance(ax0, RowAxis):
                raise Undecided("pd.DataFrame from arrays that are not frame rows")
            _use("pd.DataFrame({name: Series}) of Series over the same rows")
            f = Frame(ax0, {}, next((v.series for v in data.values() if v.series is not None), None))
            for k, v in data.items():
                f.cols[k] = V(v.t, (ax0,), f.index, v.nan, v.inf)
            return f
        if isinstance(data, dict):
            # a table assembled from free-standing arrays / scalars (not rows of an existing frame): kept as the
            # column dictionary (pd.DataFrame(dict) builds exactly these columns, scalars broadcast)
            _use("pd.DataFrame({name: array | scalar}): columns as given, scalars broadcast")
            return PlainTable(data)
        raise Undecided("pd.DataFrame constructor form")

    return DataFrame


# ---- harness helpers -----------------------------------------------------------------------------------


def unit_universe(name="units"):
    root = Space(name)
    fips = z3.Function(f"fips_{name}", z3.IntSort(), z3.StringSort())
    set_id_term(root, fips(root.u))
    return root, fips


def base_frame(root, dom, cols, idkey, order=("base",), index=None):
    """a key-unique base table over `root`: dom predicate + columns {name: term | V}"""
    ax = RowAxis(root, [dom], order)
    f = Frame(ax, {}, index or ("range", ax.name), idkey)
    for k, t in cols.items():
        if isinstance(t, V):
            f.cols[k] = V(t.t, (ax,), f.index, t.nan, t.inf)
        else:
            f.cols[k] = V(t, (ax,), f.index)
    return f
