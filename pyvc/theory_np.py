"""Assumed contracts for numpy / math / python builtins over the pointwise value domain (DESIGN 2.3).

Every entry here is part of the trusted base and is listed in evidence files.  Each is written to be the
*strongest* statement that holds of the library function under A-REAL (floats as reals).
"""
import math

import z3

from .values import ANY, only_kw, ONE, ExcVal, Space, SubSpace, SymRaise, Undecided, V, _b, _or, broadcast_axes, fresh_name, ite, num, real, root_space, same_axis, to_term

TRUSTED = []
CUR = None  # the interpreter of the path being executed (set by the harness)  # human-readable list of the assumed contracts actually *used* in a run


def _use(name):
    if name not in TRUSTED:
        TRUSTED.append(name)


def lift(x):
    return x if isinstance(x, V) else V(to_term(x))


# ---- exact arithmetic helpers ------------------------------------------------------------------------


def floor_t(t):
    t = num(t)
    if z3.is_int(t):
        return t
    return z3.ToInt(t)


def ceil_t(t):
    t = num(t)
    if z3.is_int(t):
        return t
    return -z3.ToInt(-t)


def round_half_even_t(t):
    """Exact round-half-to-even of a real term, as an Int term (numpy.round / python round)."""
    t = num(t)
    if z3.is_int(t):
        return t
    f = z3.ToInt(t)
    d = t - z3.ToReal(f)
    half = z3.RealVal("1/2")
    return z3.If(d < half, f, z3.If(d > half, f + 1, z3.If(f % 2 == 0, f, f + 1)))


def np_floor(x):
    _use("numpy.floor(x) = mathematical floor (as a float holding an integer)")
    x = lift(x)
    r = x.like(z3.ToReal(floor_t(x.t)), nan=x.nan, inf=x.inf)
    r.meta = "numpy"
    return r


def np_ceil(x):
    _use("numpy.ceil(x) = mathematical ceiling")
    x = lift(x)
    r = x.like(z3.ToReal(ceil_t(x.t)), nan=x.nan, inf=x.inf)
    r.meta = "numpy"
    return r


def math_floor(x):
    _use("math.floor(x) = mathematical floor, int")
    if not isinstance(x, V):
        return math.floor(x)
    return V(floor_t(x.t))


def math_ceil(x):
    _use("math.ceil(x) = mathematical ceiling, int")
    if not isinstance(x, V):
        return math.ceil(x)
    return V(ceil_t(x.t))


OPAQUE_ROUND = [False]  # set per unit: rounding as an uninterpreted function (congruence only) -- sound, and it
# keeps obligations that only need "same argument => same rounded value" inside linear arithmetic
RND = z3.Function("round_to", z3.RealSort(), z3.IntSort(), z3.RealSort())


def np_round(x, decimals=0):
    _use("numpy.round / Series.round / builtins.round = round-half-to-even at the given decimals (exact, A-REAL)")
    if not isinstance(x, V):
        return round(x, decimals)
    if not isinstance(decimals, int):
        raise Undecided("round with symbolic decimals")
    if z3.is_int(x.t) and decimals >= 0:
        return x  # whole numbers are fixed points of rounding
    if OPAQUE_ROUND[0] and x.axes:
        return x.like(RND(real(x.t), z3.IntVal(decimals)), nan=x.nan, inf=x.inf)
    scale = 10 ** decimals
    r = z3.ToReal(round_half_even_t(real(x.t) * scale)) / scale
    return x.like(r, nan=x.nan, inf=x.inf)


def py_round(x, ndigits=None):
    if not isinstance(x, V):
        return round(x, ndigits)
    if ndigits is None:
        return V(round_half_even_t(x.t))
    return np_round(x, ndigits)


SQRT = z3.Function("pyvc_sqrt", z3.RealSort(), z3.RealSort())
RNDI = z3.Function("pyvc_round_int", z3.RealSort(), z3.IntSort())  # round_to(x, 0) as a whole number


def sqrt_axiom(arg):
    s = SQRT(arg)
    return z3.Implies(arg >= 0, z3.And(s >= 0, s * s == arg))


def np_sqrt(x):
    _use("numpy.sqrt(x) for x >= 0: the s >= 0 with s*s = x (an uninterpreted function; the axiom is instantiated at every application occurring in a VC)")
    if not isinstance(x, V):
        return math.sqrt(x)
    s = SQRT(real(x.t))
    v = x.like(s, nan=_or(x.nan, real(x.t) < 0), inf=x.inf)
    v.meta = ("sqrt", x.t, s)
    CUR.ctx.assume(sqrt_axiom(real(x.t)))
    return v


_AXIOM_CACHE = {}


def axiom_instances(formulas):
    """instances of the axioms of the axiomatised theory functions (sqrt, rounding) at every application occurring in the
    formulas (memoised per top-level formula: the path condition is shared by the obligations of a path)"""
    from .values import tid

    out, have = [], set()
    for f in formulas:
        k = tid(f)
        if k not in _AXIOM_CACHE:
            _AXIOM_CACHE[k] = _axiom_instances1([f])
        for a in _AXIOM_CACHE[k]:
            if a.get_id() not in have:
                have.add(a.get_id())
                out.append(a)
    return out


def _axiom_instances1(formulas):
    seen, out, stack = set(), [], list(formulas)
    while stack:
        t = stack.pop()
        if t.get_id() in seen:
            continue
        seen.add(t.get_id())
        if z3.is_quantifier(t):
            stack.append(t.body())
            continue
        if z3.is_app(t):
            if t.decl().name() == "pyvc_sqrt" and not _has_var(t):
                out.append(sqrt_axiom(t.arg(0)))
            if t.decl().name() == "round_to" and not _has_var(t) and z3.is_int_value(t.arg(1)) and t.arg(1).as_long() == 0:
                # consequences of round-half-even to whole numbers (sound, not the full definition)
                x = t.arg(0)
                out.append(z3.And(z3.IsInt(t), t == z3.ToReal(RNDI(x)), t <= x + z3.RealVal("1/2"), t >= x - z3.RealVal("1/2"), z3.Implies(z3.IsInt(x), t == x)))
            stack.extend(t.children())
    return out


def _has_var(t):
    stack, seen = [t], set()
    while stack:
        x = stack.pop()
        if x.get_id() in seen:
            continue
        seen.add(x.get_id())
        if z3.is_var(x):
            return True
        if z3.is_app(x):
            stack.extend(x.children())
    return False


def np_power(x, p):
    r = lift(x) ** p
    if isinstance(r, V) and r.is_scalar:
        r.meta = "numpy"
    return r


SIDE_FACTS = []  # definitional facts of fresh symbols introduced by theory functions (drained by the harness)


def drain_side_facts():
    out = list(SIDE_FACTS)
    SIDE_FACTS.clear()
    return out


def _mm(a, b, pick_a):
    a, b = lift(a), lift(b)
    axes = broadcast_axes(a.axes, b.axes, "maximum/minimum")
    at, bt = num(a.t), num(b.t)
    if at.sort() != bt.sort():
        at, bt = real(at), real(bt)
    series = a.series if a.series is not None else b.series
    # numpy: NaN propagates
    return V(z3.If(pick_a(at, bt), at, bt), axes, series, _or(a.nan, b.nan), _or(a.inf, b.inf))


def np_maximum(a, b):
    _use("numpy.maximum(a,b) elementwise max with broadcasting (NaN propagates)")
    return _mm(a, b, lambda x, y: x >= y)


def np_minimum(a, b):
    _use("numpy.minimum(a,b) elementwise min with broadcasting (NaN propagates)")
    return _mm(a, b, lambda x, y: x <= y)


def np_where(c, a=None, b=None):
    if a is None:
        raise Undecided("np.where with one argument (index list)")
    _use("numpy.where(c,a,b) elementwise selection with broadcasting")
    return ite(c, a, b)


def np_clip(x, a_min=None, a_max=None):
    _use("numpy.clip(x,lo,hi) = minimum(maximum(x,lo),hi)")
    r = lift(x)
    if a_min is not None:
        r = np_maximum(r, a_min)
    if a_max is not None:
        r = np_minimum(r, a_max)
    return r


def np_abs(x):
    if not isinstance(x, V):
        return abs(x)
    r = abs(x)
    if r.inf is not None:
        r.meta = "posinf"  # |+-inf| = +inf
    return r


def np_isclose(a, b, rtol=1e-05, atol=1e-08):
    _use("numpy.isclose(a,b) <=> |a-b| <= atol + rtol*|b| (NaN -> False)")
    a, b = lift(a), lift(b)
    if z3.is_bool(a.t) or z3.is_bool(b.t) or a.t.sort() == z3.StringSort():
        raise Undecided("isclose on non-numeric")
    d = abs(a - b)
    rhs = abs(b) * rtol + atol
    r = d <= rhs
    nanc = _or(a.nan, b.nan)
    if nanc is not None:
        r = V(z3.And(z3.Not(nanc), r.t), r.axes, r.series)
    return r


def np_nan_to_num(x, copy=True, nan=0.0, posinf=None, neginf=None):
    _use("numpy.nan_to_num(x,nan,posinf,neginf): NaN->nan, +-inf->posinf/neginf (default: largest finite float, modelled as an unconstrained value), finite unchanged")
    if not isinstance(x, V):
        return x
    t = real(x.t)
    if x.inf is not None:
        if posinf is not None and neginf is not None and posinf == neginf:
            t = z3.If(x.inf, real(to_term(posinf)), t)
        else:
            # +-inf -> +-(largest finite float): a value determined by the input (same input term, same value)
            cache = CUR.ctx.__dict__.setdefault("_huge", {}) if CUR is not None else {}
            from .values import tid

            key = tid(x.t)
            if key not in cache:
                args = [root_space(a).u for a in x.axes if a is not ONE]
                if args:
                    cache[key] = z3.Function(fresh_name("huge"), *([z3.IntSort()] * len(args) + [z3.RealSort()]))(*args)
                else:
                    cache[key] = z3.Real(fresh_name("huge"))
            t = z3.If(x.inf, cache[key], t)
    if x.nan is not None:
        t = z3.If(x.nan, real(to_term(nan)), t)
    return V(t, x.axes, None)


def np_isnan(x):
    x = lift(x)
    return V(x.nan if x.nan is not None else z3.BoolVal(False), x.axes, x.series)


def np_full(shape, fill_value):
    _use("numpy.full(n, c): constant array")
    if isinstance(shape, SeqLen):
        return V(to_term(fill_value) if fill_value is not None else z3.IntVal(-999999), (shape.space,), meta=("full", fill_value))
    raise Undecided("np.full with a shape that is not len(<symbolic sequence>)")


def np_asarray(x, *a, **k):
    only_kw("theory_np.np_asarray", k)
    if a:
        raise Undecided("np.asarray with a positional dtype")
    if isinstance(x, V):
        return V(x.t, x.axes, None, x.nan, x.inf)
    if hasattr(x, "as_v"):
        return x.as_v()
    if isinstance(x, (list, tuple)) and all(isinstance(e, str) for e in x):
        from .colwise import StrArray

        return StrArray(x)
    raise Undecided("np.asarray of a python container")


class UniqueVals:
    """Series.unique(): `x in s.unique()`  <=>  some row holds x (a boolean symbol with Skolem witness)"""

    def __init__(self, v):
        self.v = v

    def pyvc_contains(self, interp, x):
        from . import sums

        v = self.v
        hit = v == x
        t = hit.t if v.nan is None else z3.And(z3.Not(v.nan), hit.t)
        r = sums.reduce_anyall(interp, V(t, v.axes), None, "any")
        interp.__dict__.setdefault("unique_tests", []).append((x, r))
        return r


class SeqLen:
    """len() of a symbolic sequence: an Int term that remembers its space (so np.full(len(xs), c) is over xs)."""

    def __init__(self, space):
        self.space = space
        self.v = V(space.n if z3.is_expr(space.n) else z3.IntVal(space.n))

    def __getattr__(self, k):
        return getattr(self.v, k)

    def _cmp(self, op, o):
        return getattr(self.v, op)(o)

    def __gt__(self, o):
        return self.v > o

    def __ge__(self, o):
        return self.v >= o

    def __lt__(self, o):
        return self.v < o

    def __le__(self, o):
        return self.v <= o

    def __eq__(self, o):
        return self.v == o

    def __ne__(self, o):
        return self.v != o

    def __hash__(self):
        return id(self)

    def __add__(self, o):
        return self.v + o

    def __radd__(self, o):
        return o + self.v

    def __sub__(self, o):
        return self.v - o

    def __rsub__(self, o):
        return o - self.v

    def __mul__(self, o):
        return self.v * o

    def __rmul__(self, o):
        return o * self.v

    def __truediv__(self, o):
        return self.v / o

    def __rtruediv__(self, o):
        return o / self.v


# ---- quantile ------------------------------------------------------------------------------------


class QuantileRegistry:
    """np.quantile(x, q, axis) along one axis: an uninterpreted function of the remaining indices and q,
    monotone in q and lying between the minimum and maximum of the reduced entries (assumed contract).
    Monotonicity instances are produced for every pair of q-terms used on the same array."""

    def __init__(self):
        self.calls = {}  # key -> list of (qterm, resultterm)

    def instance(self, ctx, key, fn, idx, q):
        r = fn(*idx, q)
        lst = self.calls.setdefault(key, [])
        for q2, r2 in lst:
            ctx.assume(z3.Implies(q <= q2, r <= r2))
            ctx.assume(z3.Implies(q2 <= q, r2 <= r))
        lst.append((q, r))
        return r


def make_np_quantile(interp):
    def np_quantile(x, q=None, axis=None, **kw):
        only_kw("theory_np.np_quantile", kw)
        _use("numpy.quantile(x,q,axis): raises ValueError unless 0<=q<=1; monotone non-decreasing in q; a function of (x, q) only")
        if kw:
            raise Undecided(f"np.quantile options {sorted(kw)}")
        if not isinstance(x, V):
            raise Undecided("np.quantile of a non-symbolic array")
        qs = q if isinstance(q, (list, tuple)) else [q]
        for qq in qs:
            qv = lift(qq)
            bad = V(z3.Or(real(qv.t) < 0, real(qv.t) > 1))
            if interp.ctx.branch(bad, "quantile-range"):
                raise SymRaise(ExcVal("ValueError", ("Quantiles must be in the range [0, 1]",)))
        nd = len(x.axes)
        if axis is None:
            if nd != 1:
                raise Undecided("np.quantile(axis=None) of a multi-dimensional array")
            axis = 0
        if axis < 0:
            axis += nd
        red = x.axes[axis]
        rest = tuple(a for i, a in enumerate(x.axes) if i != axis)
        reg = interp.ctx.__dict__.setdefault("_quant", QuantileRegistry())
        from .values import tid

        key = (tid(x.t), axis)
        idx = [root_space(a).u for a in rest if a is not ONE]
        fns = interp.ctx.__dict__.setdefault("_quant_fns", {})
        fn = fns.get(key)
        if fn is None:
            # the same array computed twice (e.g. once per requested level): provably equal entries => same quantiles
            for (k2, (f2, x2, ax2)) in list(interp.ctx.__dict__.setdefault("_quant_arrays", {}).items()):
                if ax2 == axis and len(x2.axes) == len(x.axes) and all(same_axis(p, q) for p, q in zip(x2.axes, x.axes)) and x2.t.sort() == x.t.sort():
                    sv = z3.Solver()
                    sv.set("timeout", 3000)
                    for f_ in interp.ctx.pc:
                        sv.add(f_)
                    sv.add(x2.t != x.t)
                    if sv.check() == z3.unsat:
                        fn = f2
                        key = k2
                        break
        if fn is None:
            fn = z3.Function(fresh_name("quantile"), *([z3.IntSort()] * len(idx) + [z3.RealSort(), z3.RealSort()]))
            interp.ctx._quant_arrays[key] = (fn, x, axis)
        fns[key] = fn
        outs = []
        for qq in qs:
            qt = real(lift(qq).t)
            r = reg.instance(interp.ctx, key, fn, idx, qt)
            outs.append(V(r, rest, None, meta=("quantile", x, red, qt)))
        if isinstance(q, (list, tuple)):
            return VStack(outs, 0)
        return outs[0]

    return np_quantile


class VStack:
    """An array with one concrete (python-length) axis at position `pos`, the other axes symbolic."""

    def __init__(self, comps, pos):
        self.comps = list(comps)
        self.pos = pos

    @property
    def ndim(self):
        return len(self.comps[0].axes) + 1

    @property
    def T(self):
        n = self.ndim
        return VStack([V(c.t, tuple(reversed(c.axes)), None, c.nan, c.inf) for c in self.comps], n - 1 - self.pos)

    def pyvc_getattr(self, interp, name):
        if name == "T":
            return self.T
        if name == "astype":
            return lambda ty, **k: (only_kw("astype", k), VStack([v_getattr(interp, c, "astype")(ty) for c in self.comps], self.pos))[1]
        raise Undecided(f"VStack.{name}")

    def _bin(self, opname, o, rev):
        import operator

        ops = {"Add": operator.add, "Sub": operator.sub, "Mult": operator.mul, "Div": operator.truediv}
        if opname not in ops:
            return NotImplemented
        op = ops[opname]
        if isinstance(o, VStack):
            raise Undecided("VStack op VStack")
        o = lift(o)
        n = self.ndim
        oaxes = (ONE,) * (n - len(o.axes)) + tuple(o.axes) if len(o.axes) <= n else None
        if oaxes is None:
            raise Undecided("VStack broadcast rank")
        if oaxes[self.pos] is not ONE:
            raise Undecided("VStack broadcast against a non-unit axis")
        o2 = V(o.t, tuple(a for i, a in enumerate(oaxes) if i != self.pos), None, o.nan, o.inf)
        return VStack([(op(o2, c) if rev else op(c, o2)) for c in self.comps], self.pos)

    def pyvc_binop(self, interp, opname, o, rev):
        return self._bin(opname, o, rev)

    def pyvc_unpack(self, n):
        if self.pos != 0:
            raise Undecided("unpacking a stacked array along a symbolic axis")
        return list(self.comps)

    def pyvc_getitem(self, interp, key):
        if self.pos == 0 and isinstance(key, int):
            return self.comps[key]
        raise Undecided("VStack indexing")


# ---- reductions ----------------------------------------------------------------------------------


def make_reductions(interp):
    from . import sums

    def np_sum(x, axis=None, **kw):
        only_kw("theory_np.np_sum", kw)
        if isinstance(x, (list, tuple)):
            return sum(x)
        return sums.reduce_sum(interp, lift(x), axis)

    def np_mean(x, axis=None, **kw):
        only_kw("theory_np.np_mean", kw)
        return sums.reduce_mean(interp, lift(x), axis)

    def _scalar(x):
        x = x.v if isinstance(x, SeqLen) else x
        v = lift(x)
        return v if not [a for a in v.axes if a is not ONE] else None

    def np_min(x, axis=None, **kw):
        only_kw("theory_np.np_min", kw)
        s0 = _scalar(x)
        if s0 is not None and axis is None:
            return s0  # numpy.min of a scalar is the scalar
        return sums.reduce_minmax(interp, lift(x), axis, "min")

    def np_max(x, axis=None, **kw):
        only_kw("theory_np.np_max", kw)
        s0 = _scalar(x)
        if s0 is not None and axis is None:
            return s0
        return sums.reduce_minmax(interp, lift(x), axis, "max")

    return {"sum": np_sum, "mean": np_mean, "min": np_min, "max": np_max, "nanmean": np_mean}


# ---- V attribute / item protocol -----------------------------------------------------------------


class SortedPos:
    """the position Series.searchsorted returned (see v_getattr): first row of a sorted frame whose running total reaches x"""

    def __init__(self, col, value, side):
        self.col, self.value, self.side = col, value, side


class SeriesILoc:
    """Series.iloc: only [SortedPos] on a column of the SAME sorted frame, and only for the column the frame is sorted by:
    the rows are in ascending order of it and the running total is non-decreasing along them, so the first row whose total
    reaches x carries the SMALLEST sort value among the rows whose total reaches x (lemma prefix_le); no such row ->
    position = number of rows -> IndexError"""

    def __init__(self, v):
        self.v = v

    def pyvc_getitem(self, interp, key):
        from . import sums
        from .frames import RowAxis
        from .values import ExcVal, SymRaise, same_axis

        v = self.v
        if not isinstance(key, SortedPos):
            raise Undecided("Series.iloc with a key that is not a searchsorted position")
        c = key.col
        ax = v.axes[0] if len(v.axes) == 1 else None
        if not (isinstance(ax, RowAxis) and len(c.axes) == 1 and same_axis(c.axes[0], ax) and len(ax.doms) == 1 and getattr(ax, "sortkey", None) and len(ax.sortkey) == 1):
            raise Undecided("iloc[searchsorted position] across different frames")
        if not z3.eq(z3.simplify(real(v.t)), z3.simplify(real(ax.sortkey[0]))):
            raise Undecided("iloc[searchsorted position] of a column the frame is not sorted by")
        x = real(to_term(key.value))
        reach = (real(c.t) >= x) if key.side == "left" else (real(c.t) > x)
        _use("prefix_le / prefix_ge / prefix_last_tie")
        new = RowAxis(ax.root, [z3.And(ax.doms[0], reach)], ax.order)
        new.sortkey = list(ax.sortkey)
        sel = V(v.t, (new,), None, v.nan, v.inf)
        m = sums.reduce_minmax(interp, sel, None, "min")
        # ghost instantiation: the LAST row of the sorted frame carries the whole total -- if the total reaches x, a row does
        cm, mn = c.meta[1], m.meta[1]
        for i in [cm["lastrow"], mn["witness"]] + list(getattr(interp, "ghost_rows", [])):
            cm["instantiate"](interp.ctx, i)
            mn["instantiate"](interp.ctx, i)
        if m.nan is not None and interp.ctx.branch(V(m.nan), "searchsorted-past-the-end"):
            raise SymRaise(ExcVal("IndexError", ("single positional indexer is out-of-bounds",)))
        return V(m.t, m.axes, None, None, m.inf, m.meta)


def v_getattr(interp, v, name):
    from . import sums

    if name in ("values", "to_numpy"):
        r = V(v.t, v.axes, None, v.nan, v.inf)
        if [a for a in v.axes if a is not ONE]:
            r.view_of = v  # shares memory with the Series (read-only under copy-on-write): in-place operations leave the subset
        if name == "values":
            return r

        def to_numpy(dtype=None, **k):
            only_kw("Series.to_numpy", k, copy=ANY)
            if dtype is not None and getattr(dtype, "__name__", str(dtype)) not in ("float", "py_float", "float64"):
                raise Undecided(f"to_numpy(dtype={dtype!r})")
            return r

        return to_numpy
    if name == "T":
        r = V(v.t, tuple(reversed(v.axes)), None, v.nan, v.inf)
        r.view_of = v
        return r
    if name == "shape":
        return tuple(_axis_len(a) for a in v.axes)
    if name == "copy":
        def copy(deep=True, **k):
            only_kw("copy", k, order=ANY)
            if deep is not True:
                raise Undecided("copy(deep=False) aliases the data")
            return V(v.t, v.axes, v.series, v.nan, v.inf, v.meta)

        return copy
    if name == "flatten":

        def flatten():
            real_axes = [a for a in v.axes if a is not ONE]
            if len(real_axes) > 1:
                raise Undecided("flatten of a genuinely 2-D array")
            return V(v.t, tuple(real_axes), None, v.nan, v.inf, v.meta)

        return flatten
    if name == "reshape":

        def reshape(*shape):
            if len(shape) == 1 and isinstance(shape[0], tuple):
                shape = shape[0]
            real_axes = [a for a in v.axes if a is not ONE]
            if shape == (-1, 1):
                if len(real_axes) > 1:
                    raise Undecided("reshape(-1,1) of a 2-D array")
                return V(v.t, tuple(real_axes) + (ONE,) if real_axes else (ONE, ONE), None, v.nan, v.inf, v.meta)
            if shape == (-1,):
                if len(real_axes) > 1:
                    raise Undecided("reshape(-1) of a 2-D array")
                return V(v.t, tuple(real_axes), None, v.nan, v.inf, v.meta)
            if shape == (1, -1):
                if len(real_axes) > 1:
                    raise Undecided("reshape(1,-1) of a 2-D array")
                return V(v.t, (ONE,) + tuple(real_axes), None, v.nan, v.inf)
            raise Undecided(f"reshape{shape}")

        return reshape
    if name == "round":
        return lambda decimals=0: np_round(v, decimals)
    if name == "astype":

        def astype(ty, **k):
            only_kw("theory_np.astype", k)
            tyname = getattr(ty, "__name__", str(ty))
            tyname = {"py_int": "int", "py_float": "float", "py_str": "str"}.get(tyname, tyname)
            if tyname in ("int", "int64", "<class 'int'>"):
                if v.is_bool:
                    return v.like(num(v.t))
                _use("astype(int): truncation toward zero")
                t = real(v.t)
                return v.like(z3.If(t >= 0, z3.ToInt(t), -z3.ToInt(-t)))
            if tyname in ("bool",):
                return v.like(_b(v.t))
            if tyname in ("float", "float64"):
                return v.like(real(v.t), nan=v.nan, inf=v.inf)
            raise Undecided(f"astype({tyname})")

        return astype
    if name == "sum":
        return lambda axis=None, **k: (only_kw("sum", k), sums.reduce_sum(interp, v, axis))[1]
    if name == "mean":
        return lambda axis=None, **k: (only_kw("mean", k), sums.reduce_mean(interp, v, axis))[1]
    if name in ("min", "max"):
        return lambda axis=None, **k: (only_kw(name, k), sums.reduce_minmax(interp, v, axis, name))[1]
    if name in ("any", "all"):
        return lambda axis=None, **k: (only_kw(name, k), sums.reduce_anyall(interp, v, axis, name))[1]
    if name == "ndim":
        return len(v.axes)
    if name == "isin":
        from . import frames

        return lambda values: frames.series_isin(interp, v, values)
    if name in ("tolist", "to_list"):
        from . import frames
        from .seq import SymSeq

        if len(v.axes) != 1:
            raise Undecided("tolist of non-1-D")
        if isinstance(v.axes[0], frames.RowAxis):
            return lambda: frames.ColList(v)
        return lambda: SymSeq(v.axes[0], v.t)
    if name == "apply":

        def apply(fn, **kw):
            only_kw("theory_np.apply", kw)
            _use("Series.apply(f): f applied to every element (pointwise)")
            r = fn(V(v.t, (), None, v.nan, v.inf))
            r = lift(r)
            return V(r.t, v.axes, v.series, r.nan, r.inf)

        return apply
    if name == "str":
        return StrAccessor(v)
    if name == "clip":

        def clip(min=None, max=None, lower=None, upper=None, **kw):
            only_kw("theory_np.clip", kw)
            return np_clip(v, a_min=min if min is not None else lower, a_max=max if max is not None else upper)

        return clip
    if name == "std":
        from . import sums as _s

        # (the VALUE of a standard deviation is not modelled -- a fresh non-negative symbol -- so ddof does not matter)
        return lambda axis=None, **k: (only_kw("std", k, ddof=ANY), _s.reduce_opaque(interp, v, axis, "std", nonneg=True))[1]
    if name == "split" and z3.is_string(v.t) and not v.axes:
        return lambda sep=None, maxsplit=-1: str_split(v, sep, maxsplit)
    if name in ("div", "truediv", "divide"):

        def div(other, fill_value=None, **kw):
            """Series.div(other, fill_value): a cell missing on ONE side is replaced by fill_value before dividing; what the
            division itself produces (0/0 -> NaN, x/0 -> inf) is NOT replaced"""
            only_kw("Series.div", kw, axis=ANY, level=(None,))
            _use("Series.div(other, fill_value=f): cells missing on exactly one side are filled with f first; 0/0 stays NaN, x/0 stays infinite")
            o = other if isinstance(other, V) else V(to_term(other))
            if fill_value is None:
                return v / o
            f = real(to_term(fill_value))
            an = v.nan if v.nan is not None else z3.BoolVal(False)
            bn = o.nan if o.nan is not None else z3.BoolVal(False)
            a2 = V(z3.If(z3.And(an, z3.Not(bn)), f, real(v.t)), v.axes, v.series, z3.And(an, bn) if v.nan is not None else None, v.inf, v.meta)
            b2 = V(z3.If(z3.And(bn, z3.Not(an)), f, real(o.t)), o.axes, o.series, z3.And(an, bn) if o.nan is not None else None, o.inf, o.meta)
            return a2 / b2

        return div
    if name == "cumsum":
        from . import sums as _s

        return lambda **k: (only_kw("cumsum", k), _s.cumsum_sorted(interp, v))[1]
    if name == "searchsorted":
        # Series.searchsorted on the running total of a frame sorted by one key (the only non-decreasing column the subset
        # knows): a POSITION in that frame -- the first row whose running total is >= value ('left') / > value ('right').
        # Only `other_column.iloc[position]` of the same frame is modelled (below).
        if not (isinstance(v.meta, tuple) and v.meta and v.meta[0] == "cumsum"):
            raise Undecided("searchsorted on a column that is not the running total of a sorted frame")

        def searchsorted(value, side="left", **kw):
            only_kw("Series.searchsorted", kw, sorter=(None,))
            if side not in ("left", "right"):
                raise Undecided(f"searchsorted(side={side!r})")
            _use("Series.searchsorted(x, side) on a non-decreasing column: position of the first row with value >= x ('left') / > x ('right'); the number of rows if there is none")
            return SortedPos(v, value, side)

        return searchsorted
    if name == "iloc":
        return SeriesILoc(v)
    if name == "between":

        def between(left, right, inclusive="both"):
            _use("Series.between(l, r, inclusive): l <= x <= r ('both'), strict on the excluded side(s) otherwise")
            lo = (v >= left) if inclusive in ("both", "left") else (v > left)
            hi = (v <= right) if inclusive in ("both", "right") else (v < right)
            return lo & hi

        return between
    if name == "reset_index":
        def reset_index(drop=False, **k):
            only_kw("Series.reset_index", k, inplace=(False,))
            if drop is not True:
                raise Undecided("Series.reset_index(drop=False) returns a DataFrame")
            return V(v.t, v.axes, ("range", getattr(v.axes[0], "name", "?")), v.nan, v.inf)

        return reset_index
    if name == "isna" or name == "isnull":
        return lambda: V(v.nan if v.nan is not None else z3.BoolVal(False), v.axes, v.series)
    if name == "notnull" or name == "notna":
        return lambda: V(z3.Not(v.nan) if v.nan is not None else z3.BoolVal(True), v.axes, v.series)
    if name == "fillna":

        def fillna(value=None, **kw):
            only_kw("theory_np.fillna", kw)
            if v.nan is None:
                return v
            vt, ct = to_term(value), v.t
            if vt.sort() != ct.sort():
                vt, ct = real(vt), real(ct)
            return V(z3.If(v.nan, vt, ct), v.axes, v.series, None, v.inf)

        return fillna
    if name == "unique":
        _use("Series.unique(): the set of values that occur (only membership tests are modelled)")
        return lambda: UniqueVals(v)
    if name == "where":

        def where(cond, other=float("nan"), **kw):
            only_kw("theory_np.where", kw)
            _use("Series.where(cond, other): the value where cond holds, `other` elsewhere")
            if kw:
                raise Undecided("Series.where options")
            return np_where(cond, v, other)

        return where
    raise Undecided(f"attribute .{name} of a symbolic array has no theory entry")


ALIAS = {}  # z3 string term id -> an equal term in concatenation form (stated as a precondition by the harness)
SEPFREE = {}  # z3 string term id -> set of separators the term is known not to contain (precondition of a harness)


def _concat_pieces(t):
    if z3.is_app(t) and t.decl().kind() == z3.Z3_OP_SEQ_CONCAT:
        out = []
        for c in t.children():
            out += _concat_pieces(c)
        return out
    return [t]


def str_split(v, sep, maxsplit=-1):
    """str.split(sep[, maxsplit]) of a string built as a concatenation of pieces: literal pieces equal to `sep`
    separate components; every other piece must be known not to contain `sep` (literal without it, or a symbolic
    piece registered in SEPFREE by the harness' precondition)."""
    _use("str.split(sep, maxsplit) on a concatenation of separator-free pieces")
    if not isinstance(sep, str) or len(sep) != 1:
        raise Undecided("split with a non-literal / multi-character separator")
    comps, cur = [], []
    vt = ALIAS.get(v.t.get_id(), v.t)
    for p in _concat_pieces(vt):
        if z3.is_string_value(p):
            lit = p.as_string()
            if lit == sep:
                comps.append(cur)
                cur = []
                continue
            if sep in lit:
                raise Undecided("literal piece containing the separator inside")
            cur.append(p)
        else:
            if sep not in SEPFREE.get(p.get_id(), ()):
                raise Undecided(f"split of a string piece not known to be free of {sep!r}")
            cur.append(p)
    comps.append(cur)

    def join(ps):
        if not ps:
            return z3.StringVal("")
        return ps[0] if len(ps) == 1 else z3.Concat(*ps)

    if maxsplit is not None and maxsplit >= 0 and len(comps) > maxsplit + 1:
        head = comps[:maxsplit]
        rest = []
        for i, c in enumerate(comps[maxsplit:]):
            if i:
                rest.append(z3.StringVal(sep))
            rest += c
        comps = head + [rest]
    return [V(join(c)) for c in comps]


class StrAccessor:
    def __init__(self, v):
        self.v = v

    def pyvc_getattr(self, interp, name):
        v = self.v
        if not z3.is_string(v.t):
            raise Undecided(".str on a non-string column")
        if name == "startswith":
            _use("Series.str.startswith(p): prefix test per element (null -> null, falsy in a mask)")
            return lambda p: V(z3.PrefixOf(to_term(p), v.t), v.axes, v.series, v.nan)
        if name == "contains":
            return lambda p: V(z3.Contains(v.t, to_term(p)), v.axes, v.series, v.nan)
        raise Undecided(f".str.{name}")


def _axis_len(a):
    if a is ONE:
        return 1
    return SeqLen(a)


def v_getitem(interp, v, key):
    if isinstance(key, int) or (isinstance(key, V) and not key.is_bool and z3.is_int(key.t) and key.axes):
        from . import theory_seq

        return theory_seq.v_index(interp, v, key)
    if isinstance(key, V):
        if key.is_bool:
            # boolean mask selection along the leading axis
            if len(key.axes) != 1 and not (len(key.axes) == len(v.axes)):
                raise Undecided("mask rank")
            if len(v.axes) == 1 and len(key.axes) == 1 and same_axis(v.axes[0], key.axes[0]):
                sub = SubSpace(v.axes[0], key.t)
                return V(v.t, (sub,), v.series, v.nan, v.inf)
            raise Undecided("boolean mask over different rows than the array")
        raise Undecided("integer-array indexing")
    if isinstance(key, slice):
        raise Undecided("slice of a symbolic array (needs segment arithmetic)")
    raise Undecided(f"indexing a symbolic array with {type(key).__name__}")


def v_setitem(interp, v, key, val):
    if isinstance(key, V) and key.is_bool:
        if len(v.axes) == 1 and len(key.axes) == 1 and same_axis(v.axes[0], key.axes[0]):
            valv = lift(val)
            if valv.axes:
                ax = valv.axes[0]
                if not (isinstance(ax, SubSpace) and same_axis(ax.parent, v.axes[0])):
                    raise Undecided("masked assignment from an array over other rows")
                # the right-hand side must have been selected by the *same* mask (numpy requires equal counts;
                # positional correspondence holds iff the masks agree)
                s = z3.Solver()
                s.set("timeout", 3000)
                for f in interp.ctx.pc:
                    s.add(f)
                s.add(ax.mask != key.t)
                if s.check() != z3.unsat:
                    raise Undecided("masked assignment whose right-hand side was selected by a different mask")
            return ite(key, V(valv.t, (), None, valv.nan, valv.inf) if not valv.axes else V(valv.t, v.axes, None, valv.nan, valv.inf), v)
        raise Undecided("masked assignment over different rows")
    if isinstance(key, V) and key.is_scalar and len(v.axes) == 1:
        # x[i] = val at the generic index of a pointwise loop
        sp = root_space(v.axes[0])
        if z3.eq(key.t, sp.u):
            valv = lift(val)
            return V(valv.t if valv.t.sort() == v.t.sort() else real(valv.t) if not z3.is_bool(v.t) else valv.t, v.axes, v.series, valv.nan, valv.inf)
        raise Undecided("assignment at a symbolic index other than the loop index")
    raise Undecided("item assignment on a symbolic array")


# ---- builtins ------------------------------------------------------------------------------------


def py_len(x):
    if hasattr(x, "pyvc_len"):
        return x.pyvc_len(CUR)
    if isinstance(x, V):
        if not x.axes:
            raise SymRaise(ExcVal("TypeError", ("len() of unsized object",)))
        return _axis_len(x.axes[0])
    return len(x)


def py_min(*args, **kw):
    if len(args) == 1:
        args = tuple(args[0])
    args = tuple(a.v if isinstance(a, SeqLen) else a for a in args)
    if not any(isinstance(a, V) for a in args):
        return min(*args, **kw)
    r = args[0]
    for a in args[1:]:
        r = np_minimum(r, a)
    return r


def py_max(*args, **kw):
    if len(args) == 1:
        args = tuple(args[0])
    args = tuple(a.v if isinstance(a, SeqLen) else a for a in args)
    if not any(isinstance(a, V) for a in args):
        return max(*args, **kw)
    r = args[0]
    for a in args[1:]:
        r = np_maximum(r, a)
    return r


def py_int(x=0, *a):
    if isinstance(x, V):
        if z3.is_int(x.t):
            return x
        if z3.is_bool(x.t):
            return V(num(x.t))
        t = real(x.t)
        _use("int(x): truncation toward zero")
        return V(z3.If(t >= 0, z3.ToInt(t), -z3.ToInt(-t)))
    if isinstance(x, SeqLen):
        return x
    return int(x, *a)


def py_float(x=0.0):
    if isinstance(x, V):
        return V(real(x.t), x.axes, x.series, x.nan, x.inf)
    return float(x)


def py_abs(x):
    return abs(x)


def py_str(x=""):
    if isinstance(x, V):
        if z3.is_string(x.t):
            return x
        if z3.is_int(x.t):
            return V(z3.IntToStr(x.t), x.axes)
        # the decimal text of a real number is not modelled: an opaque string (only used in messages)
        return V(z3.String(fresh_name("str_of_number")), x.axes)
    return str(x)


_TYPEMAP = {}


def py_isinstance(x, t):
    from . import frames

    ts = t if isinstance(t, tuple) else (t,)
    real_ts = []
    for ty in ts:
        ty = _TYPEMAP.get(ty, ty)
        if ty == "DataFrame":
            if isinstance(x, frames.Frame):
                return True
            continue
        if isinstance(ty, type):
            real_ts.append(ty)
        elif hasattr(ty, "clsnode"):  # elexmodel class reference
            from .values import Obj
            from . import source

            if isinstance(x, Obj) and x.clsnode is not None:
                if any(c is ty.clsnode for _, c in source.mro(x.mod, x.clsnode)):
                    return True
            continue
        else:
            raise Undecided(f"isinstance against {ty!r}")
    if isinstance(x, V):
        if x.is_scalar:
            srt = x.t.sort()
            for ty in real_ts:
                if ty is float and srt == z3.RealSort():
                    return True
                if ty is int and srt == z3.IntSort():
                    return True
                if ty is bool and srt == z3.BoolSort():
                    return True
                if ty is str and srt == z3.StringSort():
                    return True
            return False
        return False
    return isinstance(x, tuple(real_ts)) if real_ts else False


def py_next(it, *default):
    it = list(it) if not isinstance(it, list) else it
    if it:
        return it[0]
    if default:
        return default[0]
    raise SymRaise(ExcVal("StopIteration", ()))


def py_set(x=()):
    if hasattr(x, "pyvc_set"):
        return x.pyvc_set()
    return set(x)


def py_list(x=()):
    if hasattr(x, "pyvc_list"):
        return x.pyvc_list()
    return list(x)


def py_enumerate(x, start=0):
    if hasattr(x, "pyvc_enumerate"):
        return x.pyvc_enumerate()
    return list(enumerate(x, start))


def py_sorted(x, key=None, reverse=False):
    if hasattr(x, "pyvc_sorted"):
        return x.pyvc_sorted(key, reverse)
    return sorted(x, key=key, reverse=reverse)


def py_sum(x, start=0):
    acc = start
    for i in x:
        acc = acc + i
    return acc


class SymRange:
    """range(len(<symbolic sequence>)): the indices 0 .. n-1 of the sequence's index space, in order"""

    def __init__(self, space):
        self.space = space

    def pyvc_dictcomp(self, interp, kv_fn):
        """{i: value(i) for i in range(n)}: only the form whose KEY is the index itself is modelled -- a dict with n entries
        whose items sorted by key are in index order"""
        from .theory_misc import SymDict

        sp = self.space
        k, v = kv_fn(V(sp.u))
        if not (isinstance(k, V) and z3.eq(z3.simplify(k.t), sp.u)):
            raise Undecided("dict comprehension over a symbolic range whose key is not the index")
        v = v if isinstance(v, V) else V(to_term(v))
        if v.axes:
            raise Undecided("dict comprehension with a non-scalar value")
        _use("{i: f(i) for i in range(n)}: a dict with n entries; its items sorted by key are in index order")
        return SymDict(sp, sp.n if z3.is_expr(sp.n) else z3.IntVal(sp.n), v.t)


def py_range(*args):
    if len(args) == 1 and isinstance(args[0], SeqLen):
        return SymRange(args[0].space)
    if any(isinstance(x, (V, SeqLen)) for x in args):
        raise Undecided("range over a symbolic bound")
    return range(*args)


def builtins_table():
    from .interp import ExcClass

    t = {
        "len": py_len,
        "min": py_min,
        "max": py_max,
        "round": py_round,
        "int": py_int,
        "float": py_float,
        "abs": py_abs,
        "str": py_str,
        "isinstance": py_isinstance,
        "set": py_set,
        "list": py_list,
        "tuple": tuple,
        "dict": dict,
        "bool": bool,
        "enumerate": py_enumerate,
        "sorted": py_sorted,
        "sum": py_sum,
        "zip": lambda *a: list(zip(*a)),
        "range": py_range,
        "any": lambda x: any(x),
        "all": lambda x: all(x),
        "bool": bool,
        "filter": lambda f, xs: xs.pyvc_filter(f) if hasattr(xs, "pyvc_filter") else [x for x in xs if f(x)],
        "map": lambda f, xs: [f(x) for x in xs],
        "print": lambda *a, **k: None,
        "next": py_next,
        "reversed": lambda x: list(reversed(x)),
        "hasattr": lambda o, n: hasattr(o, n),
        "True": True,
        "False": False,
        "None": None,
    }
    _TYPEMAP.update({py_list: list, py_int: int, py_float: float, py_str: str, py_set: set})
    for e, bases in [
        ("Exception", ()),
        ("ValueError", ()),
        ("TypeError", ()),
        ("KeyError", ("LookupError",)),
        ("IndexError", ("LookupError",)),
        ("ZeroDivisionError", ("ArithmeticError",)),
        ("NotImplementedError", ("RuntimeError",)),
        ("UserWarning", ("Warning",)),
        ("AssertionError", ()),
        ("AttributeError", ()),
        ("RuntimeError", ()),
    ]:
        t[e] = ExcClass(e, bases)
    return t


def numpy_table(interp):
    t = {
        "floor": np_floor,
        "ceil": np_ceil,
        "round": np_round,
        "sqrt": np_sqrt,
        "power": np_power,
        "maximum": np_maximum,
        "minimum": np_minimum,
        "where": np_where,
        "clip": np_clip,
        "abs": np_abs,
        "isclose": np_isclose,
        "nan_to_num": np_nan_to_num,
        "isnan": np_isnan,
        "isfinite": lambda x: ~V(_or(lift(x).nan, lift(x).inf) if _or(lift(x).nan, lift(x).inf) is not None else z3.BoolVal(False), lift(x).axes, lift(x).series),
        "isinf": lambda x: V(lift(x).inf if lift(x).inf is not None else z3.BoolVal(False), lift(x).axes, lift(x).series),
        "full": np_full,
        "asarray": np_asarray,
        "array": np_asarray,
        "quantile": make_np_quantile(interp),
        "nan": float("nan"),
        "inf": float("inf"),
        "int64": py_int,
        "float64": py_float,
    }
    t.update(make_reductions(interp))
    return t


def math_table():
    return {"floor": math_floor, "ceil": math_ceil, "sqrt": np_sqrt, "isclose": np_isclose, "inf": float("inf"), "pi": math.pi}


def make_theories(interp):
    from . import frames

    pdt = frames.pandas_table(interp)
    return {
        "pandas": pdt,
        "pd": pdt,
        "builtins": builtins_table(),
        "numpy": numpy_table(interp),
        "np": numpy_table(interp),
        "math": math_table(),
        "__getattr__": v_getattr,
        "__getitem__": v_getitem,
        "__setitem__": v_setitem,
    }
