"""Contract/harness API and the per-property runner.

A *unit* is one verification task over one real function: a python function `unit(h)` that
  1. declares symbolic inputs and `requires` clauses (from call sites / the input-validity predicate),
  2. calls the REAL function (`h.call` executes the AST re-read from /repo) -- possibly several paths,
  3. states `ensures` clauses written from the property statement.
Every `ensures` yields one obligation per feasible path; lemma applications and callee preconditions
yield further named obligations.  Units run in a process pool; each obligation is discharged by z3
(cvc5 on unknown; both in the thorough tier).
"""
import json
import os
import subprocess
import sys
import time
import traceback

import z3

from . import VENV_PY, VERIF, source, theory_np
from .interp import Explorer, Interp, Obligation, PathCtx
from .solve import discharge
from .values import ExcVal, Obj, Space, SymRaise, Undecided, V, to_term

UNITS = {}  # property id -> list of unit descriptors


def unit(prop, name, fn=None, fns=None, bounded=False):
    def deco(f):
        UNITS.setdefault(prop, []).append({"prop": prop, "name": name, "fns": ([fn] if fn else []) + list(fns or []), "f": f, "bounded": bounded})
        return f

    return deco


class Harness:
    def __init__(self, ctx, udesc, tier):
        self.ctx = ctx
        self.udesc = udesc
        self.tier = tier
        self.syms = {}
        self.interp = Interp(ctx, None)
        self.interp.theories = theory_np.make_theories(self.interp)
        theory_np.CUR = self.interp
        theory_np.OPAQUE_ROUND[0] = False
        from . import theory_ext

        theory_ext.install(self.interp.theories, self.interp)
        from . import theory_misc

        theory_misc.install(self.interp.theories, self.interp)
        from . import theory_seq

        theory_seq.install(self.interp.theories, self.interp)
        from . import values

        values.PC_PROVIDER[0] = lambda: self.interp.ctx.pc

        def align(a, b, what):
            """two arrays combined positionally whose rows cannot be shown to coincide: if they are rows of the same
            universe in the same order, emit the alignment obligation (same membership) and go on"""
            from .frames import RowAxis

            if isinstance(a, RowAxis) and isinstance(b, RowAxis) and a.root is b.root and a.order == b.order and len(a.doms) == len(b.doms) == 1:
                n = self.interp.ctx.__dict__.setdefault("_align_n", [0])
                n[0] += 1
                self.interp.ctx.oblige(f"align.{what.strip()}#{n[0]}", z3.Implies(z3.And(*a.root.facts()), a.doms[0] == b.doms[0]), kind="alignment", why=f"operands of `{what}` are combined by position: they must have the same rows ({a.name} vs {b.name})")
                return True
            if isinstance(a, RowAxis) and isinstance(b, RowAxis) and a.root is b.root and len(a.doms) == len(b.doms) == 1 and getattr(self, "default_replay", None) is not None:
                # the same universe but row orders that cannot be compared symbolically: positional combination is only
                # right if the two orders agree -- not decidable here; the unit's replay on the real code decides
                # (violation iff the replay fails, otherwise undecided); execution continues as if aligned
                n = self.interp.ctx.__dict__.setdefault("_align_n", [0])
                n[0] += 1
                self.interp.ctx.oblige(f"align.{what.strip()}#{n[0]}.same_row_order", z3.BoolVal(False), kind="alignment", needs_replay=True, why=f"operands of `{what}` are combined by position but their row orders differ symbolically ({a.order} vs {b.order})")
                return True
            return False

        values.ALIGN_HOOK[0] = align
        self.contracts = self.interp.contracts
        self.replays = {}
        self.n_requires = 0
        self.covers = []

    # ---- symbols -------------------------------------------------------------------------------
    def _sym(self, name, c):
        self.syms[name] = c
        return V(c)

    def real(self, name):
        return self._sym(name, z3.Real(name))

    def int(self, name):
        return self._sym(name, z3.Int(name))

    def bool(self, name):
        return self._sym(name, z3.Bool(name))

    def string(self, name):
        return self._sym(name, z3.String(name))

    def space(self, name):
        sp = Space(name)
        self.syms["n_" + name] = sp.n
        self.syms["u_" + name] = sp.u
        self.ctx.assume(z3.And(*sp.facts()))
        return sp

    def column(self, name, space, sort="real", extra_axes=()):
        """an arbitrary array over `space` (x extra_axes): uninterpreted function of the indices"""
        srt = {"real": z3.RealSort(), "int": z3.IntSort(), "bool": z3.BoolSort(), "str": z3.StringSort()}[sort]
        axes = (space,) + tuple(extra_axes)
        f = z3.Function(name, *([z3.IntSort()] * len(axes) + [srt]))
        self.syms[name] = f
        return V(f(*[a.u for a in axes]), axes)

    def obj(self, clsqual, **attrs):
        parts = clsqual.split(".")
        mod = source.module(".".join(parts[:-1]))
        o = Obj(mod, mod.classes[parts[-1]], attrs)
        o.partial = True  # made by the harness: only the state the contract describes; reading anything else = outside the contract
        return o

    # ---- clauses -------------------------------------------------------------------------------
    def requires(self, name, *conds):
        for c in conds:
            self.ctx.assume(c.t if isinstance(c, V) else c)
        self.n_requires += 1

    def ensures(self, name, goal, replay=None, **meta):
        full = f"{self.udesc['prop']}.{self.udesc['name']}.{name}"
        self.ctx.oblige(full, goal, kind="ensures", replay=replay, **meta)

    def ensures_generalised(self, name, goal, abstract, **meta):
        """prove a generalisation of `goal`: the listed (e.g. nonlinear) subterms are replaced by fresh
        variables in the goal and in the path condition -- sound (a more general statement is proved)."""
        from .values import fresh_name

        subs = []
        for t in abstract:
            t = t.t if isinstance(t, V) else t
            subs.append((t, z3.Const(fresh_name("gen"), t.sort())))
        g = z3.substitute(goal.t if isinstance(goal, V) else goal, *subs)
        full = f"{self.udesc['prop']}.{self.udesc['name']}.{name}"
        from .interp import Obligation

        self.ctx.obligations.append(Obligation(full, [z3.substitute(f, *subs) for f in self.ctx.pc], g, dict(kind="ensures", orig=(list(self.ctx.pc), goal.t if isinstance(goal, V) else goal), **meta)))

    def ensures_euf(self, name, goal, **meta):
        """prove `goal` with every nonlinear product / quotient read as an uninterpreted function of its (flattened,
        canonically ordered) operands -- a sound generalisation (pyvc.euf); for goals that hold by congruence"""
        from .euf import abstract_nonlinear, mul_axioms
        from .interp import Obligation

        g = goal.t if isinstance(goal, V) else goal
        fs = abstract_nonlinear(list(self.ctx.pc) + [g])
        full = f"{self.udesc['prop']}.{self.udesc['name']}.{name}"
        self.ctx.obligations.append(Obligation(full, fs[:-1] + mul_axioms(fs), fs[-1], dict(kind="ensures", euf=True, orig=(list(self.ctx.pc), g), **meta)))

    def debug_model(self, goal, items, timeout=30000):
        """VERIF_DEBUG only: a model of  path condition /\ not goal  evaluated on the named terms (proof engineering aid)"""
        if not os.environ.get("VERIF_DEBUG"):
            return
        sv = z3.Solver()
        sv.set("timeout", timeout)
        sv.add(*self.ctx.pc)
        sv.add(z3.Not(goal))
        r = sv.check()
        print("DEBUG", r, flush=True)
        if r == z3.sat:
            m = sv.model()
            for k, v in items.items():
                print("   ", k, "=", m.eval(v, model_completion=True), flush=True)

    def lemma(self, name, goal, assumptions=()):
        """a standalone (context-free) lemma: proved from `assumptions` only, not from the path condition"""
        from .interp import Obligation

        full = f"{self.udesc['prop']}.{self.udesc['name']}.{name}"
        self.ctx.obligations.append(Obligation(full, [a.t if isinstance(a, V) else a for a in assumptions], goal.t if isinstance(goal, V) else goal, dict(kind="lemma")))

    def forall_rows(self, root, fact):
        """assume `fact` (a term over the generic row root.u) for EVERY row: at both generic indices and as a
        quantified axiom (used by Skolem witnesses the theories introduce)"""
        fact = fact.t if isinstance(fact, V) else fact
        x = z3.Int("x!row")
        self.ctx.assume(fact)
        self.ctx.assume(z3.substitute(fact, (root.u, root.u2)))
        self.ctx.assume(z3.ForAll([x], z3.Implies(z3.And(x >= 0, x < root.n), z3.substitute(fact, (root.u, x)))))

    def fail(self, name, why, replay=None, **meta):
        """an obligation that is violated whenever this program point is reachable"""
        full = f"{self.udesc['prop']}.{self.udesc['name']}.{name}"
        self.ctx.oblige(full, z3.BoolVal(False), kind="ensures", replay=replay, why=why, **meta)

    # ---- running the real code -----------------------------------------------------------------
    def load(self, qualname, bound_self=None):
        fs = source.load(qualname)
        self.udesc.setdefault("_srcs", {})[qualname] = {"sha256": fs.sha256, "lines": fs.nlines, "file": os.path.relpath(fs.mod.path, source.SRC), "lineno": fs.lineno}
        return self.interp.load_closure(qualname, bound_self)

    def call(self, qualname, *args, **kwargs):
        """Execute the real function.  Returns ('return', value) or ('raise', ExcVal)."""
        clo = self.load(qualname)
        try:
            return "return", clo(*args, **kwargs)
        except SymRaise as e:
            return "raise", e.exc

    def method(self, obj, name):
        fs = source.find_method(obj.mod, obj.clsnode, name)
        if fs is None:
            raise Undecided(f"method {name} not found")
        self.udesc.setdefault("_srcs", {})[fs.qualname] = {"sha256": fs.sha256, "lines": fs.nlines, "file": os.path.relpath(fs.mod.path, source.SRC), "lineno": fs.lineno}
        from .interp import Closure

        return Closure(fs.node, self.interp.module_env(fs.mod), self.interp, fs.mod, fs.cls, fs.qualname, bound_self=obj)

    def call_method(self, obj, name, *args, **kwargs):
        clo = self.method(obj, name)
        try:
            return "return", clo(*args, **kwargs)
        except SymRaise as e:
            return "raise", e.exc


class SliceError(Exception):
    pass


def _stmt_assigns(stmt, name):
    """does `stmt` (or a statement nested in it) assign the local variable `name`?"""
    import ast

    for n in ast.walk(stmt):
        if isinstance(n, ast.Name) and n.id == name and isinstance(n.ctx, ast.Store):
            return True
        if isinstance(n, ast.Attribute) and isinstance(n.ctx, ast.Store) and ast.unparse(n) == name:
            return True
    return False


def _Harness_slice(self, qualname, first=None, last=None, first_assign=None, last_assign=None, until_raise=None, env=None, body_of=None, first_is_last_assignment=False, after_last_compound_storing=None, first_with_call=None):
    """Execute a contiguous slice of the top-level statements of the REAL function `qualname`:
    from the first statement assigning `first_assign` through the last statement assigning `last_assign`
    (or the `if` statement that raises `until_raise`).  Statements before the slice are NOT executed: the
    names they define must be supplied in `env` (arbitrary/havoc values = sound over-approximation).
    Returns ('ok', env_dict) or ('raise', ExcVal)."""
    import ast

    from .interp import Env

    fs = source.load(qualname)
    self.udesc.setdefault("_srcs", {})[qualname] = {"sha256": fs.sha256, "lines": fs.nlines, "file": os.path.relpath(fs.mod.path, source.SRC), "lineno": fs.lineno, "slice": f"{first_assign or first_with_call}..{last_assign or until_raise}"}
    body = fs.node.body
    i0 = i1 = None
    for i, st in enumerate(body):
        if first_assign and _stmt_assigns(st, first_assign) and (i0 is None or first_is_last_assignment):
            i0 = i
        if first_with_call and i0 is None and any(isinstance(n, ast.Call) and ((isinstance(n.func, ast.Attribute) and n.func.attr == first_with_call) or (isinstance(n.func, ast.Name) and n.func.id == first_with_call)) for n in ast.walk(st)):
            # anchored by what the statement DOES (the first top-level statement calling this method), not by the name of
            # the local it stores into: renaming the local leaves the slice where it was
            i0 = i
        if last_assign and _stmt_assigns(st, last_assign):
            i1 = i
        if until_raise and i0 is not None and i1 is None:
            for n in ast.walk(st):
                if isinstance(n, ast.Raise) and n.exc is not None and until_raise in ast.dump(n.exc):
                    i1 = i
                    break
    if after_last_compound_storing:
        # start right after the last COMPOUND top-level statement (if / for / while / with / try) that stores into the
        # name (assignment, augmented or subscript store anywhere inside it): everything up to there is arbitrary
        nm = after_last_compound_storing
        for i, st in enumerate(body):
            if isinstance(st, (ast.If, ast.For, ast.While, ast.With, ast.Try)) and (i1 is None or i < i1):
                for n in ast.walk(st):
                    tg = []
                    if isinstance(n, ast.Assign):
                        tg = n.targets
                    elif isinstance(n, (ast.AugAssign, ast.AnnAssign)):
                        tg = [n.target]
                    for t_ in tg:
                        base = t_
                        while isinstance(base, (ast.Subscript, ast.Attribute)):
                            base = base.value
                        if isinstance(base, ast.Name) and base.id == nm:
                            i0 = i + 1
    if i0 is None or i1 is None or i1 < i0:
        raise Undecided(f"slice {first_assign or first_with_call or after_last_compound_storing}..{last_assign or until_raise} not found in {qualname}")
    e = Env(self.interp.module_env(fs.mod))
    from .interp import Closure

    e.func = Closure(fs.node, self.interp.module_env(fs.mod), self.interp, fs.mod, fs.cls, qualname)
    for k, v in (env or {}).items():
        e.set(k, v)
    # dependency closure: a name the slice reads that the harness did not supply and that ONE earlier top-level statement
    # `name = <expression>` defines (no other store to it in between) is computed by that real statement first -- so that
    # extracting a sub-expression into a local just before the slice does not put the slice out of reach
    stmts = list(body[i0 : i1 + 1])
    supplied = set((env or {}).keys())

    def _stores(st, nm):
        for n in ast.walk(st):
            if isinstance(n, ast.Name) and n.id == nm and isinstance(n.ctx, (ast.Store, ast.Del)):
                return True
        return False

    pre, first = [], i0
    changed = True
    while changed:
        changed = False
        assigned = set()
        for st in pre + stmts:
            reads = [n.id for n in ast.walk(st) if isinstance(n, ast.Name) and isinstance(n.ctx, ast.Load)]
            for nm in reads:
                if nm in supplied or nm in assigned:
                    continue
                cands = [j for j in range(first) if isinstance(body[j], ast.Assign) and len(body[j].targets) == 1 and isinstance(body[j].targets[0], ast.Name) and body[j].targets[0].id == nm]
                if not cands:
                    continue
                j = cands[-1]
                if any(_stores(body[k], nm) for k in range(first) if k != j) or body[j] in pre:
                    continue
                pre.insert(0, body[j])
                pre.sort(key=lambda x: x.lineno)
                changed = True
                break
            if changed:
                break
            for n in ast.walk(st):
                if isinstance(n, ast.Name) and isinstance(n.ctx, ast.Store):
                    assigned.add(n.id)
    try:
        self.interp.exec_block(pre + stmts, e)
    except SymRaise as ex:
        if ex.exc.clsname == "NameError" and ex.exc.args and ex.exc.args[0] not in (env or {}):
            # the slice reads a local that is defined before it and that the harness did not supply: a limit of the slice
            # (e.g. after statements were moved), never a finding about the code
            raise Undecided(f"slice of {qualname} reads {ex.exc.args[0]!r}, which is defined before the slice")
        return "raise", ex.exc
    return "ok", e.vars


Harness.slice = _Harness_slice


def _eval_model(model, t):
    v = model.eval(t, model_completion=True)
    if z3.is_int_value(v):
        return v.as_long()
    if z3.is_rational_value(v):
        from fractions import Fraction

        return float(Fraction(v.numerator_as_long(), v.denominator_as_long()))
    if z3.is_algebraic_value(v):
        return float(v.approx(20).as_fraction())
    if z3.is_true(v):
        return True
    if z3.is_false(v):
        return False
    if z3.is_string_value(v):
        return v.as_string()
    return str(v)


def _frac(model, t):
    v = model.eval(t, model_completion=True)
    if z3.is_rational_value(v):
        return f"{v.numerator_as_long()}/{v.denominator_as_long()}"
    return str(v)


def _model_repr(model, syms):
    out = {}
    for k, v in syms.items():
        if k.startswith("u2_"):
            continue
        try:
            if z3.is_expr(v):
                out[k] = _frac(model, v)
            else:
                fi = model[v]
                out[k] = str(fi)[:300] if fi is not None else None
        except Exception:
            out[k] = None
    return out


_CNT_CACHE = {}


def _count_axioms(formulas):
    """a cardinality symbol (frames.count_of) that occurs in the VC is >= 0"""
    from . import frames as _fr
    from .values import tid

    names = set()
    for f in formulas:
        k = tid(f)
        if k not in _CNT_CACHE:
            found = set()
            stack, seen = [f], set()
            while stack:
                t = stack.pop()
                if t.get_id() in seen:
                    continue
                seen.add(t.get_id())
                if z3.is_quantifier(t):
                    stack.append(t.body())
                elif z3.is_app(t):
                    if t.num_args() == 0 and t.decl().kind() == z3.Z3_OP_UNINTERPRETED and t.decl().name().startswith("cnt_"):
                        found.add(t.decl().name())
                    stack.extend(t.children())
            _CNT_CACHE[k] = found
        names |= _CNT_CACHE[k]
    return [c >= 0 for (c, _d) in _fr._COUNTS.values() if z3.is_const(c) and c.decl().name() in names]


def run_unit(udesc, tier="quick", timeout_ms=None, known=None):
    """Execute a unit, discharge its obligations.  Returns a JSON-able dict."""
    t0 = time.time()
    timeout_ms = timeout_ms or (20000 if tier == "quick" else 120000)
    both = tier == "thorough"
    out = {"unit": f"{udesc['prop']}.{udesc['name']}", "fns": udesc["fns"], "obligations": [], "status": "ok", "paths": 0}
    ex = Explorer()
    holder = {}

    def harness(ctx):
        h = Harness(ctx, udesc, tier)
        holder["h"] = h
        try:
            return udesc["f"](h)
        finally:
            # obligations emitted by the theories (alignment, key uniqueness, lemma side conditions) get the unit's
            # default replay, if it declared one
            dr = getattr(h, "default_replay", None)
            if dr is not None:
                for ob in ctx.obligations:
                    if ob.meta.get("replay") is None:
                        ob.meta["replay"] = dr

    try:
        results = ex.run(harness)
    except Undecided as e:
        out["status"] = "undecided"
        out["reason"] = str(e)
        if os.environ.get("VERIF_DEBUG"):
            out["reason"] += "\n" + "".join(traceback.format_exception(type(e), e, e.__traceback__))[-2500:]
        # the code left the verifier's subset on this tree.  If the unit declared a scenario replay (one that does not
        # need a counter-model), the checker runs it on the real code: a failing replay is a failing input, i.e. a
        # violation; a passing replay leaves the unit undecided
        dr = getattr(holder.get("h"), "default_replay", None)
        if dr is not None:
            try:
                out["undecided_replay_spec"] = dr(lambda t: None)
            except Exception:  # the constructor needs a model: no scenario replay
                pass
        out["wall_s"] = round(time.time() - t0, 3)
        return out
    except Exception as e:  # checker crash
        out["status"] = "crash"
        out["reason"] = "".join(traceback.format_exception(type(e), e, e.__traceback__))[-3000:]
        out["wall_s"] = round(time.time() - t0, 3)
        return out
    out["paths"] = len(results)
    if getattr(ex, "undecided_paths", None):
        out["partial_undecided"] = sorted({str(e) for e in ex.undecided_paths})[:5]
        dr = getattr(holder.get("h"), "default_replay", None)
        if dr is not None:
            try:
                out["undecided_replay_spec"] = dr(lambda t: None)
            except Exception:
                pass
    escaped = [pr for pr in results if pr.kind == "raise"]
    if escaped:
        out["status"] = "crash"
        out["reason"] = f"an interpreted exception escaped the harness: {escaped[0].value!r}"
        out["wall_s"] = round(time.time() - t0, 3)
        return out
    out["srcs"] = udesc.get("_srcs", {})
    out["notes"] = {k: sorted(v) if isinstance(v, set) else list(v)[:50] for k, v in ex.notes.items()}
    from . import frames as _fr, theory_ext as _te

    out["trusted"] = list(theory_np.TRUSTED) + list(_fr.TRUSTED) + list(_te.TRUSTED)
    from . import sums

    out["lemmas"] = list(sums.LEMMAS_USED)
    h = holder.get("h")
    syms = h.syms if h else {}
    covered_pcs = {}
    for pr in results:
        if pr.kind == "raise" and not pr.extra.get("expected_raise") and not any(True for _ in pr.obligations):
            # an exception escaped the harness without the unit having stated anything about it
            pass
        for ob in pr.obligations:
            if not ob.name.startswith(udesc["prop"] + "."):
                ob.name = f"{udesc['prop']}.{udesc['name']}.{ob.name}"
            rec = {"name": ob.name, "kind": ob.meta.get("kind", "ensures")}
            # vacuity: the path must be reachable
            key = tuple(f.get_id() for f in ob.pc)
            if key not in covered_pcs:
                cr = discharge(list(ob.pc), min(timeout_ms, 10000))
                covered_pcs[key] = cr["verdict"]
            rec["cover"] = covered_pcs[key]
            if ob.meta.get("needs_replay"):
                rec.update(verdict="unknown", backend="none", seconds=0, cover="n/a", generalised="not decidable symbolically: " + str(ob.meta.get("why")), note=str(ob.meta.get("why")), text=_short(ob))
                rp = ob.meta.get("replay")
                if rp is not None:
                    try:
                        rec["replay_spec"] = rp(lambda t: None)
                    except Exception as e:
                        rec["replay_error"] = repr(e)
                out["obligations"].append(rec)
                continue
            ax = theory_np.axiom_instances(list(ob.pc) + [ob.goal]) + _count_axioms(list(ob.pc) + [ob.goal])
            if ax:
                ob.pc = list(ob.pc) + ax
            # (an obligation may ask for a larger budget: the few nonlinear infeasibility proofs whose solver time varies)
            res = discharge(list(ob.pc) + [z3.Not(ob.goal)], int(timeout_ms * ob.meta.get("budget_factor", 1)), both=both)
            if res["verdict"] == "sat" and ob.meta.get("replay_decides") and ob.meta.get("replay") is not None:
                # the clause is a SUFFICIENT condition chosen by the contract (stronger than the property's wording): a
                # counter-model of it is not yet a counter-example of the property -- the replay on the real code decides
                # (violation iff it fails, undecided otherwise)
                amodel = res.get("model")
                rec["generalised"] = "sufficient condition only: " + str(ob.meta.get("replay_decides"))
                try:
                    rec["replay_spec"] = ob.meta["replay"](lambda t: _eval_model(amodel, to_term(t)) if amodel is not None else None)
                    rec["abstract_model"] = _model_repr(amodel, syms) if amodel is not None else None
                except Exception as e:
                    rec["replay_error"] = repr(e)
                res = dict(res, verdict="unknown", note="counter-model of a sufficient condition; the replay on the real code decides")
            if res["verdict"] == "sat" and ob.meta.get("orig") is not None:
                # a counter-model of a GENERALISED obligation (nonlinear terms abstracted) is not a counter-model of the
                # obligation itself: ask again without the abstraction; only a model of the original refutes
                opc, ogoal = ob.meta["orig"]
                opc = list(opc) + theory_np.axiom_instances(list(opc) + [ogoal])
                res0 = discharge(opc + [z3.Not(ogoal)], max(2000, timeout_ms // 4), both=False)
                if res0["verdict"] not in ("sat", "unsat") and res.get("model") is not None:
                    # second attempt: fix the propositional skeleton to the abstract counter-model's (faithful for every
                    # atom without nonlinear terms) -- what remains is a conjunction of polynomial constraints
                    from .euf import guide_from_abstract_model
                    from .solve import run_z3

                    guide = guide_from_abstract_model(res["model"], opc + [ogoal])
                    r1, m1, dt1, why1 = run_z3(opc + guide + [z3.Not(ogoal)], timeout_ms)
                    if r1 != "sat":
                        guide = guide_from_abstract_model(res["model"], opc + [ogoal], values=True)
                        r1, m1, dt1, why1 = run_z3(opc + guide + [z3.Not(ogoal)], timeout_ms)
                    if r1 == "sat":
                        res0 = {"verdict": "sat", "backend": "z3", "seconds": round(dt1, 4), "model": m1, "note": "model of the exact obligation found along the abstract counter-model"}
                rec["generalised"] = "countermodel of the abstraction; original asked again: " + res0["verdict"]
                if res0["verdict"] in ("sat", "unsat"):
                    res = res0
                    ob.pc, ob.goal = opc, ogoal
                else:
                    amodel = res.get("model")
                    res = dict(res0, verdict="unknown", note="counter-model only for the abstraction (nonlinear terms as uninterpreted functions); the exact obligation is " + str(res0.get("note") or "unknown"))
                    rp = ob.meta.get("replay")
                    if rp is not None and amodel is not None:
                        # the replay (real code against the statement's oracle) decides whether this is a violation
                        try:
                            rec["replay_spec"] = rp(lambda t: _eval_model(amodel, to_term(t)))
                            rec["abstract_model"] = _model_repr(amodel, syms)
                        except Exception as e:
                            rec["replay_error"] = repr(e)
            rec["backend"] = res["backend"]
            rec["seconds"] = res["seconds"]
            if res["verdict"] == "unsat":
                rec["verdict"] = "discharged"
                if rec["cover"] == "unsat" and not z3.is_false(z3.simplify(ob.goal)):
                    # (an obligation `False` is the claim that its program point is unreachable: an
                    # unsatisfiable path condition is exactly its proof, not a vacuity)
                    rec["verdict"] = "vacuous"
            elif res["verdict"] == "sat":
                rec["verdict"] = "refuted"
                model = res["model"]
                if model is None:
                    # cvc5 said sat: retry z3 with more time for a model
                    from .solve import run_z3

                    r2, model, _, _ = run_z3(list(ob.pc) + [z3.Not(ob.goal)], timeout_ms * 3)
                if model is not None:
                    rec["model"] = _model_repr(model, syms)
                    rp = ob.meta.get("replay")
                    if rp is not None:
                        try:
                            rec["replay_spec"] = rp(lambda t: _eval_model(model, to_term(t)))
                        except Exception as e:
                            rec["replay_error"] = repr(e)
                    # known-finding classification: is there a refutation OUTSIDE every listed witness class?
                    import fnmatch

                    classes = [k for k in (known or []) if fnmatch.fnmatchcase(ob.name, k.get("obligation", "")) and k.get("status") == "known"]
                    if classes:
                        env = {k: (V(v) if z3.is_expr(v) else v) for k, v in syms.items()}
                        env.update(And=lambda *a: V(z3.And(*[to_term(x) for x in a])), Or=lambda *a: V(z3.Or(*[to_term(x) for x in a])), Not=lambda a: V(z3.Not(to_term(a))))
                        outside = list(ob.pc) + [z3.Not(ob.goal)]
                        try:
                            for k in classes:
                                wc = eval(k["witness_class"], {"__builtins__": {}}, env)
                                outside.append(z3.Not(to_term(wc)))
                            r3 = discharge(outside, timeout_ms)
                            if r3["verdict"] == "unsat":
                                rec["known"] = [k["id"] for k in classes]
                            elif r3["verdict"] == "sat":
                                rec["known_outside"] = True
                                if r3["model"] is not None:
                                    m3 = r3["model"]
                                    rec["model"] = _model_repr(m3, syms)
                                    rp = ob.meta.get("replay")
                                    if rp is not None:
                                        rec["replay_spec"] = rp(lambda t: _eval_model(m3, to_term(t)))
                            else:
                                rec["known_unknown"] = True
                        except Exception as e:
                            rec["known_error"] = repr(e)
                if ob.meta.get("why"):
                    rec["why"] = ob.meta["why"]
            elif res["verdict"] == "disagree":
                rec["verdict"] = "disagree"
                rec["note"] = res["note"]
            else:
                rec["verdict"] = "unknown"
                rec["note"] = res.get("note")
            rec["text"] = _short(ob)
            out["obligations"].append(rec)
    if not out["obligations"]:
        out["status"] = "no-obligations"
    out["wall_s"] = round(time.time() - t0, 3)
    return out


def _short(ob):
    try:
        s = f"pc[{len(ob.pc)}] |- {z3.simplify(ob.goal)}"
    except Exception:
        s = str(ob.goal)
    s = " ".join(s.split())
    return s[:400]


def run_replay(spec, workdir):
    """Run a replay spec on the real code under /venv/bin/python.  spec: dict for replay_driver."""
    p = subprocess.run(
        [VENV_PY, os.path.join(VERIF, "pyvc", "replay_driver.py")],
        input=json.dumps(spec),
        capture_output=True,
        text=True,
        timeout=600,
        cwd=workdir,
        env=dict(os.environ, APP_ENV="local", DATA_ENV="dev", MODEL_S3_BUCKET="b", MODEL_S3_PATH_ROOT="r", PYTHONPATH=source.SRC + os.pathsep + VERIF),
    )
    try:
        last = [l for l in p.stdout.strip().splitlines() if l.startswith("{")][-1]
        return json.loads(last)
    except Exception:
        return {"error": (p.stdout + p.stderr)[-2000:]}
