"""Positional (ordered) arrays: the version history of one unit.  An `OrdSpace` is an index space whose generic
index is a position 0..n-1; element access x[-1], np.diff, np.searchsorted, np.arange and gather x[idx] are
expressed by substituting index terms into the pointwise value."""
import z3

from . import theory_np
from .values import only_kw, ONE, ExcVal, Space, SymRaise, Undecided, V, fresh_name, ite, num, real, root_space, to_term


def at(v, idx):
    """v[idx] for a 1-D array over an ordered space (idx: z3 Int term)"""
    sp = root_space(v.axes[0])
    sub = lambda t: z3.substitute(t, (sp.u, idx)) if t is not None else None  # noqa: E731
    return V(sub(v.t), (), None, sub(v.nan), sub(v.inf))


def v_index(interp, v, key):
    """x[-1], x[0], x[int array] on a 1-D positional array"""
    if len(v.axes) != 1:
        raise Undecided("positional indexing of a non 1-D array")
    sp = root_space(v.axes[0])
    n = sp.n if z3.is_expr(sp.n) else z3.IntVal(sp.n)
    if isinstance(key, int):
        idx = n + key if key < 0 else z3.IntVal(key)
        bad = V(z3.Or(idx < 0, idx >= n))
        if interp.ctx.branch(bad, "index-out-of-bounds"):
            raise SymRaise(ExcVal("IndexError", ("index out of bounds",), ("LookupError",)))
        theory_np._use("ndarray[k] / ndarray[-1]: positional element access (IndexError when out of range)")
        return at(v, idx)
    if isinstance(key, V) and z3.is_int(key.t) and key.axes:
        # gather: result over key's axes; entries must be valid positions (numpy raises otherwise)
        theory_np._use("ndarray[int array]: gather (IndexError when an index is out of range)")
        sub = lambda t: z3.substitute(t, (sp.u, key.t)) if t is not None else None  # noqa: E731
        interp.ctx.__dict__.setdefault("_gathers", []).append((v, key.t))
        interp.ctx.oblige("gather.index_in_range", z3.Implies(z3.And(*_facts(key.axes)), z3.And(key.t >= -n, key.t < n)), kind="callee-pre")
        return V(sub(v.t), key.axes, None, sub(v.nan), sub(v.inf))
    raise Undecided("index form on a positional array")


def _facts(axes):
    out = []
    for a in axes:
        if a is not ONE:
            out += list(a.facts())
    return out


def np_diff(x, append=None, **kw):
    only_kw("theory_seq.np_diff", kw)
    theory_np._use("numpy.diff(x, append=a): d[i] = x[i+1]-x[i], last entry a - x[-1]")
    if not (isinstance(x, V) and len(x.axes) == 1) or kw:
        raise Undecided("np.diff form")
    sp = root_space(x.axes[0])
    n = sp.n if z3.is_expr(sp.n) else z3.IntVal(sp.n)
    nxt = z3.substitute(x.t, (sp.u, sp.u + 1))
    if append is None:
        sub = Space(fresh_name(sp.name + "_diff"), n=n - 1)
        t = z3.substitute(nxt - x.t, (sp.u, sub.u))
        return V(t, (sub,))
    a = append if isinstance(append, V) else V(to_term(append))
    t = z3.If(sp.u < n - 1, num(nxt) - num(x.t), num(a.t) - num(x.t))
    return V(t, x.axes)


def make(interp):
    def np_divide(a, b, out=None, where=None, casting=None, **kw):
        only_kw("theory_seq.np_divide", kw)
        theory_np._use("numpy.divide(a,b,out=zeros,where=c): a/b where c holds, 0 elsewhere (A-REAL: no integer truncation, see the bounded dtype companion)")
        if casting is not None and casting != "unsafe":
            raise Undecided(f"np.divide(casting={casting!r})")
        q = a / b
        if where is None:
            return q
        # the entries outside `where` keep what `out` held: the contract is stated for out = zeros
        o = out if isinstance(out, V) else None
        if o is None or not z3.is_true(z3.simplify(real(o.t) == 0)):
            raise Undecided("np.divide(where=...) with an `out` array that is not all zeros")
        z = 0 * theory_np.lift(a)
        r = ite(where, V(q.t, q.axes), V(real(z.t), z.axes))
        w = where if isinstance(where, V) else V(to_term(where))
        nan = z3.And(w.t, q.nan) if q.nan is not None else None
        inf = z3.And(w.t, q.inf) if q.inf is not None else None
        return V(r.t, r.axes, None, nan, inf)

    def np_zeros_like(x, **kw):
        only_kw("theory_seq.np_zeros_like", kw)
        x = theory_np.lift(x)
        return V(0 * num(x.t), x.axes)

    def np_zeros(n, dtype=None, **kw):
        only_kw("theory_seq.np_zeros", kw)
        if dtype is not None and getattr(dtype, "__name__", str(dtype)) not in ("float", "py_float", "float64"):
            raise Undecided(f"np.zeros(dtype={dtype!r})")
        if not isinstance(n, theory_np.SeqLen):
            raise Undecided("np.zeros(n) where n is not the length of an array of the program")
        theory_np._use("numpy.zeros(len(x)): an array of zeros over the positions of x")
        return V(z3.RealVal(0), (n.space,))

    def np_ones(n, **kw):
        only_kw("theory_seq.np_ones", kw)
        return OnesOf(n)

    def np_arange(a, b=None, **kw):
        only_kw("theory_seq.np_arange", kw)
        theory_np._use("numpy.arange(a,b): the integers a..b-1")
        if b is None:
            a, b = 0, a
        if not isinstance(b, (V, int)) or (isinstance(a, V)):
            raise Undecided("arange form")
        if isinstance(b, int) and isinstance(a, int):
            sp = Space(fresh_name("arange"), n=z3.IntVal(b - a))
            interp.ctx.assume(z3.And(*sp.facts()))
            return V(sp.u + a, (sp,), meta=("arange", a, b))
        sp = Space(fresh_name("arange"), n=b.t - a)
        interp.ctx.assume(z3.And(*sp.facts()))
        return V(sp.u + a, (sp,), meta=("arange", a, b))

    def np_searchsorted(a, v, side="left", **kw):
        only_kw("theory_seq.np_searchsorted", kw)
        theory_np._use("numpy.searchsorted(sorted a, v, side): #{i : a[i] <= v} ('right') / #{i : a[i] < v} ('left'), for non-decreasing a")
        if side not in ("right", "left") or not (isinstance(a, V) and len(a.axes) == 1):
            raise Undecided("searchsorted form")
        sp = root_space(a.axes[0])
        n = sp.n if z3.is_expr(sp.n) else z3.IntVal(sp.n)
        vv = v if isinstance(v, V) else V(to_term(v))
        f = z3.Function(fresh_name("searchsorted"), real(vv.t).sort(), z3.IntSort())
        k = f(real(vv.t))
        ai = lambda i: real(z3.substitute(a.t, (sp.u, i)))  # noqa: E731
        # defining facts at this query point (a is non-decreasing: side condition emitted by the caller's path)
        interp.ctx.assume(z3.And(k >= 0, k <= n))
        if side == "right":
            interp.ctx.assume(z3.Implies(k > 0, ai(k - 1) <= real(vv.t)))
            interp.ctx.assume(z3.Implies(k < n, ai(k) > real(vv.t)))
        else:
            interp.ctx.assume(z3.Implies(k > 0, ai(k - 1) < real(vv.t)))
            interp.ctx.assume(z3.Implies(k < n, ai(k) >= real(vv.t)))
        interp.ctx.__dict__.setdefault("_searchsorted", []).append(dict(k=k, a=a, v=vv, space=sp))
        return V(k, vv.axes, meta=("searchsorted", a, vv))

    return {"divide": np_divide, "zeros_like": np_zeros_like, "zeros": np_zeros, "ones": np_ones, "arange": np_arange, "searchsorted": np_searchsorted, "diff": np_diff, "all": lambda x, **k: (only_kw("np.all", k), theory_np.v_getattr(interp, x, "all")())[1], "any": lambda x, **k: (only_kw("np.any", k), theory_np.v_getattr(interp, x, "any")())[1]}


class OnesOf:
    """np.ones(n) used only as nan * np.ones(n): a constant column"""

    def __init__(self, n):
        self.n = n

    def pyvc_binop(self, interp, op, o, rev):
        if op == "Mult":
            return ConstCol(o, self.n)
        return NotImplemented


class ConstCol:
    def __init__(self, value, n):
        self.value = value
        self.n = n


def install(theories, interp):
    t = make(interp)
    for k in ("np", "numpy"):
        theories[k].update(t)
