"""Abstraction of nonlinear arithmetic by uninterpreted functions (a sound generalisation of a VC).

Every product with more than one non-numeral factor becomes MULn(sorted factors) (nested products are flattened and
the factors ordered canonically, i.e. associativity and commutativity are built in); every division by a non-numeral
becomes DIV(a, b).  Real multiplication / division are ONE interpretation of these symbols under which the abstracted
formula is the original one, so validity of the abstraction implies validity of the original; what is lost is every
other property of multiplication (the solver can no longer use distributivity, signs, ...), which is exactly what makes
"the same If-tree with the same leaves" provable by congruence instead of by nonlinear reasoning."""
import z3

_MUL = {}
_DIV = z3.Function("pyvc_DIV", z3.RealSort(), z3.RealSort(), z3.RealSort())
_IDIV = z3.Function("pyvc_IDIV", z3.IntSort(), z3.IntSort(), z3.IntSort())


def _mul(sort, n):
    key = (sort.name(), n)
    if key not in _MUL:
        _MUL[key] = z3.Function(f"pyvc_MUL{n}_{sort.name()}", *([sort] * n + [sort]))
    return _MUL[key]


def _is_num(t):
    return z3.is_int_value(t) or z3.is_rational_value(t) or z3.is_algebraic_value(t)


def abstract_nonlinear(formulas):
    cache = {}

    def factors(t, out):
        if z3.is_app(t) and t.decl().kind() == z3.Z3_OP_MUL:
            for c in t.children():
                factors(c, out)
        else:
            out.append(t)

    def build(sort, fs):
        """product of already abstracted factors: if-then-else factors are lifted out first (so that the canonical
        order of the remaining factors does not depend on which branch is taken), nested abstract products flattened"""
        flat = []
        for f in fs:
            if z3.is_app(f) and f.decl().name().startswith("pyvc_MUL") and f.sort() == sort:
                flat.extend(f.children())
            else:
                flat.append(f)
        for i, f in enumerate(flat):
            if z3.is_app(f) and f.decl().kind() == z3.Z3_OP_ITE:
                c, x, y = f.children()
                return z3.If(c, build(sort, flat[:i] + [x] + flat[i + 1 :]), build(sort, flat[:i] + [y] + flat[i + 1 :]))
        nums = [f for f in flat if _is_num(f)]
        syms = sorted([f for f in flat if not _is_num(f)], key=lambda x: x.get_id())
        if not syms:
            r = nums[0]
            for c in nums[1:]:
                r = r * c
            return r
        r = syms[0] if len(syms) == 1 else _mul(sort, len(syms))(*syms)
        for c in nums:
            r = c * r
        return r

    def go(t):
        k = t.get_id()
        if k in cache:
            return cache[k]
        if z3.is_quantifier(t):
            body = go(t.body())
            if z3.eq(body, t.body()):
                r = t
            else:
                vs = [z3.Const(t.var_name(i), t.var_sort(i)) for i in range(t.num_vars())]
                b2 = z3.substitute_vars(body, *reversed(vs))
                r = z3.ForAll(vs, b2) if t.is_forall() else z3.Exists(vs, b2)
            cache[k] = r
            return r
        if not z3.is_app(t) or t.num_args() == 0:
            cache[k] = t
            return t
        kind = t.decl().kind()
        if kind == z3.Z3_OP_MUL:
            fs = []
            factors(t, fs)
            nums = [f for f in fs if _is_num(f)]
            syms = [go(f) for f in fs if not _is_num(f)]
            # ToReal(a)*ToReal(b) and ToReal(a*b) are kept distinct (no attempt to normalise casts)
            if len(syms) <= 1:
                r = t.decl()(*[go(c) for c in t.children()]) if len(t.children()) > 1 else t
            else:
                r = build(t.sort(), syms)
                for c in nums:
                    r = c * r
            cache[k] = r
            return r
        if kind in (z3.Z3_OP_DIV, z3.Z3_OP_IDIV) and not _is_num(t.arg(1)):
            a, b = go(t.arg(0)), go(t.arg(1))
            r = (_DIV if kind == z3.Z3_OP_DIV else _IDIV)(a, b)
            cache[k] = r
            return r
        ch = [go(c) for c in t.children()]
        if all(z3.eq(a, b) for a, b in zip(ch, t.children())):
            r = t
        else:
            r = t.decl()(*ch)
        cache[k] = r
        return r

    return [go(f) for f in formulas]


def mul_axioms(formulas, max_arity=4):
    """commutativity instances for every abstract product occurring in `formulas`: MULn(args) = MULn(any permutation).
    (valid for the real product; needed because the canonical factor order is syntactic and an if-then-else buried
    inside a factor changes it)"""
    import itertools

    seen, out, stack = set(), [], list(formulas)
    while stack:
        t = stack.pop()
        if t.get_id() in seen:
            continue
        seen.add(t.get_id())
        if z3.is_quantifier(t):
            stack.append(t.body())
            continue
        if z3.is_app(t):
            if t.decl().name().startswith("pyvc_MUL") and t.num_args() <= max_arity:
                args = t.children()
                for perm in itertools.permutations(range(len(args))):
                    if list(perm) != list(range(len(args))):
                        out.append(t == t.decl()(*[args[i] for i in perm]))
            stack.extend(t.children())
    return out


def _nonlinear(t, cache):
    k = t.get_id()
    if k in cache:
        return cache[k]
    r = False
    if z3.is_quantifier(t):
        r = True
    elif z3.is_app(t):
        kind = t.decl().kind()
        if kind == z3.Z3_OP_MUL and sum(1 for c in t.children() if not _is_num(c)) > 1:
            r = True
        elif kind in (z3.Z3_OP_DIV, z3.Z3_OP_IDIV) and not _is_num(t.arg(1)):
            r = True
        else:
            r = any(_nonlinear(c, cache) for c in t.children())
    cache[k] = r
    return r


def _has_bound_var(t):
    stack, seen = [t], set()
    while stack:
        x = stack.pop()
        if x.get_id() in seen:
            continue
        seen.add(x.get_id())
        if z3.is_var(x):
            return True
        if z3.is_app(x):
            stack.extend(x.children())
    return False


def guide_from_abstract_model(model, formulas, limit=4000, values=False):
    """truth values (taken from a model of the abstraction) of every boolean atom of `formulas` that contains no
    nonlinear term -- the abstraction leaves those atoms unchanged, so the values are faithful; adding them fixes the
    propositional skeleton and leaves the solver a conjunction of polynomial constraints"""
    cache, seen, out, stack = {}, set(), [], list(formulas)
    conn = (z3.Z3_OP_AND, z3.Z3_OP_OR, z3.Z3_OP_NOT, z3.Z3_OP_IMPLIES, z3.Z3_OP_ITE, z3.Z3_OP_XOR)
    while stack and len(out) < limit:
        t = stack.pop()
        if t.get_id() in seen:
            continue
        seen.add(t.get_id())
        if z3.is_quantifier(t):
            continue
        if z3.is_app(t):
            if z3.is_bool(t) and t.decl().kind() not in conn and not (t.decl().kind() == z3.Z3_OP_EQ and z3.is_bool(t.arg(0))) and not z3.is_true(t) and not z3.is_false(t):
                if not _nonlinear(t, cache):
                    v = model.eval(t, model_completion=True)
                    if z3.is_true(v) or z3.is_false(v):
                        out.append(t == v)
            elif values and t.decl().kind() == z3.Z3_OP_UNINTERPRETED and (z3.is_int(t) or z3.is_real(t)) and not t.decl().name().startswith("pyvc_") and not _nonlinear(t, cache) and not _has_bound_var(t):
                v = model.eval(t, model_completion=True)
                if _is_num(v):
                    out.append(t == v)
            stack.extend(t.children())
    return out
