"""Source binding: the verified text is the code that runs.

Nothing is imported from /repo.  A module is located as <SRC>/<dotted path>.py in the *current working
tree*, parsed with `ast`, and functions / classes are looked up by qualified name on every run.
"""
import ast
import hashlib
import os

from . import SRC


class SourceError(Exception):
    pass


class Module:
    def __init__(self, modname):
        self.modname = modname
        self.path = os.path.join(SRC, *modname.split(".")) + ".py"
        if not os.path.exists(self.path):
            pkg = os.path.join(SRC, *modname.split("."), "__init__.py")
            if os.path.exists(pkg):
                self.path = pkg
            else:
                raise SourceError(f"module {modname} not found under {SRC}")
        with open(self.path) as f:
            self.text = f.read()
        self.tree = ast.parse(self.text, filename=self.path)
        self.functions = {}
        self.classes = {}
        self.imports = {}  # local name -> (module, attr|None)
        self.assigns = {}  # module-level simple assignments: name -> ast expr
        for node in self.tree.body:
            if isinstance(node, (ast.FunctionDef, ast.AsyncFunctionDef)):
                self.functions[node.name] = node
            elif isinstance(node, ast.ClassDef):
                self.classes[node.name] = node
            elif isinstance(node, ast.Import):
                for a in node.names:
                    self.imports[a.asname or a.name.split(".")[0]] = (a.name if a.asname else a.name.split(".")[0], None)
            elif isinstance(node, ast.ImportFrom):
                for a in node.names:
                    self.imports[a.asname or a.name] = (node.module, a.name)
            elif isinstance(node, ast.Assign) and len(node.targets) == 1 and isinstance(node.targets[0], ast.Name):
                self.assigns[node.targets[0].id] = node.value

    def segment(self, node):
        return ast.get_source_segment(self.text, node) or ""


_modules = {}


def module(modname):
    if modname not in _modules:
        _modules[modname] = Module(modname)
    return _modules[modname]


def reset_cache():
    _modules.clear()


class FuncSrc:
    """A located function: module, class (or None), ast node, text hash."""

    def __init__(self, mod, cls, node, qualname):
        self.mod = mod
        self.cls = cls
        self.node = node
        self.qualname = qualname
        seg = mod.segment(node)
        self.sha256 = hashlib.sha256(seg.encode()).hexdigest()
        self.lineno = node.lineno
        self.nlines = (node.end_lineno or node.lineno) - node.lineno + 1

    def __repr__(self):
        return f"<FuncSrc {self.qualname} {self.mod.path}:{self.lineno}>"


def class_bases(mod, clsnode):
    """Resolve base classes of a class defined in elexmodel to (Module, ClassDef) pairs (others skipped)."""
    out = []
    for b in clsnode.bases:
        name = None
        modref = None
        if isinstance(b, ast.Name):
            name = b.id
            if name in mod.classes:
                out.append((mod, mod.classes[name]))
                continue
            if name in mod.imports:
                m, a = mod.imports[name]
                if m and m.startswith("elexmodel") and a:
                    try:
                        m2 = module(m)
                    except SourceError:
                        continue
                    if a in m2.classes:
                        out.append((m2, m2.classes[a]))
        elif isinstance(b, ast.Attribute) and isinstance(b.value, ast.Name):
            # e.g. BaseElectionModel.BaseElectionModel where BaseElectionModel is an imported module
            modref = b.value.id
            name = b.attr
            if modref in mod.imports:
                m, a = mod.imports[modref]
                full = f"{m}.{a}" if a else m
                if full.startswith("elexmodel"):
                    try:
                        m2 = module(full)
                    except SourceError:
                        continue
                    if name in m2.classes:
                        out.append((m2, m2.classes[name]))
    return out


def mro(mod, clsnode):
    """Depth-first left-to-right linearisation (sufficient for the single-inheritance chains used)."""
    seen = []
    stack = [(mod, clsnode)]
    while stack:
        m, c = stack.pop(0)
        if any(c is c2 for _, c2 in seen):
            continue
        seen.append((m, c))
        stack = class_bases(m, c) + stack
    return seen


def find_method(mod, clsnode, name, skip_first=False):
    chain = mro(mod, clsnode)
    if skip_first:
        chain = chain[1:]
    for m, c in chain:
        for node in c.body:
            if isinstance(node, (ast.FunctionDef,)) and node.name == name:
                return FuncSrc(m, c, node, f"{m.modname}.{c.name}.{name}")
    return None


def load(qualname):
    """qualname: 'elexmodel.pkg.mod.Class.method', 'elexmodel.pkg.mod.func', or with '.<locals>.inner'."""
    parts = qualname.split(".")
    # find longest module prefix
    for i in range(len(parts), 0, -1):
        modname = ".".join(parts[:i])
        p = os.path.join(SRC, *parts[:i])
        if os.path.exists(p + ".py"):
            mod = module(modname)
            rest = parts[i:]
            break
    else:
        raise SourceError(f"cannot locate module for {qualname}")
    cls = None
    node = None
    scope_body = mod.tree.body
    for j, name in enumerate(rest):
        if name == "<locals>":
            continue
        found = None
        # search (recursively for nested function definitions inside a function body)
        search = scope_body
        if node is not None and isinstance(node, (ast.FunctionDef,)):
            search = [n for n in ast.walk(node) if n is not node]
        for n in search:
            if isinstance(n, (ast.FunctionDef, ast.ClassDef)) and n.name == name:
                found = n
                break
        if found is None:
            raise SourceError(f"{name} not found while resolving {qualname}")
        if isinstance(found, ast.ClassDef):
            cls = found
            scope_body = found.body
            node = found
        else:
            node = found
            scope_body = found.body
    if not isinstance(node, ast.FunctionDef):
        raise SourceError(f"{qualname} is not a function")
    return FuncSrc(mod, cls, node, qualname)
