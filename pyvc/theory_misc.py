"""Small theories used by get_national_summary_estimates: symbolic dict of weights, np.concatenate of
bootstrap matrices, np.argsort + fancy indexing by a pair of (symbolic) positions."""
import z3

from . import theory_np
from .seq import SymSeq
from .values import only_kw, ONE, ExcVal, SymRaise, Undecided, V, fresh_name, num, real, root_space, to_term


class SymDict:
    """dict {contest: weight} with `n` entries whose sorted items line up with the rows of `space` when n equals
    the space's length (precondition of the caller: the keys are the contest names)."""

    def __init__(self, space, n, value_term):
        self.space = space
        self.n = n
        self.value = value_term

    def pyvc_len(self, interp):
        return V(self.n)

    def pyvc_getattr(self, interp, name):
        if name == "items":
            return lambda: SymItems(self)
        if name == "values":
            return lambda: SymValues(self)
        raise Undecided(f"dict.{name} on a symbolic dict")


class SymItems:
    def __init__(self, d):
        self.d = d

    def pyvc_sorted(self, key=None, reverse=False):
        if key is not None or reverse:
            raise Undecided("sorted(items, key=...)")
        theory_np._use("sorted(dict.items()) of a {contest: weight} dict: items in key order = contest order (get_dummies sorts its columns)")
        return SymPairs(self.d)


class SymValues:
    """dict.values(): sorted(...) orders the weights by their own size -- some permutation of the contests (nothing ties
    position k to contest k any more)"""

    def __init__(self, d):
        self.d = d

    def pyvc_sorted(self, key=None, reverse=False):
        theory_np._use("sorted(dict.values()): the values in increasing order = the contests' values under SOME permutation")
        d = self.d
        perm = z3.Function(fresh_name("value_order"), z3.IntSort(), z3.IntSort())
        u = d.space.u
        theory_np.CUR.ctx.assume(z3.And(perm(u) >= 0, perm(u) < d.n))
        return SymSeq(d.space, z3.substitute(d.value, (u, perm(u))), "sorted_dict_values")


class SymPairs:
    """sequence of (key, value) pairs; only comprehension `[x[1] for x in pairs]` is modelled"""

    def __init__(self, d):
        self.d = d

    def pyvc_comprehension(self, interp, elt_fn):
        d = self.d
        item = (V(z3.String(fresh_name("dict_key"))), V(d.value))
        r = elt_fn(item)
        r = r if isinstance(r, V) else V(to_term(r))
        return SymSeq(d.space, r.t, "dict_values")


class Concat:
    """np.concatenate of arrays along one axis: parts kept apart"""

    def __init__(self, parts, axis):
        self.parts = parts
        self.axis = axis

    def total_len(self):
        n = z3.IntVal(0)
        for p in self.parts:
            a = p.axes[self.axis]
            n = n + (a.n if z3.is_expr(a.n) else z3.IntVal(a.n))
        return n

    def pyvc_compare(self, interp, op, o, rev):
        import operator

        ops = {"Gt": operator.gt, "Lt": operator.lt, "GtE": operator.ge, "LtE": operator.le}
        if op not in ops or rev:
            return NotImplemented
        return Concat([ops[op](p, o) for p in self.parts], self.axis)

    def pyvc_getitem(self, interp, key):
        if isinstance(key, tuple) and len(key) == 2 and isinstance(key[0], slice) and key[0] == slice(None, None, None) and isinstance(key[1], IndexList) and self.axis == 1:
            # columns at given positions of [A | B]: each is SOME column of A or of B (an arbitrary draw)
            key[1].check_bounds(interp, self.total_len())
            rows = self.parts[0].axes[0]
            cols = []
            for j, pos in enumerate(key[1].positions):
                f = z3.Function(fresh_name("picked_column"), z3.IntSort(), self.parts[0].t.sort())
                cols.append(V(f(root_space(rows).u), (rows,)))
            return theory_np.VStack(cols, 1)
        raise Undecided("indexing a concatenated array")


def np_concatenate(arrs, axis=0):
    arrs = list(arrs)
    if not all(isinstance(a, V) for a in arrs):
        raise Undecided("np.concatenate of non-arrays")
    theory_np._use("numpy.concatenate: parts appended along the axis")
    return Concat(arrs, axis)


class Perm:
    """np.argsort(x): a permutation of 0..n-1"""

    def __init__(self, n):
        self.n = n

    def pyvc_getitem(self, interp, key):
        if isinstance(key, list):
            il = IndexList([k for k in key], perm_n=self.n)
            il.check_bounds(interp, self.n, what="argsort result")
            return il
        raise Undecided("indexing an argsort result")


class IndexList:
    def __init__(self, positions, perm_n=None):
        self.positions = positions
        self.perm_n = perm_n
        self.checked = False

    def check_bounds(self, interp, n, what="array"):
        if self.perm_n is not None and self.checked:
            return  # entries of a permutation of 0..n-1 are in range by construction
        for p in self.positions:
            pt = to_term(p)
            bad = V(z3.Or(pt < -n, pt >= n))
            if interp.ctx.branch(bad, "index-bounds"):
                raise SymRaise(ExcVal("IndexError", (f"index out of bounds for {what}",), ("LookupError",)))
        self.checked = True


def np_argsort(x, **kw):
    only_kw("theory_misc.np_argsort", kw)
    theory_np._use("numpy.argsort(x): a permutation of range(len(x))")
    if isinstance(x, Concat):
        return Perm(x.total_len())
    if isinstance(x, V) and len(x.axes) == 1:
        a = x.axes[0]
        return Perm(a.n if z3.is_expr(a.n) else z3.IntVal(a.n))
    raise Undecided("argsort form")


def install(theories, interp):
    for k in ("np", "numpy"):
        theories[k]["concatenate"] = np_concatenate
        theories[k]["argsort"] = np_argsort

    def expit(x):
        theory_np._use("scipy.special.expit: the logistic function, strictly between 0 and 1, expit(x) > 1/2 <=> x > 0")
        x = x if isinstance(x, V) else V(to_term(x))
        f = z3.Function("expit", z3.RealSort(), z3.RealSort())
        r = f(real(x.t))
        interp.ctx.assume(z3.And(r > 0, r < 1, (r > z3.RealVal("1/2")) == (real(x.t) > 0)))
        return V(r, x.axes, None)

    theories["scipy.special"] = {"expit": expit}
