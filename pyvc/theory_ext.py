"""Assumed contracts on external dependencies other than numpy/pandas: elexsolver, scipy.stats, and the
opaque (contract) version of elexmodel's own Featurizer used where its body is outside the subset.
"""
import ast
import os

import z3

from . import frames
from .values import ONE, ExcVal, Obj, SymRaise, Undecided, V, fresh_name, real, to_term

SITE = "/venv/lib/python3.12/site-packages"
TRUSTED = []


def _use(s):
    if s not in TRUSTED:
        TRUSTED.append(s)


# ---- call binding against the INSTALLED callee's real signature ----------------------------------------

_SIGS = {}


def real_signature(relpath, clsname, fname):
    key = (relpath, clsname, fname)
    if key not in _SIGS:
        tree = ast.parse(open(os.path.join(SITE, relpath)).read())
        node = None
        for n in tree.body:
            if isinstance(n, ast.ClassDef) and n.name == clsname:
                for m in n.body:
                    if isinstance(m, ast.FunctionDef) and m.name == fname:
                        node = m
        if node is None:
            raise Undecided(f"installed {relpath}:{clsname}.{fname} not found")
        a = node.args
        params = [p.arg for p in a.posonlyargs + a.args][1:]  # drop self
        ndef = len(a.defaults)
        defaults = {}
        for p, d in zip(params[len(params) - ndef:], a.defaults):
            try:
                defaults[p] = ast.literal_eval(d)
            except Exception:
                defaults[p] = ("<expr>", ast.unparse(d))
        _SIGS[key] = {"params": params, "defaults": defaults, "vararg": a.vararg.arg if a.vararg else None, "kwarg": a.kwarg.arg if a.kwarg else None, "kwonly": [p.arg for p in a.kwonlyargs]}
    return _SIGS[key]


def bind(sig, fname, args, kwargs):
    """CPython's argument binding; raises the interpreted TypeError on a mismatch."""
    params = sig["params"]
    bound = {}
    if len(args) > len(params) and not sig["vararg"]:
        raise SymRaise(ExcVal("TypeError", (f"{fname}() takes {len(params)} positional arguments but {len(args)} were given",)))
    for p, a in zip(params, args):
        bound[p] = a
    for k, v in kwargs.items():
        if k in bound:
            raise SymRaise(ExcVal("TypeError", (f"{fname}() got multiple values for argument '{k}'",)))
        if k not in params and k not in sig["kwonly"] and not sig["kwarg"]:
            raise SymRaise(ExcVal("TypeError", (f"{fname}() got an unexpected keyword argument '{k}'",)))
        bound[k] = v
    for p in params:
        if p not in bound:
            if p in sig["defaults"]:
                bound[p] = sig["defaults"][p]
            else:
                raise SymRaise(ExcVal("TypeError", (f"{fname}() missing 1 required positional argument: '{p}'",)))
    return bound


# ---- elexsolver.QuantileRegressionSolver (assumption A-QR) -----------------------------------------------


class FrameMatrix:
    """DataFrame.values of a design matrix: rows of a frame x named columns (possibly opaque)"""

    def __init__(self, frame):
        self.frame = frame

    def pyvc_getattr(self, interp, name):
        if name == "T":
            return self
        if name == "shape":
            return (self.frame.length(), len(self.frame.cols))
        raise Undecided(f"design matrix .{name}")


class QRModel:
    """One QuantileRegressionSolver instance.  A-QR: on success `coefficients` is a finite minimiser of the
    weighted pinball loss for (X, y, w, tau, lambda_); predict(X) = coefficients @ X.T (linear in the columns);
    failures are cvxpy UserWarning-as-error or cvxpy.error.SolverError; normalised weights with sum 0 raise
    ZeroDivisionError."""

    REL = "elexsolver/QuantileRegressionSolver.py"

    def __init__(self, interp):
        self.interp = interp
        self.calls = []
        self.id = fresh_name("qr")
        self.coefs = None  # dict column -> z3 Real (last successful fit)
        interp.__dict__.setdefault("qr_models", []).append(self)

    def pyvc_getattr(self, interp, name):
        if name == "fit":
            return self.fit
        if name == "predict":
            return self.predict
        if name == "coefficients":
            return OpaqueList("qr.coefficients")
        raise Undecided(f"QuantileRegressionSolver.{name}")

    def fit(self, *args, **kwargs):
        interp = self.interp
        _use("elexsolver.QuantileRegressionSolver.fit: arguments bound against the installed signature; A-QR")
        sig = real_signature(self.REL, "QuantileRegressionSolver", "fit")
        b = bind(sig, "QuantileRegressionSolver.fit", args, kwargs)
        n_call = sum(len(m.calls) for m in interp.qr_models)
        rec = dict(b)
        rec["_model"] = self.id
        rec["_index"] = n_call
        self.calls.append(rec)
        interp.call_log.append(("qr.fit", rec))
        plan = getattr(interp, "fault_plan", None)
        if plan and (plan.get("fail_call") == n_call or n_call in plan.get("fail_calls", ())):
            kind = plan["kind"]
            if kind == "SolverError":
                raise SymRaise(ExcVal("SolverError", ("solver failed",), ("cvxpy.error.SolverError", "Exception")))
            # an inaccurate solution is reported by a UserWarning: what happens is decided by the first matching warning filter
            action = next((a_ for a_, c_ in getattr(interp, "warning_filters", [("error", "UserWarning")]) if c_ in ("UserWarning", "Warning")), "default")
            if action == "error":
                raise SymRaise(ExcVal("UserWarning", ("Solution may be inaccurate.",), ("Warning", "Exception")))
            # ignored / printed: the call returns normally with the INACCURATE coefficients (fresh symbols, marked)
            self.inaccurate = getattr(self, "inaccurate", 0) + 1
        X = b["x"]
        w = b["weights"]
        # precondition of the solve: a positive total weight (otherwise ZeroDivisionError, see the installed source)
        if isinstance(X, FrameMatrix):
            n = X.frame.axis.n
            interp.ctx.oblige("qr.fit.pre.nonempty_training_set", n >= 1, kind="callee-pre", why="the solver divides by the weight sum: at least one training row is needed")
            # A-QR: the fit is a FUNCTION of its request -- a request that is provably equal (same rows, same design
            # columns, response, weights, tau, lambda, flags) to an earlier one yields the same coefficients
            req = _request_signature(X, b)
            prev = _find_equal_request(interp, req)
            if prev is not None:
                self.coefs, self.pred_fn = prev["coefs"], prev["pred_fn"]
            else:
                self.coefs = {cname: z3.Real(fresh_name(f"coef_{cname}")) for cname in X.frame.cols}
                self.pred_fn = z3.Function(fresh_name("qr_pred"), z3.IntSort(), z3.RealSort())
                interp.__dict__.setdefault("qr_requests", []).append(dict(req=req, coefs=self.coefs, pred_fn=self.pred_fn))
            self.fit_cols = list(X.frame.cols)
        else:
            self.coefs = None
        return None

    def predict(self, X):
        _use("elexsolver predict(X) = coefficients @ X.T : linear in the design-matrix columns (A-QR)")
        if isinstance(X, FrameMatrix):
            fr = X.frame
            if self.coefs is not None and all(not isinstance(c, frames.Poison) for c in fr.cols.values()) and list(fr.cols) == self.fit_cols and not getattr(fr, "opaque", False):
                t = z3.RealVal(0)
                for cname, c in fr.cols.items():
                    t = t + self.coefs[cname] * real(c.t)
                return V(t, (fr.axis,), None)
            # opaque design matrix: the prediction is a function of (this model's coefficients, the unit's row)
            if getattr(self, "pred_fn", None) is None:
                self.pred_fn = z3.Function(fresh_name("qr_pred"), z3.IntSort(), z3.RealSort())
            return V(self.pred_fn(fr.axis.root.u), (fr.axis,), None)
        raise Undecided("predict on something that is not a design matrix")


def _request_signature(X, b):
    fr = X.frame
    ax = fr.axis
    terms = [("dom", ax.doms[0] if len(ax.doms) == 1 else z3.Or(*ax.doms))]
    for cname, c in fr.cols.items():
        if not isinstance(c, frames.Poison):
            terms.append((f"x:{cname}", c.t))
    for k in ("y", "weights", "taus", "lambda_"):
        v = b.get(k)
        if isinstance(v, V):
            terms.append((k, v.t))
        else:
            terms.append((k, to_term(v) if v is not None else z3.IntVal(-1)))
    flags = tuple((k, b.get(k)) for k in ("fit_intercept", "regularize_intercept", "n_feat_ignore_reg", "normalize_weights") if not isinstance(b.get(k), V))
    return dict(root=ax.root, order=ax.order, terms=terms, flags=flags)


def _find_equal_request(interp, req):
    for prev in getattr(interp, "qr_requests", []):
        p = prev["req"]
        if p["root"] is not req["root"] or p["order"] != req["order"] or p["flags"] != req["flags"] or [k for k, _ in p["terms"]] != [k for k, _ in req["terms"]]:
            continue
        dom = req["terms"][0][1]
        conds = [p["terms"][0][1] == dom]
        for (k, a), (_, c) in zip(p["terms"][1:], req["terms"][1:]):
            if a.sort() != c.sort():
                a, c = real(a), real(c)
            conds.append(z3.Implies(dom, a == c) if k.startswith("x:") or k in ("y", "weights") else a == c)
        s = z3.Solver()
        s.set("timeout", 3000)
        for f in interp.ctx.pc:
            s.add(f)
        s.add(z3.Not(z3.And(*conds)))
        if s.check() == z3.unsat:
            return prev
    return None


class OpaqueList(list):
    def __init__(self, what):
        super().__init__()
        self.what = what


def qr_factory(interp):
    def QuantileRegressionSolver():
        return QRModel(interp)

    return QuantileRegressionSolver


# ---- contract (opaque) version of elexmodel.handlers.data.Featurizer.Featurizer ---------------------------


class XFrame(frames.Frame):
    """a design matrix whose column set is data dependent: only its rows are known"""

    opaque = True


class FeaturizerContract:
    """Contract used where Featurizer's body is outside the executable subset (dynamic column sets):
    prepare_data(df) returns a design matrix with exactly the rows of df in the same order;
    filter_to_active_features / generate_holdout_data keep rows and order.  (The content of the matrix is
    the subject of C16 and is checked there by the bounded stand-in.)"""

    def __init__(self, interp, features, fixed_effects, states_for_separate_model=()):
        self.interp = interp
        self.features = features
        self.fixed_effects = fixed_effects
        self.prepared = []

    def pyvc_getattr(self, interp, name):
        if name == "prepare_data":

            def prepare_data(df, center_features=True, scale_features=True, add_intercept=True):
                _use("Featurizer.prepare_data (contract): row- and order-preserving; reads only the feature / fixed-effect columns, postal_code, reporting and unit_category (never a results_* column)")
                self.prepared.append(df)
                reads = [c for c in (list(self.features) + list(self.fixed_effects if not isinstance(self.fixed_effects, dict) else self.fixed_effects.keys()) + ["postal_code", "reporting", "unit_category"]) if c in df.cols and not isinstance(df.cols[c], frames.Poison)]
                ax_ = df.axis
                sig = dict(root=ax_.root, doms=list(ax_.doms), order=ax_.order, names=reads, segcols=[[ax_.seg_term(df.cols[c].t, i) for c in reads] for i in range(len(ax_.doms))], args=(center_features, scale_features, add_intercept))
                fn = None
                for prev in getattr(interp, "design_requests", []):
                    p = prev["sig"]
                    if p["root"] is sig["root"] and p["order"] == sig["order"] and p["args"] == sig["args"] and len(p["doms"]) == len(sig["doms"]) and p["names"] == sig["names"]:
                        conds = [a == b_ for a, b_ in zip(p["doms"], sig["doms"])]
                        for i, dom_i in enumerate(sig["doms"]):
                            for a, b_ in zip(p["segcols"][i], sig["segcols"][i]):
                                if a.sort() != b_.sort():
                                    a, b_ = real(a), real(b_)
                                conds.append(z3.Implies(dom_i, a == b_))
                        sv = z3.Solver()
                        sv.set("timeout", 3000)
                        for f_ in interp.ctx.pc:
                            sv.add(f_)
                        sv.add(z3.Not(z3.And(*conds)))
                        if sv.check() == z3.unsat:
                            fn = prev["fn"]
                            break
                if fn is None:
                    fn = z3.Function(fresh_name("design"), z3.IntSort(), z3.RealSort())
                    interp.__dict__.setdefault("design_requests", []).append(dict(sig=sig, fn=fn))
                x = XFrame(df.axis, {"<design>": V(fn(df.axis.root.u), (df.axis,))}, df.index, df.idkey)
                x._ncols = z3.Int(fresh_name("n_complete_features"))
                interp.ctx.assume(x._ncols >= 1)
                return x

            return prepare_data
        if name in ("filter_to_active_features", "generate_holdout_data"):

            def keep(df):
                x = XFrame(df.axis, dict(df.cols), df.index, df.idkey)
                # the active features are some of the complete ones (at least the intercept / one column)
                if getattr(self, "_n_active", None) is None:
                    self._n_active = z3.Int(fresh_name("n_active_features"))
                    interp.ctx.assume(self._n_active >= 1)
                    if getattr(df, "_ncols", None) is not None:
                        interp.ctx.assume(self._n_active <= df._ncols)
                x._ncols = self._n_active
                return x

            return keep
        if name in ("complete_features", "active_features"):
            return OpaqueList(name)
        raise Undecided(f"Featurizer.{name} (contract)")


def featurizer_contract(interp, *args, **kwargs):
    return FeaturizerContract(interp, *args, **kwargs)


# ---- scipy.stats.norm.ppf ------------------------------------------------------------------------------------


def make_scipy(interp):
    zq = {}

    def ppf(q=None, loc=0, scale=1):
        _use("scipy.stats.norm.ppf(q, loc, scale) = loc + scale * z_q for finite scale (z_q a function of q only, increasing, z_0.5 = 0)")
        qt = to_term(q)
        from .values import tid

        key = tid(qt)
        if key not in zq:
            z = z3.Real(fresh_name("z_q"))
            zq[key] = z
            interp.ctx.assume(z3.Implies(real(qt) > z3.RealVal("1/2"), z > 0))
            interp.ctx.assume(z3.Implies(real(qt) == z3.RealVal("1/2"), z == 0))
        z = zq[key]
        loc = loc if isinstance(loc, V) else V(to_term(loc))
        scale = scale if isinstance(scale, V) else V(to_term(scale))
        return loc + scale * V(z)

    return {"norm": {"ppf": ppf}}


def py_namedtuple(name, fields, defaults=None, **kw):
    from .values import NamedTuple

    fields = list(fields)
    defaults = list(defaults or [])

    def make(*args, **kwargs):
        vals = list(args)
        for f in fields[len(vals):]:
            if f in kwargs:
                vals.append(kwargs[f])
            else:
                i = fields.index(f) - (len(fields) - len(defaults))
                if i < 0:
                    raise SymRaise(ExcVal("TypeError", (f"{name}() missing argument {f}",)))
                vals.append(defaults[i])
        return NamedTuple(name, fields, vals)

    return make


def _defaultdict(factory=None, *a, **k):
    import collections

    return collections.defaultdict((lambda: factory()) if factory is not None else None, *a, **k)


def install(theories, interp):
    def py_reduce(fn, seq, *init):
        seq = list(seq)
        if init:
            acc = init[0]
        else:
            if not seq:
                raise SymRaise(ExcVal("TypeError", ("reduce() of empty iterable with no initial value",)))
            acc, seq = seq[0], seq[1:]
        for x in seq:
            acc = fn(acc, x)
        return acc

    theories["functools"] = {"reduce": py_reduce}
    theories["collections"] = {"namedtuple": py_namedtuple, "defaultdict": _defaultdict}
    theories["elexsolver.QuantileRegressionSolver"] = {"QuantileRegressionSolver": qr_factory(interp)}
    sc = make_scipy(interp)
    theories["scipy"] = {"stats": sc}
    theories["scipy.stats"] = sc
    theories["stats"] = sc
    theories["cvxpy"] = {"error": {"SolverError": _exc_class("SolverError")}}
    # the warning filters that decide what a UserWarning of the solver becomes: a list, newest first, of (action, category);
    # the module-level filter of ConformalElectionModel ("error" for cvxpy's inaccuracy warning: obligation of C20.reach) is the
    # bottom entry; `with warnings.catch_warnings():` saves and restores the list (pyvc.interp.st_With)
    interp.warning_filters = [("error", "UserWarning")]

    def _filter(action, message="", category=None, module="", lineno=0, append=False, **kw):
        cat = getattr(category, "name", None) or getattr(category, "__name__", None) or getattr(category, "clsname", None) or (str(category) if category is not None else "Warning")
        entry = (str(action), cat)
        if append:
            interp.warning_filters.append(entry)
        else:
            interp.warning_filters.insert(0, entry)

    class _CatchWarnings:
        def pyvc_enter(self, interp_):
            self.saved = list(interp_.warning_filters)
            return None

        def pyvc_exit(self, interp_):
            interp_.warning_filters[:] = self.saved

    theories["warnings"] = {"filterwarnings": _filter, "simplefilter": lambda action, category=None, lineno=0, append=False, **kw: _filter(action, category=category, append=append), "catch_warnings": lambda **kw: _CatchWarnings(), "resetwarnings": lambda: interp.warning_filters.clear()}


def _exc_class(name):
    from .interp import ExcClass

    return ExcClass(name, ("Exception",))


# ---- order-insensitive statistics of a group's rows (math_utils.weighted_median / boot_sigma) -----------------


def _stat_rows(v):
    from . import sums

    axes = [a for a in v.axes if a is not ONE]
    if len(axes) != 1:
        raise Undecided("statistic of a non 1-D array")
    return sums._rows_cond(axes[0], z3.BoolVal(True))


def _occurs(sym, term):
    """does the term `sym` occur in `term`?"""
    seen, todo = set(), [term]
    while todo:
        t = todo.pop()
        if t.get_id() in seen:
            continue
        seen.add(t.get_id())
        if z3.eq(t, sym):
            return True
        todo.extend(t.children())
    return False


def weighted_median_contract(interp, x, weights):
    """math_utils.weighted_median(x, w): a function of the multiset {(x_i, w_i)} of the rows it is given (finite) -- the
    postcondition proved for the body in contracts/C15.py (weighted_median.body, weighted_median.order_insensitive)"""
    from . import sums

    _use("weighted_median(x, w) as a statistic of the multiset of (x_i, w_i) of its rows: PROVED for the real body in units C15.weighted_median.body / .order_insensitive (preconditions: >= 1 row, weights > 0 summing to 1 -- obligations at every call)")
    root, dom = _stat_rows(x)
    # the preconditions under which the BODY is verified (unit C15.weighted_median.body): at least one row, weights that are
    # non-negative and sum to one -- obligations of the caller, for every group pandas calls the function for
    wt = real(to_term(weights) if not isinstance(weights, V) else weights.t)
    ctx = interp.ctx
    facts = z3.And(*root.facts())
    cg = getattr(interp, "current_group", None)
    guard = cg["present"] if cg and cg["root"] is root else z3.BoolVal(True)
    wrow = cg["witness"] if cg and cg["root"] is root else None
    n_ob = ctx.__dict__.setdefault("_wm_calls", [0])
    n_ob[0] += 1
    tag = f"weighted_median.call{n_ob[0]}.pre"
    # ghost: a group total that occurs in the weights is at least the entry of the group's witness row (sum_ge_member; its
    # side condition -- non-negative summands -- is an obligation)
    if wrow is not None:
        for d_ in list(sums._registry(ctx)):
            if d_.space is root and z3.eq(z3.simplify(d_.dom), z3.simplify(dom)) and _occurs(d_.sym, wt):
                sums.lemma_sum_ge_member(ctx, d_, wrow, name=f"{tag}.lemma.total_at_least_witness_row")
    # (strictly positive: with a zero weight the result of the body would depend on the order of tied rows -- see the
    # unit C15.weighted_median.order_insensitive, which is what justifies treating the result as a statistic of the rows)
    ctx.oblige(f"{tag}.weights_positive", z3.Implies(z3.And(facts, dom, guard), wt > 0), kind="pre")
    total, dtot = sums.formal_sum_dom(ctx, root, dom, wt)
    ctx.oblige(f"{tag}.weights_sum_to_one", z3.Implies(guard, real(total) == 1), kind="pre")
    rows = ([wrow] if wrow is not None else []) + list(getattr(interp, "ghost_rows", []))
    some = z3.Or(*[z3.And(r >= 0, r < root.n, z3.substitute(dom, (root.u, r))) for r in rows]) if rows else z3.BoolVal(False)
    ctx.oblige(f"{tag}.at_least_one_row", z3.Implies(guard, some), kind="pre")
    sym, d = sums.formal_stat(interp.ctx, "wmedian", root, dom, [real(x.t), real(to_term(weights) if not isinstance(weights, V) else weights.t)])
    out = V(sym)
    out.meta = ("stat", d)
    return out


def boot_sigma_contract(interp, data, conf=None, num_iterations=10000, winsorize=False, seed=4191):
    """math_utils.boot_sigma(data, conf, ..., seed): A-SIGMA -- finite, positive, a function of the rows' data, conf, the
    winsorize switch and the seed"""
    from . import sums

    _use("A-SIGMA: math_utils.boot_sigma(data, conf, winsorize, seed) is a finite positive function of the multiset of its rows' data and of (conf, winsorize, seed)")
    root, dom = _stat_rows(data)
    # precondition of scipy.stats.bootstrap (it raises ValueError otherwise): at least two observations -- an obligation of the
    # caller, for every group pandas calls the function for (count of the rows handed over)
    from .frames import count_of

    ctx = interp.ctx
    cg = getattr(interp, "current_group", None)
    guard = cg["present"] if cg and cg["root"] is root else z3.BoolVal(True)
    n_ob = ctx.__dict__.setdefault("_bs_calls", [0])
    n_ob[0] += 1
    ctx.oblige(f"boot_sigma.call{n_ob[0]}.pre.at_least_two_observations", z3.Implies(guard, count_of(root, dom) >= 2), kind="pre", why="scipy.stats.bootstrap needs two or more observations (ValueError otherwise)")
    extra = [real(to_term(conf)), to_term(bool(winsorize)) if isinstance(winsorize, bool) else to_term(winsorize), to_term(seed), to_term(num_iterations)]
    sym, d = sums.formal_stat(interp.ctx, "bootsigma", root, dom, [real(data.t)], extra)
    interp.ctx.assume(sym > 0)
    out = V(sym)
    out.meta = ("stat", d)
    return out
