"""Column-wise (label-indexed) reductions of a frame and what the Featurizer does with them.

LabelSeries: the result of DataFrame.mean() / .sum(axis=0) -- one scalar per (concrete) column name.
StrArray:    np.asarray(list of names); indexing it with a label-indexed boolean Series selects names (one branch per
             entry -- the set of selected names becomes concrete on every path).
"""
import z3

from . import sums
from .values import Undecided, V


class LabelSeries:
    def __init__(self, data):
        self.data = dict(data)  # name -> scalar V

    def _map(self, f):
        return LabelSeries({k: f(v) for k, v in self.data.items()})

    def __gt__(self, o):
        return self._map(lambda v: v > o)

    def __ge__(self, o):
        return self._map(lambda v: v >= o)

    def __lt__(self, o):
        return self._map(lambda v: v < o)

    def __le__(self, o):
        return self._map(lambda v: v <= o)

    def pyvc_getitem(self, interp, key):
        if isinstance(key, str):
            return self.data[key]
        raise Undecided("label-indexed Series[...] form")

    def pyvc_len(self, interp):
        return len(self.data)


class StrArray(list):
    """np.asarray(list of strings)"""

    def pyvc_getitem(self, interp, key):
        if isinstance(key, LabelSeries):
            if list(key.data) != list(self):
                raise Undecided("boolean label mask over other names than the array")
            out = []
            for name in self:
                b = key.data[name]
                if isinstance(b, V):
                    if interp.ctx.branch(b, f"select[{name}]"):
                        out.append(name)
                elif b:
                    out.append(name)
            return StrArray(out)
        if isinstance(key, (int, slice)):
            r = list.__getitem__(self, key)
            return StrArray(r) if isinstance(key, slice) else r
        raise Undecided("indexing an array of names")


def frame_reduce(frame, interp, which, axis=0):
    from .frames import _use

    names = list(frame.cols)
    if axis == 0:
        _use(f"DataFrame.{which}(axis=0): one value per column (label-indexed)")
        out = {}
        for k in names:
            c = frame.col(k)
            if which == "sum":
                out[k] = sums.reduce_sum(interp, V(c.t, (frame.axis,), None, c.nan, c.inf), None)
                _ghost(interp, frame, k, out[k])
            elif which == "mean":
                out[k] = sums.reduce_mean(interp, V(c.t, (frame.axis,), None, c.nan, c.inf), None)
            else:
                raise Undecided(f"DataFrame.{which}")
        return LabelSeries(out)
    if axis == 1:
        _use(f"DataFrame.{which}(axis=1): row-wise over the selected columns")
        if which != "sum":
            raise Undecided(f"DataFrame.{which}(axis=1)")
        if not names:
            return V(z3.IntVal(0), (frame.axis,), frame.index)
        tot = None
        for k in names:
            c = frame.col(k)
            v = V(c.t, (frame.axis,), frame.index, c.nan, c.inf)
            tot = v if tot is None else tot + v
        return tot
    raise Undecided("reduction axis")


def _ghost(interp, frame, name, total):
    """ghost lemma instances for a column sum of non-negative entries, at the rows the harness registered
    (interp.ghost_rows): the sum is >= the entry of such a row that is in the frame; and a Skolem witness row for a
    non-zero sum (kept in interp.sum_witnesses[(frame rows, column)])."""
    from . import frames as _fr

    d = total.meta[1] if isinstance(total.meta, tuple) and total.meta and total.meta[0] == "sum" else None
    if d is None or isinstance(d, list):
        return
    if not _fr._provably(interp, z3.Implies(z3.And(*d.space.facts(), d.dom), d.summand >= 0)):
        return
    for r in list(getattr(interp, "ghost_rows", [])) + [d.space.u]:
        sums.lemma_sum_ge_member(interp.ctx, d, r, name=f"lemma.column_sum_ge_entry[{name}]")
    w = sums.sum_nonzero_witness(interp.ctx, d)
    interp.__dict__.setdefault("sum_witnesses", {})[(frame.axis.name, name)] = (w, d)


def frame_binop(frame, interp, opname, other, rev):
    """DataFrame (op) label-indexed Series: column by column"""
    import operator

    ops = {"Sub": operator.sub, "Add": operator.add, "Div": operator.truediv, "Mult": operator.mul}
    if isinstance(other, LabelSeries) and opname in ops and not rev:
        if list(other.data) != list(frame.cols):
            raise Undecided("frame (op) Series with other labels")
        out = frame._new()
        for k in frame.cols:
            c = frame.col(k)
            r = ops[opname](V(c.t, (frame.axis,), frame.index, c.nan, c.inf), other.data[k])
            out.cols[k] = V(r.t, (out.axis,), out.index, r.nan, r.inf)
        return out
    return NotImplemented
