"""Symbolic value domain: scalars and pointwise-abstracted arrays over z3.

A `V` is a z3 term together with a tuple of *axes*.  An array of shape (n_S, n_T) over index spaces S, T
is represented by ONE term over the generic (Skolem) indices S.u, T.u -- the value of the array at an
arbitrary position.  Elementwise numpy/pandas operations are then operations on terms; a universally
quantified postcondition "for every row" is proved for the generic index.  Reductions along an axis are
uninterpreted symbols related only through lemma instances (pyvc.sums).

Floats are modelled as mathematical reals (assumption A-REAL); division records where the result may be
NaN / infinite (divisor zero) in V.nan / V.inf.
"""
import itertools

import z3


class Undecided(Exception):
    """The executor met something outside its subset: every obligation of the function is undecided."""


ANY = object()


def only_kw(what, kw, **accepted):
    """the keyword arguments a library-contract entry does NOT model must not be passed: a keyword that is silently
    ignored would make the contract describe another call than the one in the code.  accepted: name -> tuple of values
    whose meaning the contract covers (usually the library default), or ANY."""
    import os

    for k, v in kw.items():
        ok = accepted.get(k, ())
        if ok is ANY:
            continue
        try:
            good = any((v is a) or (type(v) is type(a) and v == a) for a in ok)
        except Exception:
            good = False
        if not good:
            if os.environ.get("VERIF_KWLOG"):
                with open(os.environ["VERIF_KWLOG"], "a") as f:
                    f.write(f"{what}\t{k}\t{v!r}\n")
                continue
            raise Undecided(f"{what}: keyword {k}={v!r} is outside the library contract")


class SymRaise(Exception):
    """A `raise` in the interpreted program."""

    def __init__(self, exc):
        super().__init__(str(exc))
        self.exc = exc


class ExcVal:
    def __init__(self, clsname, args=(), bases=()):
        self.clsname = clsname
        self.args = args
        self.bases = tuple(bases)  # names of base classes (for except matching)

    def isinstance_of(self, name):
        return name == self.clsname or name in self.bases or name in ("Exception", "BaseException")

    def __repr__(self):
        return f"{self.clsname}{self.args!r}"


_counter = itertools.count()


_KEEP = []


def tid(t):
    """the z3 AST id of `t` as a dictionary key: the term is kept alive for the rest of the process, because z3 recycles
    the ids of freed ASTs (a key built from a temporary could later collide with a different term)"""
    _KEEP.append(t)
    return t.get_id()


def fresh_name(base):
    return f"{base}!{next(_counter)}"


class Space:
    """An index space (rows of a frame, draws of the bootstrap, contests, ...) of symbolic length n >= 0.
    u is the generic index; u2 a second generic index for two-point properties."""

    def __init__(self, name, n=None):
        self.name = name
        self.u = z3.Int(f"u_{name}")
        self.u2 = z3.Int(f"u2_{name}")
        self.n = n if n is not None else z3.Int(f"n_{name}")

    def facts(self):
        n = self.n if z3.is_expr(self.n) else z3.IntVal(self.n)
        return [n >= 0, self.u >= 0, self.u < n, self.u2 >= 0, self.u2 < n]

    def __repr__(self):
        return f"Space({self.name})"


class SubSpace:
    """Rows of `parent` selected by boolean `mask` (a z3 term over parent.u), order preserved."""

    def __init__(self, parent, mask):
        self.parent = parent
        self.mask = mask
        self.u = parent.u
        self.u2 = parent.u2
        self.name = f"{parent.name}[{mask}]"
        self.n = z3.Int(fresh_name(f"n_sub_{root_space(parent).name}"))

    def facts(self):
        return self.parent.facts() + [self.mask, self.n >= 0, self.n <= self.parent.n]

    def __repr__(self):
        return f"SubSpace({self.parent.name}|{self.mask})"


def root_space(ax):
    while isinstance(ax, SubSpace):
        ax = ax.parent
    if hasattr(ax, "root"):  # frames.RowAxis
        ax = ax.root
    return ax


class _One:
    def __repr__(self):
        return "ONE"


ONE = _One()  # an axis of length 1


def is_sym(x):
    return isinstance(x, V)


def to_term(x):
    """python scalar / V -> z3 term"""
    if isinstance(x, V):
        return x.t
    if isinstance(x, bool):
        return z3.BoolVal(x)
    if isinstance(x, int):
        return z3.IntVal(x)
    if isinstance(x, float):
        if x != x or x in (float("inf"), float("-inf")):
            raise Undecided(f"non-finite float constant {x}")
        return z3.RealVal(repr(x))
    if isinstance(x, str):
        return z3.StringVal(x)
    if z3.is_expr(x):
        return x
    if isinstance(getattr(x, "v", None), V):  # theory_np.SeqLen
        return x.v.t
    raise Undecided(f"cannot convert {type(x).__name__} to a term")


def num(t):
    """Bool -> {0,1}; others unchanged"""
    if z3.is_bool(t):
        return z3.If(t, z3.IntVal(1), z3.IntVal(0))
    return t


def real(t):
    t = num(t)
    if z3.is_int(t):
        return z3.ToReal(t)
    return t


def same_axis(a, b):
    if a is b:
        return True
    if hasattr(a, "doms") and hasattr(b, "doms"):
        from .frames import same_rows, provably_same_rows

        return same_rows(a, b) or provably_same_rows(a, b)
    if isinstance(a, SubSpace) and isinstance(b, SubSpace):
        return same_axis(a.parent, b.parent) and z3.eq(z3.simplify(a.mask), z3.simplify(b.mask))
    return False


ALIGN_HOOK = [None]  # set by the harness: emits a positional-alignment obligation for two row axes


def broadcast_axes(a, b, what="op"):
    """numpy broadcasting of two axis tuples (right-aligned)."""
    la, lb = len(a), len(b)
    n = max(la, lb)
    a2 = (ONE,) * (n - la) + tuple(a)
    b2 = (ONE,) * (n - lb) + tuple(b)
    out = []
    for x, y in zip(a2, b2):
        if x is ONE:
            out.append(y)
        elif y is ONE:
            out.append(x)
        elif same_axis(x, y):
            out.append(x)
        elif ALIGN_HOOK[0] is not None and ALIGN_HOOK[0](x, y, what):
            out.append(x)
        else:
            raise Undecided(f"shape mismatch in {what}: axes {a} vs {b} (cannot show {x} and {y} are the same rows)")
    return tuple(out)


def _or(a, b):
    if a is None:
        return b
    if b is None:
        return a
    return z3.Or(a, b)


class V:
    """Symbolic value.  t: z3 term.  axes: () for a scalar.  series: index tag (None for ndarray/scalar).
    nan / inf: optional z3 Bool -- where the value may be NaN / +-infinite."""

    __slots__ = ("t", "axes", "series", "nan", "inf", "meta", "view_of")
    __array_priority__ = 1000

    def __init__(self, t, axes=(), series=None, nan=None, inf=None, meta=None):
        if isinstance(t, V):
            raise TypeError("nested V")
        self.view_of = None  # set by the theory entries that return a VIEW of another array (.values, .T, reshape)
        self.t = t if z3.is_expr(t) else to_term(t)
        self.axes = tuple(axes)
        self.series = series
        self.nan = nan
        self.inf = inf
        self.meta = meta

    # -- helpers ---------------------------------------------------------------------------------
    def like(self, t, axes=None, nan=None, inf=None, series="keep"):
        return V(t, self.axes if axes is None else axes, self.series if series == "keep" else series, nan, inf)

    @property
    def is_bool(self):
        return z3.is_bool(self.t)

    @property
    def is_scalar(self):
        return len(self.axes) == 0

    def nf(self):
        return _or(self.nan, self.inf)

    def __repr__(self):
        return f"V({self.t}, axes={self.axes})"

    def __hash__(self):
        return id(self)

    def __bool__(self):
        raise Undecided("truth value of a symbolic value used outside a modelled branch")

    # -- arithmetic ------------------------------------------------------------------------------
    def _bin(self, other, fn, what, reverse=False, boolean=False):
        if isinstance(other, (list, tuple, dict, set)) or other is None:
            return NotImplemented
        o = other if isinstance(other, V) else V(to_term(other))
        a, b = (o, self) if reverse else (self, o)
        axes = broadcast_axes(a.axes, b.axes, what)
        series = a.series if a.series is not None else b.series
        if a.series is not None and b.series is not None and a.series != b.series:
            raise Undecided(f"{what} on two Series with different indexes ({a.series} vs {b.series}): label alignment")
        t = fn(a.t, b.t)
        return V(t, axes, series, _or(a.nan, b.nan), _or(a.inf, b.inf))

    def __add__(self, o):
        return self._bin(o, lambda x, y: _addstr(x, y), "+")

    def __radd__(self, o):
        return self._bin(o, lambda x, y: _addstr(x, y), "+", reverse=True)

    def __sub__(self, o):
        return self._bin(o, lambda x, y: num(x) - num(y), "-")

    def __rsub__(self, o):
        return self._bin(o, lambda x, y: num(x) - num(y), "-", reverse=True)

    def _mul(self, o, reverse=False):
        r = self._bin(o, lambda x, y: num(x) * num(y), "*", reverse=reverse)
        if r is NotImplemented:
            return r
        ov = o if isinstance(o, V) else None
        # IEEE: infinity * 0 is NaN (not infinity) -- an entry flagged infinite on one side and exactly 0 on the other
        extra = None
        if self.inf is not None:
            ot = ov.t if ov is not None else to_term(o)
            extra = _or(extra, z3.And(self.inf, num(ot) == 0))
        if ov is not None and ov.inf is not None:
            extra = _or(extra, z3.And(ov.inf, num(self.t) == 0))
        if extra is not None:
            r = V(r.t, r.axes, r.series, _or(r.nan, extra), r.inf, r.meta)
        return r

    def __mul__(self, o):
        return self._mul(o)

    def __rmul__(self, o):
        return self._mul(o, reverse=True)

    def _div(self, o, reverse=False):
        other = o if isinstance(o, V) else V(to_term(o))
        a, b = (other, self) if reverse else (self, other)
        axes = broadcast_axes(a.axes, b.axes, "/")
        at, bt = real(a.t), real(b.t)
        series = a.series if a.series is not None else b.series
        if a.series is not None and b.series is not None and a.series != b.series:
            raise Undecided(f"/ on two Series with different indexes ({a.series} vs {b.series}): label alignment")
        zero = z3.simplify(bt == 0)
        nan, inf = a.nan, a.inf
        nan = _or(nan, b.nan)
        nan = _or(nan, b.inf)
        if not z3.is_false(zero) and not _infeasible(zero):
            nan = _or(nan, z3.And(zero, at == 0))
            inf = _or(inf, z3.And(zero, at != 0))
        return V(at / bt, axes, series, nan, inf)

    def __truediv__(self, o):
        return self._div(o)

    def __rtruediv__(self, o):
        return self._div(o, reverse=True)

    def __floordiv__(self, o):
        def f(x, y):
            x, y = num(x), num(y)
            if z3.is_int(x) and z3.is_int(y):
                return x / y  # z3 Int division: floor for positive divisor
            return z3.ToReal(z3.ToInt(real(x) / real(y)))

        return self._bin(o, f, "//")

    def __neg__(self):
        return self.like(-num(self.t), nan=self.nan, inf=self.inf)

    def __pos__(self):
        return self

    def __abs__(self):
        t = num(self.t)
        return self.like(z3.If(t >= 0, t, -t), nan=self.nan, inf=self.inf)

    def __pow__(self, p):
        if isinstance(p, int) and 0 <= p <= 4:
            t = z3.IntVal(1)
            for _ in range(p):
                t = t * num(self.t)
            return self.like(t, nan=self.nan, inf=self.inf)
        if isinstance(p, float) and p == 0.5:
            from . import theory_np

            return theory_np.np_sqrt(self)
        raise Undecided(f"power with exponent {p!r}")

    # -- comparisons -----------------------------------------------------------------------------
    def _cmp(self, o, fn, what):
        if o is None:
            return False if what == "==" else True if what == "!=" else NotImplemented
        r = self._bin(o, fn, what)
        if r is not NotImplemented and self.inf is not None and _is_posinf(self) and what in (">", ">="):
            # +inf exceeds every finite bound
            r = V(z3.Or(self.inf, r.t), r.axes, r.series, r.nan, None)
        # comparisons with NaN are False (numpy): account for it where a NaN may be present
        if r is not NotImplemented and r.nan is not None:
            r = V(z3.And(z3.Not(r.nan), r.t) if what != "!=" else z3.Or(r.nan, r.t), r.axes, r.series)
        elif r is not NotImplemented:
            r.nan = None
            r.inf = None
        return r

    def __lt__(self, o):
        return self._cmp(o, lambda x, y: num(x) < num(y), "<")

    def __le__(self, o):
        return self._cmp(o, lambda x, y: num(x) <= num(y), "<=")

    def __gt__(self, o):
        return self._cmp(o, lambda x, y: num(x) > num(y), ">")

    def __ge__(self, o):
        return self._cmp(o, lambda x, y: num(x) >= num(y), ">=")

    def __eq__(self, o):
        return self._cmp(o, _eq, "==")

    def __ne__(self, o):
        return self._cmp(o, lambda x, y: z3.Not(_eq(x, y)), "!=")

    # -- boolean ---------------------------------------------------------------------------------
    def __and__(self, o):
        return self._bin(o, lambda x, y: z3.And(_b(x), _b(y)), "&")

    def __rand__(self, o):
        return self._bin(o, lambda x, y: z3.And(_b(x), _b(y)), "&", reverse=True)

    def __or__(self, o):
        return self._bin(o, lambda x, y: z3.Or(_b(x), _b(y)), "|")

    def __ror__(self, o):
        return self._bin(o, lambda x, y: z3.Or(_b(x), _b(y)), "|", reverse=True)

    def __invert__(self):
        if not self.is_bool:
            raise Undecided("~ on a non-boolean array")
        return self.like(z3.Not(self.t))


PC_PROVIDER = [None]  # set by the harness: callable returning the current path condition


def _infeasible(cond):
    """is `cond` impossible under the current path condition? (quick check; False when unsure)"""
    prov = PC_PROVIDER[0]
    if prov is None:
        return False
    s = z3.Solver()
    s.set("timeout", 1500)
    for f in prov():
        s.add(f)
    s.add(cond)
    return s.check() == z3.unsat


def _is_posinf(v):
    m = v.meta
    if isinstance(m, str):
        return m == "posinf"
    return isinstance(m, tuple) and len(m) == 2 and isinstance(m[1], dict) and bool(m[1].get("posinf"))


def _b(t):
    if z3.is_bool(t):
        return t
    return t != 0


def _addstr(x, y):
    if z3.is_string(x) or z3.is_string(y):
        return z3.Concat(x, y)
    return num(x) + num(y)


def _eq(x, y):
    if z3.is_bool(x) and not z3.is_bool(y):
        x = num(x)
    if z3.is_bool(y) and not z3.is_bool(x):
        y = num(y)
    if x.sort() != y.sort():
        if z3.is_string(x) or z3.is_string(y):
            return z3.BoolVal(False)
        x, y = real(x), real(y)
    return x == y


def ite(c, a, b):
    """pointwise if-then-else on V / python scalars."""
    c = c if isinstance(c, V) else V(to_term(c))
    a = a if isinstance(a, V) else V(to_term(a))
    b = b if isinstance(b, V) else V(to_term(b))
    axes = broadcast_axes(broadcast_axes(c.axes, a.axes, "where"), b.axes, "where")
    at, bt = a.t, b.t
    if at.sort() != bt.sort():
        at, bt = real(at), real(bt)
    nan = None
    if a.nan is not None or b.nan is not None:
        nan = z3.If(_b(c.t), a.nan if a.nan is not None else z3.BoolVal(False), b.nan if b.nan is not None else z3.BoolVal(False))
    inf = None
    if a.inf is not None or b.inf is not None:
        inf = z3.If(_b(c.t), a.inf if a.inf is not None else z3.BoolVal(False), b.inf if b.inf is not None else z3.BoolVal(False))
    series = a.series if a.series is not None else b.series if b.series is not None else c.series
    return V(z3.If(_b(c.t), at, bt), axes, series, nan, inf)


def at_index(v, space, idx):
    """value of v at index `idx` along `space` (substitute the generic index)."""
    return V(z3.substitute(v.t, (space.u, idx)), tuple(a for a in v.axes if root_space(a) is not root_space(space) or a is ONE))


def at_u2(v):
    """the same value at the second generic index of every axis."""
    subs = []
    for a in v.axes:
        if a is ONE:
            continue
        r = root_space(a)
        subs.append((r.u, r.u2))
    return z3.substitute(v.t, *subs) if subs else v.t


class Obj:
    """An object of an elexmodel class (e.g. `self`): attribute dictionary + class reference."""

    def __init__(self, mod, clsnode, attrs=None, name=None):
        self.mod = mod
        self.clsnode = clsnode
        self.attrs = dict(attrs or {})
        self.name = name or (clsnode.name if clsnode is not None else "obj")
        self.written = []  # attribute writes performed by interpreted code (for frame obligations)

    def __repr__(self):
        return f"<Obj {self.name}>"


class NamedTuple:
    def __init__(self, clsname, fields, values):
        self.clsname = clsname
        self.fields = list(fields)
        self.values = list(values)

    def __getattr__(self, k):
        if k in ("clsname", "fields", "values"):
            raise AttributeError(k)
        if k in self.fields:
            return self.values[self.fields.index(k)]
        raise AttributeError(k)

    def __iter__(self):
        return iter(self.values)

    def __getitem__(self, i):
        return self.values[i]

    def __len__(self):
        return len(self.values)
