"""pyvc -- a purpose-built verification-condition generator for the Python code of
washingtonpost/elex-live-model.

The real source of each function under contract is re-read from /repo's working tree on every run,
parsed with `ast`, and symbolically executed (pyvc.interp) over z3 terms with the theory libraries of
pyvc.theory_*.  Contracts are sidecar Python files under /verif/contracts.  See /verif/DESIGN.md.
"""
import os

REPO = os.environ.get("VERIF_REPO", "/repo")
SRC = os.path.join(REPO, "src")
VERIF = os.path.dirname(os.path.dirname(os.path.abspath(__file__)))
VENV_PY = os.environ.get("VERIF_VENV_PY", "/venv/bin/python")
