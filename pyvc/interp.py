"""Symbolic interpreter for the Python subset used by the functions under contract.

Execution is by *decision replay*: a path is run from the start of the harness with a list of branch
decisions; when a symbolic branch is met beyond the recorded prefix the first feasible direction is
taken and the other one is queued.  This keeps the interpreter a plain recursive evaluator (forks may
occur anywhere, including inside theory functions and inlined callees) at the price of re-execution.
"""
import ast
import operator

import z3

from . import source
from .values import ONE, ExcVal, NamedTuple, Obj, Space, SubSpace, SymRaise, Undecided, V, ite, tid, to_term


class Obligation:
    def __init__(self, name, pc, goal, meta=None):
        self.name = name
        self.pc = list(pc)
        self.goal = goal
        self.meta = meta or {}

    def __repr__(self):
        return f"<Obligation {self.name}>"


class PathCtx:
    """State of one path: path condition, decisions, obligations, notes."""

    def __init__(self, decisions, explorer):
        self.pc = []
        self.decisions = list(decisions)
        self.pos = 0
        self.explorer = explorer
        self.obligations = []
        self.notes = explorer.notes
        self.trace = []
        self.branches = []  # the branch conditions among pc (the rest are assumed facts)

    def assume(self, f):
        if isinstance(f, V):
            f = f.t
        if f is True:
            return
        self.pc.append(f)

    def oblige(self, name, goal, **meta):
        if isinstance(goal, V):
            goal = goal.t
        if isinstance(goal, bool):
            goal = z3.BoolVal(goal)
        self.obligations.append(Obligation(name, self.pc, goal, meta))

    def feasible(self, extra):
        s = z3.Solver()
        s.set("timeout", 1200)
        for f in self.pc:
            s.add(f)
        s.add(extra)
        r = s.check()
        return r != z3.unsat

    def branch(self, cond, label=""):
        """Decide a branch on `cond` (python bool, z3 Bool, or scalar V)."""
        if isinstance(cond, V):
            if not cond.is_scalar:
                raise Undecided("truth value of an array")
            cond = cond.t
            if not z3.is_bool(cond):
                cond = cond != 0
        if not z3.is_expr(cond):
            return bool(cond)
        cond = z3.simplify(cond)
        if z3.is_true(cond):
            return True
        if z3.is_false(cond):
            return False
        if self.pos < len(self.decisions):
            d = self.decisions[self.pos]
        else:
            can_t = self.feasible(cond)
            can_f = self.feasible(z3.Not(cond))
            if can_t and can_f:
                d = True
                self.explorer.pending.append(self.decisions[: self.pos] + [False])
            elif can_t:
                d = True
            elif can_f:
                d = False
            else:
                raise InfeasiblePath()
            self.decisions.append(d)
        self.pos += 1
        self.pc.append(cond if d else z3.Not(cond))
        self.branches.append(self.pc[-1])
        self.trace.append((label, d))
        return d


def _is_generator(node):
    """does the function body contain a yield of its own (not one of a nested function)?"""
    stack = list(node.body)
    while stack:
        n = stack.pop()
        if isinstance(n, (ast.Yield, ast.YieldFrom)):
            return True
        if isinstance(n, (ast.FunctionDef, ast.AsyncFunctionDef, ast.Lambda, ast.ClassDef)):
            continue
        stack.extend(ast.iter_child_nodes(n))
    return False


class InfeasiblePath(Exception):
    pass


class PathDone(Exception):
    """a verification-only path ends here (e.g. the preservation branch of a loop contract): its obligations count"""


class PathResult:
    def __init__(self, kind, value, ctx):
        self.kind = kind  # 'return' | 'raise'
        self.value = value
        self.pc = list(ctx.pc)
        self.obligations = ctx.obligations
        self.trace = ctx.trace
        self.extra = {}


class Explorer:
    def __init__(self, max_paths=400):
        self.pending = []
        self.max_paths = max_paths
        self.notes = {"havoc": [], "dropped": set(), "inlined": set(), "contracts_used": set()}

    def run(self, harness):
        """harness(ctx) -> value (may raise SymRaise).  Returns list[PathResult]."""
        results = []
        self.pending = [[]]
        self.undecided_paths = []
        n = 0
        while self.pending:
            dec = self.pending.pop()
            n += 1
            if n > self.max_paths:
                raise Undecided(f"more than {self.max_paths} paths")
            ctx = PathCtx(dec, self)
            try:
                val = harness(ctx)
                results.append(PathResult("return", val, ctx))
            except SymRaise as e:
                results.append(PathResult("raise", e.exc, ctx))
            except PathDone:
                results.append(PathResult("done", None, ctx))
            except InfeasiblePath:
                continue
            except Undecided as e:
                # this PATH left the subset: it is undecided; the other paths (and what this one had already obliged
                # before it left the subset) are still checked -- a refutation found there is a refutation
                if not results and not self.pending:
                    raise  # (the only path: the whole unit is undecided, with the original traceback)
                self.undecided_paths.append(e)
                results.append(PathResult("undecided", None, ctx))
        if self.undecided_paths and not any(r.kind != "undecided" for r in results):
            raise self.undecided_paths[0]
        return results


# ---------------------------------------------------------------------------------------------------


class Closure:
    def __init__(self, node, env, interp, mod, cls=None, qualname=None, bound_self=None):
        self.node = node
        self.env = env
        self.interp = interp
        self.mod = mod
        self.cls = cls
        self.qualname = qualname
        self.bound_self = bound_self

    def __call__(self, *args, **kwargs):
        if self.bound_self is not None:
            args = (self.bound_self,) + tuple(args)
        return self.interp.call_closure(self, list(args), kwargs)


class ModuleNS:
    """Attribute namespace for an external module (np, pd, math, ...) backed by a theory table."""

    def __init__(self, name, table, interp):
        self._name = name
        self._table = table
        self._interp = interp

    def __getattr__(self, k):
        if k.startswith("_") or k.startswith("pyvc_"):
            raise AttributeError(k)
        if k in self._table:
            v = self._table[k]
            if isinstance(v, dict):
                return ModuleNS(self._name + "." + k, v, self._interp)
            return v
        raise Undecided(f"{self._name}.{k} has no theory entry")


class _Return(Exception):
    def __init__(self, value):
        self.value = value


class _Break(Exception):
    pass


class _Continue(Exception):
    pass


BINOPS = {
    ast.Add: operator.add,
    ast.Sub: operator.sub,
    ast.Mult: operator.mul,
    ast.Div: operator.truediv,
    ast.FloorDiv: operator.floordiv,
    ast.Mod: operator.mod,
    ast.Pow: operator.pow,
    ast.BitAnd: operator.and_,
    ast.BitOr: operator.or_,
    ast.BitXor: operator.xor,
    ast.MatMult: operator.matmul,
}
CMPOPS = {
    ast.Eq: operator.eq,
    ast.NotEq: operator.ne,
    ast.Lt: operator.lt,
    ast.LtE: operator.le,
    ast.Gt: operator.gt,
    ast.GtE: operator.ge,
}


class Interp:
    """One interpreter per path."""

    def __init__(self, ctx, theories, contracts=None, inline_depth=4):
        self.ctx = ctx
        self.theories = theories  # dict: module name -> table ; plus 'builtins'
        self.contracts = contracts or {}
        self.depth = 0
        self.inline_depth = inline_depth
        self.call_log = []  # (qualname-or-description, args, kwargs) of contract/external calls of interest

    # ----------------------------------------------------------------------------------------------
    def module_env(self, mod):
        """Global namespace of an elexmodel module as seen by interpreted code."""
        return _ModEnv(mod, self)

    def load_closure(self, qualname, bound_self=None):
        fs = source.load(qualname)
        return Closure(fs.node, self.module_env(fs.mod), self, fs.mod, fs.cls, qualname, bound_self)

    def call_qualname(self, qualname, *args, **kwargs):
        return self.load_closure(qualname)(*args, **kwargs)

    def call_closure(self, clo, args, kwargs):
        node = clo.node
        if self.depth > 40:
            raise Undecided("call depth exceeded (recursion?)")
        env = Env(clo.env)
        if isinstance(node, ast.Lambda):
            self.bind_args(node.args, args, kwargs, env, clo, "<lambda>")
            self.depth += 1
            try:
                return self.ev(node.body, env)
            finally:
                self.depth -= 1
        self.bind_args(node.args, args, kwargs, env, clo, node.name)
        env.func = clo
        if _is_generator(node):
            # a generator function is run EAGERLY: its yields are collected, in order, into the sequence the caller then
            # iterates over.  Equivalent to lazy evaluation when the consumer does not interfere with the state the
            # generator reads between two yields (the caller's loop body is checked by the container's loop rule).
            self.ctx.notes["dropped"].add(f"lazy evaluation of generator {clo.qualname or node.name} (run eagerly)")
            env.yield_sink = []
            self.depth += 1
            try:
                self.exec_block(node.body, env)
            except _Return:
                pass
            finally:
                self.depth -= 1
            sink = env.yield_sink
            if len(sink) == 1 and hasattr(sink[0], "pyvc_foreach"):
                return sink[0]  # the yields of one loop over a symbolic container: a symbolic sequence
            if any(hasattr(x, "pyvc_foreach") for x in sink):
                raise Undecided("generator mixing symbolic and concrete yields")
            return list(sink)
        self.depth += 1
        try:
            self.exec_block(node.body, env)
        except _Return as r:
            return r.value
        finally:
            self.depth -= 1
        return None

    def ex_Yield(self, e, env):
        p = env
        while p is not None and not hasattr(p, "yield_sink"):
            p = getattr(p, "parent", None)
        if p is None:
            raise Undecided("yield outside a generator function")
        p.yield_sink.append(self.ev(e.value, env) if e.value is not None else None)
        return None

    def bind_args(self, a, args, kwargs, env, clo, fname):
        params = [p.arg for p in a.posonlyargs + a.args]
        defaults = a.defaults
        kwargs = dict(kwargs)
        ndef = len(defaults)
        for i, p in enumerate(params):
            if i < len(args):
                if p in kwargs:
                    raise SymRaise(ExcVal("TypeError", (f"{fname}() got multiple values for argument '{p}'",)))
                env.set(p, args[i])
            elif p in kwargs:
                env.set(p, kwargs.pop(p))
            else:
                di = i - (len(params) - ndef)
                if di >= 0:
                    env.set(p, self.ev(defaults[di], clo.env))
                else:
                    raise SymRaise(ExcVal("TypeError", (f"{fname}() missing required argument '{p}'",)))
        extra = args[len(params):]
        if a.vararg:
            env.set(a.vararg.arg, tuple(extra))
        elif extra:
            raise SymRaise(ExcVal("TypeError", (f"{fname}() takes {len(params)} positional arguments but {len(args)} were given",)))
        for p, d in zip(a.kwonlyargs, a.kw_defaults):
            if p.arg in kwargs:
                env.set(p.arg, kwargs.pop(p.arg))
            elif d is not None:
                env.set(p.arg, self.ev(d, clo.env))
            else:
                raise SymRaise(ExcVal("TypeError", (f"{fname}() missing keyword-only argument '{p.arg}'",)))
        if a.kwarg:
            env.set(a.kwarg.arg, dict(kwargs))
        elif kwargs:
            k = next(iter(kwargs))
            raise SymRaise(ExcVal("TypeError", (f"{fname}() got an unexpected keyword argument '{k}'",)))

    # ----------------------------------------------------------------------------------------------
    def exec_block(self, stmts, env):
        for s in stmts:
            self.exec_stmt(s, env)

    def exec_stmt(self, s, env):
        m = getattr(self, "st_" + type(s).__name__, None)
        if m is None:
            raise Undecided(f"statement {type(s).__name__} at line {s.lineno} is outside the executable subset")
        return m(s, env)

    def st_Expr(self, s, env):
        if isinstance(s.value, ast.Constant) and isinstance(s.value.value, str):
            self.ctx.notes["dropped"].add("docstring")
            return
        if _is_log_call(s.value):
            self.ctx.notes["dropped"].add("LOG.* call")
            return
        self.ev(s.value, env)

    def st_Pass(self, s, env):
        pass

    def st_Import(self, s, env):
        for a in s.names:
            env.set(a.asname or a.name.split(".")[0], self.theory_module(a.name if a.asname else a.name.split(".")[0]))

    def st_ImportFrom(self, s, env):
        raise Undecided("local from-import")

    def st_Return(self, s, env):
        raise _Return(self.ev(s.value, env) if s.value is not None else None)

    def st_Break(self, s, env):
        raise _Break()

    def st_Continue(self, s, env):
        raise _Continue()

    def st_Assign(self, s, env):
        val = self.ev(s.value, env)
        for t in s.targets:
            self.assign(t, val, env)

    def st_AnnAssign(self, s, env):
        if s.value is not None:
            self.assign(s.target, self.ev(s.value, env), env)

    def st_AugAssign(self, s, env):
        cur = self.ev(_load(s.target), env)
        val = self.ev(s.value, env)
        op = BINOPS[type(s.op)]
        aliases = self.holders_of(cur, s.lineno) if isinstance(cur, V) and [a for a in cur.axes if a is not ONE] else None
        if isinstance(cur, list) and isinstance(s.op, ast.Add):
            cur.extend(val)  # in-place list +=
            return
        def rebind(r):
            self.assign(s.target, r, env)
            self.rebind_holders(aliases, cur, r)

        for x, y, rev in ((cur, val, False), (val, cur, True)):
            if hasattr(x, "pyvc_binop"):
                r = x.pyvc_binop(self, type(s.op).__name__, y, rev)
                if r is not NotImplemented:
                    rebind(r)
                    return
        rebind(self.binop(op, cur, val, s))

    def holders_of(self, cur, lineno):
        """numpy / pandas perform `x op= y` and `x[k] = v` IN PLACE: every other reference to the same array object sees the
        new values.  Values are immutable here, so such a statement re-binds the target AND every other program-level
        holder of this very object (variables of any active function, object attributes, dicts, lists).  A holder that
        cannot be re-bound (a tuple of the program), or an array that is a view of another one, leaves the subset."""
        import gc

        if getattr(cur, "view_of", None) is not None:
            raise Undecided(f"in-place operation on a view of another array at line {lineno} (aliasing of views is not modelled)")
        aliases = []
        refs = gc.get_referrers(cur)
        for r in refs:
            tn = type(r).__name__
            if tn in ("frame", "cell", "list_iterator", "FrameCols"):
                continue  # interpreter frames; a DataFrame's own columns (copy-on-write: no write-through)
            if isinstance(r, (dict, list)):
                # only holders that belong to the PROGRAM: the variables of an active function (Env.vars), the attributes
                # of an object (Obj.attrs), or a dict / list that is itself the value of such a variable or attribute --
                # not the interpreter's own bookkeeping (snapshots of a loop rule, argument lists, registries)
                if r is not refs and self._is_program_holder(r, refs):
                    aliases.append(r)
            elif isinstance(r, tuple):
                if r and isinstance(r[0], str):
                    continue  # bookkeeping tuples of the theories (meta = ("quantile", x, ...))
                # an argument tuple of the interpreter itself is referenced from python frames only; a tuple of the
                # PROGRAM is held by a variable / attribute / container
                if any(isinstance(q_, (dict, list, tuple)) or hasattr(q_, "__dict__") and type(q_).__name__ in ("NamedTuple", "Obj") for q_ in gc.get_referrers(r) if type(q_).__name__ not in ("frame", "cell") and q_ is not refs):
                    raise Undecided(f"in-place operation at line {lineno} on an array that is also held by a tuple")
        return aliases

    @staticmethod
    def _is_program_holder(r, skip, depth=0):
        import gc

        for o in gc.get_referrers(r):
            if o is skip or type(o).__name__ in ("frame", "cell", "list_iterator"):
                continue
            if (isinstance(o, Env) and o.vars is r) or (isinstance(o, Obj) and o.attrs is r):
                return True  # r is the variable table of an active function / the attribute table of an object
            if isinstance(o, dict):
                if (o.get("vars") is r and "parent" in o) or (o.get("attrs") is r and "written" in o):
                    return True  # (the same, when the instance dictionary is materialised)
                if depth == 0 and any(v_ is r for v_ in o.values()) and Interp._is_program_holder(o, skip, 1):
                    return True  # r is a container held by a variable / attribute
            elif isinstance(o, list) and depth == 0 and Interp._is_program_holder(o, skip, 1):
                return True
        return False

    @staticmethod
    def rebind_holders(aliases, cur, new):
        for holder in aliases or ():
            if isinstance(holder, dict):
                for k_ in [k_ for k_, v_ in holder.items() if v_ is cur]:
                    holder[k_] = new
            else:
                for i_ in [i_ for i_, v_ in enumerate(holder) if v_ is cur]:
                    holder[i_] = new

    def st_FunctionDef(self, s, env):
        q = None
        if getattr(env, "func", None) is not None and env.func.qualname:
            q = env.func.qualname + ".<locals>." + s.name
        if q is not None and q in self.contracts and self.contracts[q] is not None:
            # a nested function under contract (the harness verifies its body in a unit of its own)
            con, interp = self.contracts[q], self

            def call(*args, **kwargs):
                interp.ctx.notes["contracts_used"].add(q)
                return con(interp, *args, **kwargs)

            env.set(s.name, call)
            return
        env.set(s.name, Closure(s, env, self, env.mod(), None, q))

    def st_If(self, s, env):
        c = self.ev(s.test, env)
        if self.truth(c, f"if@{s.lineno}"):
            self.exec_block(s.body, env)
        else:
            self.exec_block(s.orelse, env)

    def st_Assert(self, s, env):
        c = self.ev(s.test, env)
        if not self.truth(c, f"assert@{s.lineno}"):
            raise SymRaise(ExcVal("AssertionError", ()))

    def st_Raise(self, s, env):
        if s.exc is None:
            cur = getattr(env, "current_exc", None) or env.lookup_exc()
            if cur is None:
                raise Undecided("bare raise outside handler")
            raise SymRaise(cur)
        e = self.ev(s.exc, env)
        if isinstance(e, ExcVal):
            raise SymRaise(e)
        if isinstance(e, ExcClass):
            raise SymRaise(e())
        raise Undecided(f"raise of {e!r}")

    def st_Try(self, s, env):
        if s.finalbody:
            raise Undecided("try/finally")
        try:
            self.exec_block(s.body, env)
        except SymRaise as e:
            for h in s.handlers:
                if h.type is None or self.exc_matches(e.exc, h.type, env):
                    if h.name:
                        env.set(h.name, e.exc)
                    old = getattr(env, "current_exc", None)
                    env.current_exc = e.exc
                    try:
                        self.exec_block(h.body, env)
                    finally:
                        env.current_exc = old
                    return
            raise
        else:
            self.exec_block(s.orelse, env)

    def exc_matches(self, exc, typenode, env):
        if isinstance(typenode, ast.Tuple):
            return any(self.exc_matches(exc, t, env) for t in typenode.elts)
        name = _dotted(typenode)
        if name is None:
            raise Undecided("computed exception class in except")
        return exc.isinstance_of(name) or exc.isinstance_of(name.split(".")[-1])

    def st_For(self, s, env):
        it = self.ev(s.iter, env)
        if hasattr(it, "pyvc_foreach"):
            # pointwise loop rule over a symbolic sequence
            it.pyvc_foreach(self, s, env)
            return
        if hasattr(it, "pyvc_comprehension") and not s.orelse and len(s.body) == 1:
            # the accumulation loop  `for x in it: acc.append(e)`  with acc == [] before the loop is the comprehension
            # `acc = [e for x in it]`
            b = s.body[0]
            if isinstance(b, ast.Expr) and isinstance(b.value, ast.Call) and isinstance(b.value.func, ast.Attribute) and b.value.func.attr == "append" and isinstance(b.value.func.value, ast.Name) and len(b.value.args) == 1 and not b.value.keywords:
                acc_name = b.value.func.value.id
                try:
                    acc = env.get(acc_name, self)
                except Exception:
                    acc = None
                if isinstance(acc, list) and not acc:
                    def elt_fn(item):
                        sub = Env(env)
                        self.assign(s.target, item, sub)
                        return self.ev(b.value.args[0], sub)

                    self.assign(ast.Name(id=acc_name, ctx=ast.Store()), it.pyvc_comprehension(self, elt_fn), env)
                    return
        if isinstance(it, V):
            raise Undecided(f"for-loop over a symbolic array at line {s.lineno} (no loop rule)")
        try:
            seq = list(it)
        except TypeError:
            raise Undecided(f"for-loop over {type(it).__name__} at line {s.lineno}")
        broke = False
        for x in seq:
            self.assign(s.target, x, env)
            try:
                self.exec_block(s.body, env)
            except _Break:
                broke = True
                break
            except _Continue:
                continue
        if not broke:
            self.exec_block(s.orelse, env)

    def st_While(self, s, env):
        # `while not q.empty(): ... q.get() ...`: draining a container that has its own loop rule
        t = s.test
        if isinstance(t, ast.UnaryOp) and isinstance(t.op, ast.Not) and isinstance(t.operand, ast.Call) and isinstance(t.operand.func, ast.Attribute) and t.operand.func.attr == "empty" and not t.operand.args:
            obj = self.ev(t.operand.func.value, env)
            if hasattr(obj, "pyvc_drain"):
                obj.pyvc_drain(self, s, env)
                return
        n = 0
        while True:
            c = self.ev(s.test, env)
            if isinstance(c, V):
                raise Undecided(f"while-loop with symbolic condition at line {s.lineno} (needs an invariant)")
            if not c:
                break
            n += 1
            if n > 10000:
                raise Undecided("while-loop does not terminate concretely")
            try:
                self.exec_block(s.body, env)
            except _Break:
                return
            except _Continue:
                continue
        self.exec_block(s.orelse, env)

    def st_With(self, s, env):
        # only context managers with a contract (pyvc_enter / pyvc_exit): e.g. warnings.catch_warnings()
        mgrs = []
        for item in s.items:
            m = self.ev(item.context_expr, env)
            if not (hasattr(m, "pyvc_enter") and hasattr(m, "pyvc_exit")):
                raise Undecided(f"with-statement at line {s.lineno} ({type(m).__name__} has no contract)")
            v = m.pyvc_enter(self)
            if item.optional_vars is not None:
                self.assign(item.optional_vars, v, env)
            mgrs.append(m)
        try:
            self.exec_block(s.body, env)
        finally:
            for m in reversed(mgrs):
                m.pyvc_exit(self)

    def st_Global(self, s, env):
        raise Undecided("global statement")

    def st_Delete(self, s, env):
        for t in s.targets:
            if isinstance(t, ast.Name):
                env.delete(t.id)
            elif isinstance(t, ast.Subscript):
                obj = self.ev(t.value, env)
                key = self.ev(t.slice, env)
                del obj[key]
            else:
                raise Undecided("del of attribute")

    # ----------------------------------------------------------------------------------------------
    def truth(self, c, label=""):
        if isinstance(c, V):
            return self.ctx.branch(c, label)
        if hasattr(c, "pyvc_truth"):
            return self.ctx.branch(c.pyvc_truth(self), label)
        if hasattr(c, "pyvc_len"):
            n = c.pyvc_len(self)
            return self.ctx.branch(n > 0 if isinstance(n, V) else n > 0, label)
        return bool(c)

    def assign(self, target, val, env):
        if isinstance(target, ast.Name):
            env.set(target.id, val)
        elif isinstance(target, (ast.Tuple, ast.List)):
            if hasattr(val, "pyvc_unpack"):
                vals = val.pyvc_unpack(len(target.elts))
            elif isinstance(val, V):
                raise Undecided("unpacking a symbolic array")
            else:
                vals = list(val)
            if len(vals) != len(target.elts):
                raise SymRaise(ExcVal("ValueError", ("unpack length mismatch",)))
            for t, v in zip(target.elts, vals):
                self.assign(t, v, env)
        elif isinstance(target, ast.Attribute):
            obj = self.ev(target.value, env)
            if isinstance(obj, Obj):
                obj.attrs[target.attr] = val
                obj.written.append(target.attr)
            elif hasattr(obj, "pyvc_setattr"):
                obj.pyvc_setattr(self, target.attr, val)
            else:
                raise Undecided(f"attribute assignment on {type(obj).__name__}")
        elif isinstance(target, ast.Subscript):
            obj = self.ev(target.value, env)
            key = self.ev_slice(target.slice, env)
            if isinstance(obj, dict) and _has_sym(key):
                k = self.dict_find(obj, key)
                obj[k if k is not None else SymKey(key)] = val
            elif isinstance(obj, (dict, list)):
                obj[key] = val
            elif isinstance(obj, V):
                aliases = self.holders_of(obj, getattr(target, "lineno", "?")) if [a for a in obj.axes if a is not ONE] else None
                new = self.theories["__setitem__"](self, obj, key, val)
                # arrays are values here: the item assignment re-binds the target and every other holder of the array
                self.assign(target.value, new, env)
                self.rebind_holders(aliases, obj, new)
            elif hasattr(obj, "pyvc_setitem"):
                obj.pyvc_setitem(self, key, val)
            else:
                raise Undecided(f"item assignment on {type(obj).__name__}")
        elif isinstance(target, ast.Starred):
            raise Undecided("starred assignment")
        else:
            raise Undecided(f"assignment target {type(target).__name__}")

    # ----------------------------------------------------------------------------------------------
    def ev(self, e, env):
        m = getattr(self, "ex_" + type(e).__name__, None)
        if m is None:
            raise Undecided(f"expression {type(e).__name__} at line {getattr(e, 'lineno', '?')} is outside the subset")
        return m(e, env)

    def ex_Constant(self, e, env):
        return e.value

    def ex_Name(self, e, env):
        return env.get(e.id, self)

    def ex_Tuple(self, e, env):
        return tuple(self.ev_elts(e.elts, env))

    def ex_List(self, e, env):
        return list(self.ev_elts(e.elts, env))

    def ex_Set(self, e, env):
        return set(self.ev_elts(e.elts, env))

    def ev_elts(self, elts, env):
        out = []
        for x in elts:
            if isinstance(x, ast.Starred):
                out.extend(self.ev(x.value, env))
            else:
                out.append(self.ev(x, env))
        return out

    def ex_Dict(self, e, env):
        d = {}
        for k, v in zip(e.keys, e.values):
            if k is None:
                d.update(self.ev(v, env))
            else:
                d[self.ev(k, env)] = self.ev(v, env)
        return d

    def ex_JoinedStr(self, e, env):
        parts = []
        for v in e.values:
            if isinstance(v, ast.Constant):
                parts.append(v.value)
            else:
                x = self.ev(v.value, env)
                if v.format_spec is not None or v.conversion not in (-1, 115):
                    if isinstance(x, V):
                        raise Undecided("format spec on a symbolic value")
                    parts.append(format(x, self.ev(v.format_spec, env) if v.format_spec else ""))
                elif isinstance(x, V):
                    parts.append(x)
                elif hasattr(x, "pyvc_str"):
                    parts.append(x.pyvc_str(self))
                else:
                    parts.append(str(x))
        if all(isinstance(p, str) for p in parts):
            return "".join(parts)
        out = None
        for p in parts:
            p = p if isinstance(p, V) else V(z3.StringVal(p))
            if not z3.is_string(p.t):
                p = self.theories["builtins"]["str"](p)
            out = p if out is None else out + p
        return out

    def ex_FormattedValue(self, e, env):
        return self.ev(e.value, env)

    def ex_Lambda(self, e, env):
        return Closure(e, env, self, env.mod())

    def ex_IfExp(self, e, env):
        c = self.ev(e.test, env)
        if isinstance(c, V) and c.is_scalar:
            # try a merge when both arms are plain values
            if self.truth(c, f"ifexp@{e.lineno}"):
                return self.ev(e.body, env)
            return self.ev(e.orelse, env)
        if self.truth(c):
            return self.ev(e.body, env)
        return self.ev(e.orelse, env)

    def ex_BoolOp(self, e, env):
        isand = isinstance(e.op, ast.And)
        acc = None
        for i, sub in enumerate(e.values):
            v = self.ev(sub, env)
            last = i == len(e.values) - 1
            if isinstance(v, V) or hasattr(v, "pyvc_truth"):
                # branch (python semantics: short circuit); keeps side conditions precise
                t = self.truth(v, f"boolop@{e.lineno}")
                if isand and not t:
                    return False
                if (not isand) and t:
                    return True
                acc = t
                if last:
                    return t
                continue
            if isand:
                if not v:
                    return v
            else:
                if v:
                    return v
            acc = v
        return acc

    def ex_UnaryOp(self, e, env):
        v = self.ev(e.operand, env)
        if isinstance(e.op, ast.Not):
            if isinstance(v, V):
                if not v.is_scalar:
                    raise Undecided("not on an array")
                return V(z3.Not(v.t if v.is_bool else v.t != 0))
            return not self.truth(v)
        if isinstance(e.op, ast.USub):
            return -v
        if isinstance(e.op, ast.UAdd):
            return +v
        if isinstance(e.op, ast.Invert):
            return ~v
        raise Undecided("unary op")

    def binop(self, op, a, b, node=None):
        try:
            return op(a, b)
        except ZeroDivisionError:
            raise SymRaise(ExcVal("ZeroDivisionError", ("division by zero",), ("ArithmeticError",)))
        except TypeError as ex:
            if isinstance(a, V) or isinstance(b, V):
                raise Undecided(f"operator {op.__name__} on {type(a).__name__}, {type(b).__name__}: {ex}")
            raise SymRaise(ExcVal("TypeError", (str(ex),)))

    def ex_BinOp(self, e, env):
        a = self.ev(e.left, env)
        b = self.ev(e.right, env)
        if isinstance(e.op, (ast.Div, ast.FloorDiv, ast.Mod)) and isinstance(b, V) and b.is_scalar and not (
            isinstance(a, V) and not a.is_scalar
        ):
            # python scalar division: ZeroDivisionError when the divisor is 0 (python ints/floats; numpy
            # scalars -- results of np.* functions, tagged meta == "numpy" -- give inf/nan instead)
            def _npscalar(x):
                m = getattr(x, "meta", None)
                return m == "numpy" or (isinstance(m, tuple) and m and m[0] in ("sum", "mean", "min", "max", "stat"))

            if not (_npscalar(a) or _npscalar(b)):
                if self.ctx.branch(V(b.t == 0), f"divzero@{e.lineno}"):
                    raise SymRaise(ExcVal("ZeroDivisionError", ("division by zero",), ("ArithmeticError",)))
        if hasattr(a, "pyvc_binop"):
            r = a.pyvc_binop(self, type(e.op).__name__, b, False)
            if r is not NotImplemented:
                return r
        if hasattr(b, "pyvc_binop"):
            r = b.pyvc_binop(self, type(e.op).__name__, a, True)
            if r is not NotImplemented:
                return r
        return self.binop(BINOPS[type(e.op)], a, b, e)

    def ex_Compare(self, e, env):
        left = self.ev(e.left, env)
        result = None
        for op, rn in zip(e.ops, e.comparators):
            right = self.ev(rn, env)
            r = self.compare(op, left, right)
            if result is None:
                result = r
            else:
                if isinstance(result, V) or isinstance(r, V):
                    result = _and(result, r)
                else:
                    result = result and r
            if result is False:
                return False
            left = right
        return result

    def compare(self, op, a, b):
        if isinstance(op, (ast.In, ast.NotIn)):
            r = self.contains(b, a)
            if isinstance(op, ast.NotIn):
                return ~r if isinstance(r, V) else (not r)
            return r
        if isinstance(op, (ast.Is, ast.IsNot)):
            if isinstance(a, V) or isinstance(b, V):
                r = a is b
                if (a is None or b is None):
                    r = False
            else:
                r = a is b or (a is None and b is None)
                if isinstance(a, (bool, int, str)) and isinstance(b, (bool, int, str)) and type(a) is type(b):
                    r = a == b
            return r if isinstance(op, ast.Is) else not r
        if hasattr(a, "pyvc_compare"):
            r = a.pyvc_compare(self, type(op).__name__, b, False)
            if r is not NotImplemented:
                return r
        if hasattr(b, "pyvc_compare"):
            r = b.pyvc_compare(self, type(op).__name__, a, True)
            if r is not NotImplemented:
                return r
        return CMPOPS[type(op)](a, b)

    def contains(self, container, x):
        if hasattr(container, "pyvc_contains"):
            return container.pyvc_contains(self, x)
        if isinstance(container, (list, tuple, set, frozenset)) or type(container).__name__ in ("dict_keys",):
            items = list(container)
            if not isinstance(x, V) and not any(isinstance(i, V) for i in items):
                return x in container
            acc = None
            for i in items:
                eq = (x == i) if isinstance(x, V) else (i == x)
                if eq is False or eq is NotImplemented:
                    continue
                if eq is True:
                    return True
                acc = eq if acc is None else (acc | eq)
            return acc if acc is not None else False
        if isinstance(container, dict):
            return self.contains(list(container.keys()), x)
        if isinstance(container, str):
            if isinstance(x, V):
                return V(z3.Contains(z3.StringVal(container), x.t), x.axes)
            return x in container
        if isinstance(container, V) and z3.is_string(container.t):
            xt = to_term(x)
            return V(z3.Contains(container.t, xt), container.axes)
        raise Undecided(f"`in` on {type(container).__name__}")

    def ex_Attribute(self, e, env):
        obj = self.ev(e.value, env)
        return self.getattr(obj, e.attr, e)

    def getattr(self, obj, name, node=None):
        if isinstance(obj, Obj):
            if name in obj.attrs:
                return obj.attrs[name]
            if obj.clsnode is not None:
                fs = source.find_method(obj.mod, obj.clsnode, name)
                if fs is not None:
                    return self.method_of(obj, fs)
                # class attributes
                for m, c in source.mro(obj.mod, obj.clsnode):
                    for n in c.body:
                        if isinstance(n, ast.Assign) and any(isinstance(t, ast.Name) and t.id == name for t in n.targets):
                            return self.ev(n.value, self.module_env(m))
            if getattr(obj, "partial", False):
                # an object the harness made describes only the state the contract talks about: code that reads other state
                # of it is outside the contract (undecided; the unit's scenario replay decides), not an AttributeError
                raise Undecided(f"the code reads {obj.name}.{name}, state the contract of this unit does not describe")
            raise SymRaise(ExcVal("AttributeError", (f"{obj.name} has no attribute {name}",)))
        if isinstance(obj, V):
            return self.theories["__getattr__"](self, obj, name)
        if hasattr(obj, "pyvc_getattr"):
            return obj.pyvc_getattr(self, name)
        if isinstance(obj, (str, list, dict, tuple, set, int, float)):
            return self.concrete_method(obj, name)
        if isinstance(obj, (ModuleNS, NamedTuple, ExcVal)):
            return getattr(obj, name)
        if isinstance(obj, SuperProxy):
            clsmod = next((m for m, c in source.mro(obj.obj.mod, obj.obj.clsnode) if c is obj.cls), obj.obj.mod)
            fs = source.find_method(clsmod, obj.cls, name, skip_first=True)
            if fs is None:
                if name == "__init__":
                    return lambda *a, **k: None  # object.__init__
                raise Undecided(f"super().{name} not found")
            return self.method_of(obj.obj, fs)
        try:
            return getattr(obj, name)
        except AttributeError:
            raise Undecided(f"attribute {name} of {type(obj).__name__}")

    def concrete_method(self, obj, name):
        try:
            m = getattr(obj, name)
        except AttributeError:
            raise Undecided(f"{type(obj).__name__}.{name} is not modelled")
        interp = self

        def call(*args, **kwargs):
            if isinstance(obj, dict) and name in ("setdefault", "get") and args and _has_sym(args[0]):
                k = interp.dict_find(obj, args[0])
                if k is not None:
                    return obj[k]
                dflt = args[1] if len(args) > 1 else None
                if name == "setdefault":
                    obj[SymKey(args[0])] = dflt
                return dflt
            if isinstance(obj, dict) and name in ("setdefault", "get", "pop") and args and not _has_sym(args[0]):
                return m(*args, **kwargs)  # concrete key; the stored value may be symbolic
            if isinstance(obj, list) and name == "append":
                return m(*args)
            if any(isinstance(a, V) for a in args):
                h = interp.theories.get("__pymethod__")
                if h:
                    return h(interp, obj, name, args, kwargs)
                raise Undecided(f"{type(obj).__name__}.{name} with symbolic argument")
            # closures passed as key= etc.
            return m(*args, **kwargs)

        call.pyvc_method = (obj, name)
        return call

    def method_of(self, obj, fs):
        """Bound method: contract if registered, else inline from real source."""
        q = fs.qualname
        if q in self.contracts:
            con = self.contracts[q]
            interp = self

            def call(*args, **kwargs):
                interp.ctx.notes["contracts_used"].add(q)
                return con(interp, obj, *args, **kwargs)

            return call
        self.ctx.notes["inlined"].add(q)
        return Closure(fs.node, self.module_env(fs.mod), self, fs.mod, fs.cls, q, bound_self=obj)

    def ex_Subscript(self, e, env):
        obj = self.ev(e.value, env)
        key = self.ev_slice(e.slice, env)
        return self.getitem(obj, key, e)

    def ev_slice(self, sl, env):
        if isinstance(sl, ast.Slice):
            return slice(
                self.ev(sl.lower, env) if sl.lower else None,
                self.ev(sl.upper, env) if sl.upper else None,
                self.ev(sl.step, env) if sl.step else None,
            )
        if isinstance(sl, ast.Tuple):
            return tuple(self.ev_slice(x, env) for x in sl.elts)
        return self.ev(sl, env)

    def dict_find(self, d, key):
        """the stored key of dict `d` equal to the (symbolic) `key`, deciding semantic equality by branching"""
        sk = SymKey(key)
        if sk in d:
            return sk
        for k2 in list(d.keys()):
            if isinstance(k2, SymKey):
                c = _key_eq_term(key, k2.key)
                if c is not None and self.ctx.branch(V(c), "dict-key-eq"):
                    return k2
        return None

    def getitem(self, obj, key, node=None):
        if isinstance(obj, dict) and _has_sym(key):
            k = self.dict_find(obj, key)
            if k is None:
                raise SymRaise(ExcVal("KeyError", (repr(key),), ("LookupError",)))
            return obj[k]
        if hasattr(obj, "pyvc_getitem"):
            return obj.pyvc_getitem(self, key)
        if isinstance(obj, V):
            return self.theories["__getitem__"](self, obj, key)
        if isinstance(obj, (list, tuple, str, dict, NamedTuple)):
            if isinstance(key, V):
                raise Undecided("symbolic index into a python container")
            try:
                return obj[key]
            except KeyError as ex:
                raise SymRaise(ExcVal("KeyError", ex.args, ("LookupError",)))
            except IndexError as ex:
                raise SymRaise(ExcVal("IndexError", ex.args, ("LookupError",)))
        raise Undecided(f"subscript on {type(obj).__name__}")

    def ex_Call(self, e, env):
        # super()
        if isinstance(e.func, ast.Name) and e.func.id == "super":
            f = env.func
            selfv = env.get(f.node.args.args[0].arg, self)
            if e.args:
                # super(Cls, self): start the lookup after Cls
                cref = self.ev(e.args[0], env)
                return SuperProxy(selfv, cref.clsnode if isinstance(cref, ClassRef) else f.cls)
            return SuperProxy(selfv, f.cls)
        fn = self.ev(e.func, env)
        self.cur_env = env  # (DataFrame.query resolves @names in the caller's scope)
        args = []
        for a in e.args:
            if isinstance(a, ast.Starred):
                args.extend(self.ev(a.value, env))
            else:
                args.append(self.ev(a, env))
        kwargs = {}
        for k in e.keywords:
            if k.arg is None:
                kwargs.update(self.ev(k.value, env))
            else:
                kwargs[k.arg] = self.ev(k.value, env)
        self.cur_env = env
        return self.call(fn, args, kwargs, e)

    def call(self, fn, args, kwargs, node=None):
        if isinstance(fn, Closure):
            return fn(*args, **kwargs)
        if isinstance(fn, ExcClass):
            return fn(*args)
        if isinstance(fn, ClassRef):
            return fn.instantiate(self, args, kwargs)
        if callable(fn):
            try:
                return fn(*args, **kwargs)
            except (Undecided, SymRaise, _Return, InfeasiblePath):
                raise
            except ZeroDivisionError:
                raise SymRaise(ExcVal("ZeroDivisionError", ("division by zero",), ("ArithmeticError",)))
        raise Undecided(f"call of non-callable {fn!r} at line {getattr(node, 'lineno', '?')}")

    def ex_ListComp(self, e, env):
        if len(e.generators) == 1 and e.generators[0].ifs and isinstance(e.elt, ast.Name) and isinstance(e.generators[0].target, ast.Name) and e.elt.id == e.generators[0].target.id:
            # [x for x in it if c(x)]  is  list(filter(lambda x: c(x), it))
            it = self.ev(e.generators[0].iter, env)
            if hasattr(it, "pyvc_filter"):
                g = e.generators[0]

                def cond_fn(item):
                    sub = Env(env)
                    self.assign(g.target, item, sub)
                    r = None
                    for c in g.ifs:
                        v = self.ev(c, sub)
                        r = v if r is None else _and(r, v)
                    return r

                return it.pyvc_filter(cond_fn)
        if len(e.generators) == 1 and not e.generators[0].ifs:
            it = self.ev(e.generators[0].iter, env)
            if hasattr(it, "pyvc_comprehension"):
                g = e.generators[0]

                def elt_fn(item):
                    sub = Env(env)
                    self.assign(g.target, item, sub)
                    return self.ev(e.elt, sub)

                return it.pyvc_comprehension(self, elt_fn)
        return list(self.comp(e.elt, e.generators, env))

    def ex_SetComp(self, e, env):
        return set(self.comp(e.elt, e.generators, env))

    def ex_GeneratorExp(self, e, env):
        return list(self.comp(e.elt, e.generators, env))

    def ex_DictComp(self, e, env):
        if len(e.generators) == 1 and not e.generators[0].ifs:
            it = self.ev(e.generators[0].iter, env)
            if hasattr(it, "pyvc_dictcomp"):
                g = e.generators[0]

                def kv_fn(item):
                    sub = Env(env)
                    self.assign(g.target, item, sub)
                    return self.ev(e.key, sub), self.ev(e.value, sub)

                return it.pyvc_dictcomp(self, kv_fn)
        return dict(self.comp(ast.Tuple(elts=[e.key, e.value], ctx=ast.Load()), e.generators, env))

    def comp(self, elt, gens, env, i=0):
        if i == len(gens):
            yield self.ev(elt, env)
            return
        g = gens[i]
        it = self.ev(g.iter, env)
        if isinstance(it, V) or hasattr(it, "pyvc_foreach"):
            raise Undecided("comprehension over a symbolic sequence")
        for x in list(it):
            sub = Env(env)
            self.assign(g.target, x, sub)
            ok = True
            for c in g.ifs:
                if not self.truth(self.ev(c, sub)):
                    ok = False
                    break
            if ok:
                yield from self.comp(elt, gens, sub, i + 1)

    def ex_Starred(self, e, env):
        raise Undecided("starred expression")

    def ex_Slice(self, e, env):
        return self.ev_slice(e, env)

    # ----------------------------------------------------------------------------------------------
    def theory_module(self, name):
        if name in self.theories:
            return ModuleNS(name, self.theories[name], self)
        raise Undecided(f"module {name} has no theory")

    def havoc(self, sort, why, axes=()):
        from .values import fresh_name

        c = z3.Const(fresh_name("havoc"), sort)
        self.ctx.notes["havoc"].append(why)
        return V(c, axes)


class SymKey:
    """a dictionary key that contains symbolic values: hashed/compared structurally (z3 term identity)"""

    def __init__(self, key):
        self.key = key
        self.sig = self._sig(key)

    @staticmethod
    def _sig(k):
        if isinstance(k, tuple):
            return tuple(SymKey._sig(x) for x in k)
        if isinstance(k, V):
            return ("z3", tid(z3.simplify(k.t)))
        if isinstance(getattr(k, "v", None), V):
            return ("z3", tid(z3.simplify(k.v.t)))
        return ("py", k)

    def __hash__(self):
        return hash(self.sig)

    def __eq__(self, o):
        return isinstance(o, SymKey) and o.sig == self.sig

    def __repr__(self):
        return f"SymKey{self.key!r}"


def _has_sym(k):
    if isinstance(k, tuple):
        return any(_has_sym(x) for x in k)
    return isinstance(k, V) or isinstance(getattr(k, "v", None), V)


def _key_eq_term(a, b):
    """z3 condition 'the two keys are equal' (None if they can never be equal)"""
    if isinstance(a, tuple) or isinstance(b, tuple):
        if not (isinstance(a, tuple) and isinstance(b, tuple) and len(a) == len(b)):
            return None
        conds = []
        for x, y in zip(a, b):
            c = _key_eq_term(x, y)
            if c is None:
                return None
            conds.append(c)
        return z3.And(*conds) if conds else z3.BoolVal(True)
    ax = a.v if isinstance(getattr(a, "v", None), V) else a
    bx = b.v if isinstance(getattr(b, "v", None), V) else b
    if isinstance(ax, V) or isinstance(bx, V):
        r = (ax == bx) if isinstance(ax, V) else (bx == ax)
        if r is False or r is NotImplemented:
            return None
        return r.t if isinstance(r, V) else z3.BoolVal(bool(r))
    return z3.BoolVal(True) if ax == bx else None


class SuperProxy:
    def __init__(self, obj, cls):
        self.obj = obj
        self.cls = cls


class ExcClass:
    def __init__(self, name, bases=()):
        self.name = name
        self.bases = tuple(bases)

    def __call__(self, *args):
        return ExcVal(self.name, args, self.bases)


class ClassRef:
    """A class defined in elexmodel, referenced by interpreted code."""

    def __init__(self, mod, clsnode):
        self.mod = mod
        self.clsnode = clsnode

    def instantiate(self, interp, args, kwargs):
        q = f"{self.mod.modname}.{self.clsnode.name}"
        if q in interp.contracts:
            interp.ctx.notes["contracts_used"].add(q)
            return interp.contracts[q](interp, *args, **kwargs)
        # exception classes
        bases = [_dotted(b) or "" for b in self.clsnode.bases]
        if any(b.endswith("Exception") or b.endswith("Error") for b in bases):
            return ExcVal(self.clsnode.name, tuple(args), tuple(b.split(".")[-1] for b in bases))
        obj = Obj(self.mod, self.clsnode)
        init = source.find_method(self.mod, self.clsnode, "__init__")
        if init is not None:
            interp.method_of(obj, init)(*args, **kwargs)
        return obj


class Env:
    def __init__(self, parent=None):
        self.vars = {}
        self.parent = parent
        self.func = getattr(parent, "func", None) if isinstance(parent, Env) else None
        self.current_exc = None

    def mod(self):
        p = self
        while isinstance(p, Env):
            p = p.parent
        return p.mod_obj if p is not None else None

    def lookup_exc(self):
        p = self
        while isinstance(p, Env):
            if p.current_exc is not None:
                return p.current_exc
            p = p.parent
        return None

    def get(self, name, interp):
        p = self
        while isinstance(p, Env):
            if name in p.vars:
                return p.vars[name]
            p = p.parent
        if p is not None:
            return p.get(name, interp)
        raise SymRaise(ExcVal("NameError", (name,)))

    def set(self, name, val):
        self.vars[name] = val

    def delete(self, name):
        self.vars.pop(name, None)


class _ModEnv:
    """Module-level namespace: imports resolve to theory modules / elexmodel sources, assignments are evaluated."""

    def __init__(self, mod, interp):
        self.mod_obj = mod
        self.interp = interp
        self.cache = {}
        self.overrides = {}

    def get(self, name, interp):
        if name in self.overrides:
            return self.overrides[name]
        if name in self.cache:
            return self.cache[name]
        v = self._resolve(name, interp)
        self.cache[name] = v
        return v

    def _resolve(self, name, interp):
        mod = self.mod_obj
        if name in mod.functions:
            q = f"{mod.modname}.{name}"
            if q in interp.contracts:
                con = interp.contracts[q]

                def call(*a, **k):
                    interp.ctx.notes["contracts_used"].add(q)
                    return con(interp, *a, **k)

                return call
            interp.ctx.notes["inlined"].add(q)
            return Closure(mod.functions[name], self, interp, mod, None, q)
        if name in mod.classes:
            return ClassRef(mod, mod.classes[name])
        if name in mod.assigns:
            return interp.ev(mod.assigns[name], Env(self))
        if name in mod.imports:
            m, a = mod.imports[name]
            full = f"{m}.{a}" if a else m
            if m and m.startswith("elexmodel"):
                # imported elexmodel module or member
                try:
                    m2 = source.module(full)
                    return ElexModuleRef(m2, interp)
                except source.SourceError:
                    m2 = source.module(m)
                    return _ModEnv(m2, interp).get(a, interp)
            th = interp.theories
            if a is None:
                return interp.theory_module(m)
            if m in th and a in th[m]:
                v = th[m][a]
                return ModuleNS(f"{m}.{a}", v, interp) if isinstance(v, dict) else v
            raise Undecided(f"import {full} has no theory entry")
        if name == "globals":
            return lambda: GlobalsProxy(self, interp)
        b = interp.theories["builtins"]
        if name in b:
            return b[name]
        raise SymRaise(ExcVal("NameError", (name,)))


class GlobalsProxy:
    """globals() of an elexmodel module: only item lookup of module-level names is modelled"""

    def __init__(self, modenv, interp):
        self.modenv = modenv
        self.interp = interp

    def pyvc_getitem(self, interp, key):
        if not isinstance(key, str):
            raise Undecided("globals()[symbolic]")
        mod = self.modenv.mod_obj
        if key in mod.functions or key in mod.classes or key in mod.assigns or key in mod.imports:
            return self.modenv.get(key, interp)
        raise SymRaise(ExcVal("KeyError", (key,), ("LookupError",)))


class ElexModuleRef:
    def __init__(self, mod, interp):
        self.mod = mod
        self.interp = interp

    def pyvc_getattr(self, interp, name):
        return _ModEnv(self.mod, interp).get(name, interp)


def _and(a, b):
    if isinstance(a, V) and isinstance(b, V):
        return a & b
    if isinstance(a, V):
        return a if b else False
    if isinstance(b, V):
        return b if a else False
    return a and b


def _load(t):
    import copy

    t2 = copy.copy(t)
    t2.ctx = ast.Load()
    return t2


def _dotted(n):
    if isinstance(n, ast.Name):
        return n.id
    if isinstance(n, ast.Attribute):
        b = _dotted(n.value)
        return f"{b}.{n.attr}" if b else None
    return None


def _is_log_call(e):
    return (
        isinstance(e, ast.Call)
        and isinstance(e.func, ast.Attribute)
        and isinstance(e.func.value, ast.Name)
        and e.func.value.id in ("LOG", "logger", "logging")
    )
