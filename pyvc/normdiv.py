"""Clearing denominators: an equivalence-preserving rewriting of arithmetic atoms.

For every division `a / d` whose divisor d is *provably positive under the path condition* (checked by a
separate solver query per distinct divisor), comparison atoms are cross-multiplied:
    N1/D1 <= N2/D2   <=>   N1*D2 <= N2*D1      (D1, D2 > 0)
so that (x/B)*B <= B-1 becomes x <= B-1.  Divisions inside ToInt(...) etc. are left alone.
"""
import z3

A = z3


def _is_num(t):
    return z3.is_int_value(t) or z3.is_rational_value(t)


_POS = {}  # divisor id -> list of (frozenset of path-condition ids, verdict); verdicts are monotone in the pc


class Normalizer:
    def __init__(self, pc, timeout_ms=800):
        self.pc = list(pc)
        self.pcids = frozenset(f.get_id() for f in self.pc)
        self.timeout = timeout_ms
        self.pos_cache = {}
        self.cache = {}

    def positive(self, d):
        k = d.get_id()
        if k in self.pos_cache:
            return self.pos_cache[k]
        if _is_num(d):
            v = z3.simplify(d > 0)
            r = z3.is_true(v)
        else:
            r = None
            for (ids, verdict) in _POS.get(k, ()):
                if verdict and ids <= self.pcids:
                    r = True  # proved positive under fewer assumptions
                    break
                if not verdict and self.pcids <= ids:
                    r = False  # could not be proved even with more assumptions
                    break
            if r is None:
                s = z3.Solver()
                s.set("timeout", self.timeout)
                for f in self.pc:
                    s.add(f)
                s.add(z3.Not(d > 0))
                r = s.check() == z3.unsat
                _POS.setdefault(k, []).append((self.pcids, r))
        self.pos_cache[k] = r
        return r

    def frac(self, t):
        """arith term -> (N, D) with D a list of positive factor terms (empty = 1)"""
        k = t.get_id()
        if k in self.cache:
            return self.cache[k]
        r = self._frac(t)
        self.cache[k] = r
        return r

    def _mk(self, n, d):
        return (n, d)

    def _mulD(self, n, dl):
        for d in dl:
            n = n * d
        return n

    def _common(self, fa, fb):
        """bring two fractions to a common denominator list"""
        (na, da), (nb, db) = fa, fb
        ida = [x.get_id() for x in da]
        idb = [x.get_id() for x in db]
        # multiset difference
        extra_b = list(db)
        rest_a = []
        for x in da:
            for j, y in enumerate(extra_b):
                if y.get_id() == x.get_id():
                    extra_b.pop(j)
                    break
            else:
                rest_a.append(x)
        # common = da + extra_b ; a multiplied by extra_b, b multiplied by rest_a
        return self._mulD(na, extra_b), self._mulD(nb, rest_a), list(da) + extra_b

    def _frac(self, t):
        if not z3.is_app(t) or not (z3.is_int(t) or z3.is_real(t)):
            return (t, [])
        kind = t.decl().kind()
        ch = t.children()
        if kind == z3.Z3_OP_DIV and z3.is_real(t):
            fa = self.frac(ch[0])
            fb = self.frac(ch[1])
            nb, db = fb
            if _is_num(nb) and not db:
                v = z3.simplify(nb > 0)
                if z3.is_true(v):
                    if z3.is_true(z3.simplify(nb == 1)):
                        return fa
                    return (fa[0], fa[1] + [nb])
                return (t, [])
            if self.positive(nb if not db else ch[1]) and not db:
                return (fa[0], fa[1] + [nb])
            if db and self.positive(nb):
                # a / (nb/db) = a*db / nb
                return (self._mulD(fa[0], db), fa[1] + [nb])
            return (t, [])
        if kind == z3.Z3_OP_ADD:
            acc = self.frac(ch[0])
            for c in ch[1:]:
                f = self.frac(c)
                if not acc[1] and not f[1]:
                    acc = (acc[0] + f[0], [])
                else:
                    a2, b2, d = self._common(acc, f)
                    acc = (a2 + b2, d)
            return acc
        if kind == z3.Z3_OP_SUB:
            acc = self.frac(ch[0])
            for c in ch[1:]:
                f = self.frac(c)
                if not acc[1] and not f[1]:
                    acc = (acc[0] - f[0], [])
                else:
                    a2, b2, d = self._common(acc, f)
                    acc = (a2 - b2, d)
            return acc
        if kind == z3.Z3_OP_UMINUS:
            n, d = self.frac(ch[0])
            return (-n, d)
        if kind == z3.Z3_OP_MUL:
            nums, dens = [], []
            for c in ch:
                n2, d2 = self.frac(c)
                nums.append(n2)
                dens += d2
            # cancel a denominator factor against a structurally identical numerator factor
            for y in list(dens):
                for j, x in enumerate(nums):
                    if x.get_id() == y.get_id():
                        nums.pop(j)
                        for jj, yy in enumerate(dens):
                            if yy.get_id() == y.get_id():
                                dens.pop(jj)
                                break
                        break
            if not nums:
                n = z3.RealVal(1) if z3.is_real(t) else z3.IntVal(1)
            else:
                n = nums[0]
                for x in nums[1:]:
                    n = n * x
            return (n, dens)
        if kind == z3.Z3_OP_ITE:
            c = self.formula(ch[0])
            fa, fb = self.frac(ch[1]), self.frac(ch[2])
            if not fa[1] and not fb[1]:
                return (z3.If(c, fa[0], fb[0]), [])
            a2, b2, d = self._common(fa, fb)
            return (z3.If(c, a2, b2), d)
        if kind == z3.Z3_OP_TO_REAL:
            return (t, [])
        return (t, [])

    def atom(self, t):
        kind = t.decl().kind()
        a, b = t.children()
        fa, fb = self.frac(a), self.frac(b)
        if not fa[1] and not fb[1]:
            na, nb = fa[0], fb[0]
        else:
            na, nb, _ = self._common(fa, fb)
        if kind == z3.Z3_OP_LE:
            return na <= nb
        if kind == z3.Z3_OP_LT:
            return na < nb
        if kind == z3.Z3_OP_GE:
            return na >= nb
        if kind == z3.Z3_OP_GT:
            return na > nb
        if kind == z3.Z3_OP_EQ:
            return na == nb
        return t

    def formula(self, t):
        if z3.is_quantifier(t):
            return t
        if not z3.is_app(t):
            return t
        kind = t.decl().kind()
        ch = t.children()
        if kind in (z3.Z3_OP_LE, z3.Z3_OP_LT, z3.Z3_OP_GE, z3.Z3_OP_GT) or (
            kind == z3.Z3_OP_EQ and (z3.is_int(ch[0]) or z3.is_real(ch[0]))
        ):
            return self.atom(t)
        if kind == z3.Z3_OP_DISTINCT and len(ch) == 2 and (z3.is_int(ch[0]) or z3.is_real(ch[0])):
            return z3.Not(self.atom(ch[0] == ch[1]))
        if kind in (z3.Z3_OP_AND, z3.Z3_OP_OR, z3.Z3_OP_NOT, z3.Z3_OP_IMPLIES, z3.Z3_OP_XOR, z3.Z3_OP_IFF) or (
            kind in (z3.Z3_OP_EQ, z3.Z3_OP_ITE) and z3.is_bool(t)
        ):
            newch = [self.formula(c) if z3.is_bool(c) else c for c in ch]
            if kind == z3.Z3_OP_AND:
                return z3.And(*newch)
            if kind == z3.Z3_OP_OR:
                return z3.Or(*newch)
            if kind == z3.Z3_OP_NOT:
                return z3.Not(newch[0])
            if kind == z3.Z3_OP_IMPLIES:
                return z3.Implies(newch[0], newch[1])
            if kind == z3.Z3_OP_ITE:
                return z3.If(newch[0], newch[1], newch[2])
            if kind in (z3.Z3_OP_EQ, z3.Z3_OP_IFF):
                return newch[0] == newch[1]
            if kind == z3.Z3_OP_XOR:
                return z3.Xor(newch[0], newch[1])
        return t


def has_nonconst_div(assertions):
    return has_div(assertions)


_HAS_DIV = {}


def has_div(assertions):
    """(memoised per top-level formula: the path condition is shared by the obligations of a path)"""
    from .values import tid

    for a in assertions:
        k = tid(a)
        if k not in _HAS_DIV:
            _HAS_DIV[k] = _has_div1([a])
        if _HAS_DIV[k]:
            return True
    return False


def _has_div1(assertions):
    seen = set()
    stack = list(assertions)
    while stack:
        t = stack.pop()
        if t.get_id() in seen:
            continue
        seen.add(t.get_id())
        if z3.is_quantifier(t):
            stack.append(t.body())
            continue
        if z3.is_app(t):
            if t.decl().kind() == z3.Z3_OP_DIV and z3.is_real(t):
                return True
            stack.extend(t.children())
    return False


def _old_has_nonconst_div(assertions):
    seen = set()
    stack = list(assertions)
    while stack:
        t = stack.pop()
        if t.get_id() in seen:
            continue
        seen.add(t.get_id())
        if z3.is_quantifier(t):
            stack.append(t.body())
            continue
        if z3.is_app(t):
            if t.decl().kind() == z3.Z3_OP_DIV and z3.is_real(t) and not _is_num(t.children()[1]):
                return True
            stack.extend(t.children())
    return False


_NORM_CACHE = {}  # the obligations of one path share their path condition


def normalize(pc, extra):
    """returns (pc', extra') equivalent under pc"""
    if not has_nonconst_div(list(pc) + list(extra)):
        return list(pc), list(extra)
    from .values import tid

    key = tuple(tid(f) for f in pc)
    if key not in _NORM_CACHE:
        if len(_NORM_CACHE) > 64:
            _NORM_CACHE.clear()
        n = Normalizer(pc)
        _NORM_CACHE[key] = (n, [n.formula(f) for f in pc])
    n, pc2 = _NORM_CACHE[key]
    return list(pc2), [n.formula(f) for f in extra]
