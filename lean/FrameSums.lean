/-
  Lemma base for the sum calculus of pyvc (DESIGN 2.5).
  Each theorem is the mathematical content of one lemma *schema* that the VC generator instantiates
  (pyvc/sums.py, pyvc/frames.py); the side conditions of an instance are emitted as z3 obligations.
  Checked with:  lean lean/FrameSums.lean   (Lean 4 + Mathlib, installed under /opt/veriftools)
-/
import Mathlib.Algebra.BigOperators.Group.Finset.Basic
import Mathlib.Algebra.BigOperators.Ring.Finset
import Mathlib.Algebra.Order.BigOperators.Group.Finset
import Mathlib.Algebra.Order.BigOperators.Group.List
import Mathlib.Algebra.Order.BigOperators.Ring.Finset
import Mathlib.Data.Real.Basic
import Mathlib.Tactic.Ring
import Mathlib.Tactic.Linarith
import Mathlib.Tactic.Positivity

open Finset BigOperators

set_option linter.unusedSectionVars false

variable {U : Type} [DecidableEq U]

/-- sum_split: a sum over the union of two disjoint row sets is the sum of the two sums -/
theorem sum_split (s : Finset U) (A B : U → Prop) [DecidablePred A] [DecidablePred B] (f : U → ℝ)
    (hdisj : ∀ u ∈ s, ¬ (A u ∧ B u)) :
    ∑ u ∈ s.filter (fun u => A u ∨ B u), f u = ∑ u ∈ s.filter A, f u + ∑ u ∈ s.filter B, f u := by
  rw [Finset.filter_or, Finset.sum_union]
  rw [Finset.disjoint_filter]
  intro u hu ha hb
  exact hdisj u hu ⟨ha, hb⟩

/-- sum_congr_dom: equivalent domains and pointwise equal summands give equal sums -/
theorem sum_congr_dom (s : Finset U) (A B : U → Prop) [DecidablePred A] [DecidablePred B] (f g : U → ℝ)
    (hdom : ∀ u ∈ s, (A u ↔ B u)) (hfg : ∀ u ∈ s, A u → f u = g u) :
    ∑ u ∈ s.filter A, f u = ∑ u ∈ s.filter B, g u := by
  have h : s.filter A = s.filter B := by
    apply Finset.filter_congr
    intro u hu
    exact hdom u hu
  rw [← h]
  apply Finset.sum_congr rfl
  intro u hu
  rw [Finset.mem_filter] at hu
  exact hfg u hu.1 hu.2

/-- sum_empty: a sum over an empty domain is 0 -/
theorem sum_empty' (s : Finset U) (A : U → Prop) [DecidablePred A] (f : U → ℝ)
    (h : ∀ u ∈ s, ¬ A u) : ∑ u ∈ s.filter A, f u = 0 := by
  have : s.filter A = ∅ := by
    apply Finset.filter_eq_empty_iff.mpr
    intro u hu
    exact h u hu
  rw [this, Finset.sum_empty]

/-- sum_linear -/
theorem sum_linear (s : Finset U) (a : ℝ) (f g : U → ℝ) :
    ∑ u ∈ s, (a * f u + g u) = a * ∑ u ∈ s, f u + ∑ u ∈ s, g u := by
  rw [Finset.sum_add_distrib, Finset.mul_sum]

/-- sum_mono: pointwise order lifts to sums -/
theorem sum_mono (s : Finset U) (f g : U → ℝ) (h : ∀ u ∈ s, f u ≤ g u) :
    ∑ u ∈ s, f u ≤ ∑ u ∈ s, g u :=
  Finset.sum_le_sum h

/-- sum_bound: a sum of n terms each in [lo, hi] lies in [n*lo, n*hi] -/
theorem sum_bound (s : Finset U) (f : U → ℝ) (lo hi : ℝ) (h : ∀ u ∈ s, lo ≤ f u ∧ f u ≤ hi) :
    (s.card : ℝ) * lo ≤ ∑ u ∈ s, f u ∧ ∑ u ∈ s, f u ≤ (s.card : ℝ) * hi := by
  constructor
  · have := Finset.card_nsmul_le_sum s f lo (fun u hu => (h u hu).1)
    simpa [nsmul_eq_mul] using this
  · have := Finset.sum_le_card_nsmul s f hi (fun u hu => (h u hu).2)
    simpa [nsmul_eq_mul] using this

/-- sum_int: a sum of integer-valued terms is integer-valued -/
theorem sum_int (s : Finset U) (f : U → ℝ) (h : ∀ u ∈ s, ∃ k : ℤ, f u = k) :
    ∃ k : ℤ, ∑ u ∈ s, f u = k := by
  classical
  induction s using Finset.induction_on with
  | empty => exact ⟨0, by simp⟩
  | insert a s ha ih =>
    obtain ⟨k1, hk1⟩ := h a (Finset.mem_insert_self a s)
    obtain ⟨k2, hk2⟩ := ih (fun u hu => h u (Finset.mem_insert_of_mem hu))
    refine ⟨k1 + k2, ?_⟩
    rw [Finset.sum_insert ha, hk1, hk2]
    push_cast
    ring

/-- sum_fiberwise: regrouping by a key -/
theorem sum_fiberwise {G : Type} [DecidableEq G] (s : Finset U) (key : U → G) (f : U → ℝ) :
    ∑ g ∈ s.image key, ∑ u ∈ s.filter (fun u => key u = g), f u = ∑ u ∈ s, f u := by
  rw [Finset.sum_image']
  intro u _
  rfl

/-- indicator_matmul: (Aᵀ v)_g with A the indicator matrix of `key` is the group sum -/
theorem indicator_matmul {G : Type} [DecidableEq G] (s : Finset U) (key : U → G) (v : U → ℝ) (g : G) :
    ∑ u ∈ s, (if key u = g then (1 : ℝ) else 0) * v u = ∑ u ∈ s.filter (fun u => key u = g), v u := by
  rw [Finset.sum_filter]
  apply Finset.sum_congr rfl
  intro u _
  split_ifs <;> simp

/-- wavg_bounds: a weighted average of values in [-1,1] with non-negative weights lies in [-1,1]
    (generalised: |Σ n_i| ≤ Σ d_i when |n_i| ≤ d_i) -/
theorem wavg_bounds (s : Finset U) (n d : U → ℝ) (h : ∀ u ∈ s, |n u| ≤ d u) :
    |∑ u ∈ s, n u| ≤ ∑ u ∈ s, d u :=
  (Finset.abs_sum_le_sum_abs n s).trans (Finset.sum_le_sum h)

/-- prefix sums along a list sorted by score: running totals are bounded by the total weight of
    all entries with a score not larger than the current one (prefix_ge), for non-negative weights. -/
theorem prefix_le_total (l : List (ℝ × ℝ)) (hw : ∀ p ∈ l, 0 ≤ p.2) (k : ℕ) :
    ((l.take k).map Prod.snd).sum ≤ (l.map Prod.snd).sum := by
  have hsplit : l = l.take k ++ l.drop k := (List.take_append_drop k l).symm
  calc ((l.take k).map Prod.snd).sum
      ≤ ((l.take k).map Prod.snd).sum + ((l.drop k).map Prod.snd).sum := by
        have : 0 ≤ ((l.drop k).map Prod.snd).sum := by
          apply List.sum_nonneg
          intro x hx
          rw [List.mem_map] at hx
          obtain ⟨p, hp, rfl⟩ := hx
          exact hw p (List.mem_of_mem_drop hp)
        linarith
    _ = (l.map Prod.snd).sum := by
        rw [← List.sum_append, ← List.map_append, ← hsplit]

/-- sum_ge_member (pyvc.sums.lemma_sum_ge_member): a sum of non-negative terms is at least each of its terms. -/
theorem sum_ge_member (s : Finset U) (f : U → ℝ) (h : ∀ u ∈ s, 0 ≤ f u) (r : U) (hr : r ∈ s) :
    f r ≤ ∑ u ∈ s, f u :=
  Finset.single_le_sum h hr

/-- sum_nonzero_witness (pyvc.sums.sum_nonzero_witness): a sum that is not 0 has a term that is not 0. -/
theorem sum_nonzero_witness (s : Finset U) (f : U → ℝ) (h : ∑ u ∈ s, f u ≠ 0) :
    ∃ r ∈ s, f r ≠ 0 :=
  Finset.exists_ne_zero_of_sum_ne_zero h

/-- count_mono (pyvc.frames.lemma_count_mono): a subset has no more elements. -/
theorem count_mono (s : Finset U) (A B : U → Prop) [DecidablePred A] [DecidablePred B]
    (h : ∀ u ∈ s, A u → B u) : (s.filter A).card ≤ (s.filter B).card := by
  apply Finset.card_le_card
  intro u hu
  rw [Finset.mem_filter] at hu ⊢
  exact ⟨hu.1, h u hu.1 hu.2⟩

/-- count_witness (pyvc.frames.count_witness): a non-empty filter has an element, and an element makes it non-empty. -/
theorem count_witness (s : Finset U) (A : U → Prop) [DecidablePred A] :
    (s.filter A).card ≠ 0 ↔ ∃ r ∈ s, A r := by
  rw [Finset.card_ne_zero]
  constructor
  · rintro ⟨r, hr⟩
    rw [Finset.mem_filter] at hr
    exact ⟨r, hr.1, hr.2⟩
  · rintro ⟨r, hr, ha⟩
    exact ⟨r, Finset.mem_filter.mpr ⟨hr, ha⟩⟩

/-- rounding keeps whole floors (contracts/C15.py lemma.rounding_keeps_whole_floors): a whole number within 1/2 of x
    is at least every whole number below x. -/
theorem rounding_keeps_whole_floors (x : ℝ) (r k : ℤ) (hk : (k : ℝ) ≤ x) (hr : x - 1 / 2 ≤ (r : ℝ)) : k ≤ r := by
  have h : (k : ℝ) - 1 / 2 ≤ (r : ℝ) := by linarith
  have h2 : (k : ℝ) < (r : ℝ) + 1 := by linarith
  have h3 : k < r + 1 := by exact_mod_cast h2
  omega

/-! ## prefix sums along a list sorted by score (pyvc.sums.cumsum_sorted) and monotone sequences (C17)
    proved with the help of an independent session working only from the statements -/


/-- sums of non-negative weights over a filtered list are non-negative -/
theorem filter_snd_sum_nonneg (t : List (ℝ × ℝ)) (hw : ∀ p ∈ t, 0 ≤ p.2) (q : ℝ × ℝ → Bool) :
    0 ≤ ((t.filter q).map Prod.snd).sum := by
  apply List.sum_nonneg
  intro y hy
  rw [List.mem_map] at hy
  obtain ⟨p, hp, rfl⟩ := hy
  exact hw p (List.mem_of_mem_filter hp)

theorem prefix_ge_aux (l : List (ℝ × ℝ)) (hs : l.Pairwise (fun a b => a.1 ≤ b.1))
    (hw : ∀ p ∈ l, 0 ≤ p.2) (x : ℝ) (k : ℕ) (hk : k < l.length) (hx : (l[k]).1 ≤ x) :
    ((l.take (k + 1)).map Prod.snd).sum ≤ ((l.filter (fun p => p.1 ≤ x)).map Prod.snd).sum := by
  induction l generalizing k with
  | nil => simp at hk
  | cons a t ih =>
    rw [List.pairwise_cons] at hs
    obtain ⟨ha, hs'⟩ := hs
    have hwt : ∀ p ∈ t, 0 ≤ p.2 := fun p hp => hw p (List.mem_cons_of_mem _ hp)
    have hfn := filter_snd_sum_nonneg t hwt (fun p => p.1 ≤ x)
    cases k with
    | zero =>
      simp only [List.getElem_cons_zero] at hx
      have hf : (a :: t).filter (fun p => p.1 ≤ x) = a :: t.filter (fun p => p.1 ≤ x) := by
        rw [List.filter_cons_of_pos]; simpa using hx
      rw [hf]
      simpa using hfn
    | succ k =>
      simp only [List.getElem_cons_succ] at hx
      have hk' : k < t.length := by simpa using hk
      have hax : a.1 ≤ x := le_trans (ha _ (List.getElem_mem hk')) hx
      have hf : (a :: t).filter (fun p => p.1 ≤ x) = a :: t.filter (fun p => p.1 ≤ x) := by
        rw [List.filter_cons_of_pos]; simpa using hax
      rw [hf, List.take_succ_cons]
      simp only [List.map_cons, List.sum_cons]
      have := ih hs' hwt k hk' hx
      linarith

/-- prefix_ge: along a list sorted by score, the running total up to position k is at most the
    total weight of all entries whose score is <= the k-th score (weights non-negative). -/
theorem prefix_ge (l : List (ℝ × ℝ)) (hs : l.Pairwise (fun a b => a.1 ≤ b.1)) (hw : ∀ p ∈ l, 0 ≤ p.2)
    (k : ℕ) (hk : k < l.length) :
    ((l.take (k + 1)).map Prod.snd).sum ≤ ((l.filter (fun p => p.1 ≤ (l[k]).1)).map Prod.snd).sum :=
  prefix_ge_aux l hs hw _ k hk le_rfl

/-- running totals of non-negative weights are monotone in the cut position -/
theorem take_sum_mono (w : List ℝ) (hw : ∀ y ∈ w, 0 ≤ y) (m n : ℕ) (hmn : m ≤ n) :
    (w.take m).sum ≤ (w.take n).sum := by
  have h1 : w.take m = (w.take n).take m := by
    rw [List.take_take, min_eq_left hmn]
  rw [h1]
  apply List.Sublist.sum_le_sum (List.take_sublist _ _)
  intro y hy
  exact hw y (List.mem_of_mem_take hy)

/-- prefix_step: a later position with a strictly larger score has a running total that contains
    the earlier running total plus its own weight. -/
theorem prefix_step (l : List (ℝ × ℝ)) (hs : l.Pairwise (fun a b => a.1 ≤ b.1)) (hw : ∀ p ∈ l, 0 ≤ p.2)
    (i j : ℕ) (hi : i < l.length) (hj : j < l.length) (h : (l[i]).1 < (l[j]).1) :
    ((l.take (i + 1)).map Prod.snd).sum + (l[j]).2 ≤ ((l.take (j + 1)).map Prod.snd).sum := by
  have hij : i < j := by
    by_contra hcon
    rw [not_lt] at hcon
    rcases Nat.lt_or_eq_of_le hcon with hlt | heq
    · have := List.pairwise_iff_getElem.mp hs j i hj hi hlt
      linarith
    · subst heq
      exact lt_irrefl _ h
  have hw' : ∀ y ∈ l.map Prod.snd, 0 ≤ y := by
    intro y hy
    rw [List.mem_map] at hy
    obtain ⟨p, hp, rfl⟩ := hy
    exact hw p hp
  have hjl : j < (l.map Prod.snd).length := by simpa using hj
  have e1 : ((l.take (j + 1)).map Prod.snd).sum = ((l.map Prod.snd).take j).sum + (l[j]).2 := by
    rw [List.map_take, List.sum_take_succ _ _ hjl]
    simp
  have e2 := take_sum_mono (l.map Prod.snd) hw' (i + 1) j hij
  rw [e1, List.map_take]
  linarith

/-- prefix_last_tie: every score x that occurs has a position k holding x at which the running
    total equals the total weight of all entries with score <= x (the last of the tied positions). -/
theorem prefix_last_tie (l : List (ℝ × ℝ)) (hs : l.Pairwise (fun a b => a.1 ≤ b.1)) (x : ℝ)
    (hx : ∃ p ∈ l, p.1 = x) :
    ∃ k, ∃ hk : k < l.length, (l[k]).1 = x ∧
      ((l.take (k + 1)).map Prod.snd).sum = ((l.filter (fun p => p.1 ≤ x)).map Prod.snd).sum := by
  induction l with
  | nil => obtain ⟨p, hp, _⟩ := hx; simp at hp
  | cons a t ih =>
    rw [List.pairwise_cons] at hs
    obtain ⟨ha, hs'⟩ := hs
    by_cases ht : ∃ p ∈ t, p.1 = x
    · obtain ⟨k, hk, hkx, hsum⟩ := ih hs' ht
      obtain ⟨p, hp, hpx⟩ := ht
      have hax : a.1 ≤ x := hpx ▸ ha p hp
      have hf : (a :: t).filter (fun p => p.1 ≤ x) = a :: t.filter (fun p => p.1 ≤ x) := by
        rw [List.filter_cons_of_pos]; simpa using hax
      refine ⟨k + 1, by simpa using hk, by simpa using hkx, ?_⟩
      rw [hf, List.take_succ_cons]
      simp only [List.map_cons, List.sum_cons]
      rw [hsum]
    · have hax : a.1 = x := by
        obtain ⟨p, hp, hpx⟩ := hx
        rcases List.mem_cons.mp hp with rfl | hpt
        · exact hpx
        · exact absurd ⟨p, hpt, hpx⟩ ht
      have hft : t.filter (fun p => p.1 ≤ x) = [] := by
        rw [List.filter_eq_nil_iff]
        intro p hp hpx
        have hpx' : p.1 ≤ x := by simpa using hpx
        have h1 : x ≤ p.1 := hax ▸ ha p hp
        exact ht ⟨p, hp, le_antisymm hpx' h1⟩
      have hf : (a :: t).filter (fun p => p.1 ≤ x) = [a] := by
        rw [List.filter_cons_of_pos, hft]; simpa using hax.le
      refine ⟨0, by simp, by simpa using hax, ?_⟩
      rw [hf]
      simp

/-- mono_of_succ: a sequence that never decreases from one index to the next is monotone. -/
theorem mono_of_succ (a : ℕ → ℝ) (h : ∀ i, a i ≤ a (i + 1)) : ∀ i j, i ≤ j → a i ≤ a j :=
  fun _ _ hij => monotone_nat_of_le_succ h hij


/-! ## prefix sums against a DOWNWARD-CLOSED score predicate, and order-independence of filtered totals
    (pyvc/posarr.py: lemma_prefix, lemma_perm_filter_sum -- the body of math_utils.weighted_median);
    proved by an independent session working only from the statements -/

/-- prefix_in: if the score at position k satisfies the downward closed predicate P, the whole prefix up to and
    including k satisfies it, so the running total up to k is at most the total weight of the entries satisfying P. -/
theorem prefix_in (l : List (ℝ × ℝ)) (hs : l.Pairwise (fun a b => a.1 ≤ b.1)) (hw : ∀ p ∈ l, 0 ≤ p.2)
    (P : ℝ → Bool) (hP : ∀ a b : ℝ, b ≤ a → P a = true → P b = true)
    (k : ℕ) (hk : k < l.length) (h : P (l[k]).1 = true) :
    ((l.take (k + 1)).map Prod.snd).sum ≤ ((l.filter (fun p => P p.1)).map Prod.snd).sum := by
  induction l generalizing k with
  | nil => simp at hk
  | cons a t ih =>
    rw [List.pairwise_cons] at hs
    obtain ⟨ha, hs'⟩ := hs
    have hwt : ∀ p ∈ t, 0 ≤ p.2 := fun p hp => hw p (List.mem_cons_of_mem _ hp)
    have hfn := filter_snd_sum_nonneg t hwt (fun p => P p.1)
    cases k with
    | zero =>
      simp only [List.getElem_cons_zero] at h
      have hf : (a :: t).filter (fun p => P p.1) = a :: t.filter (fun p => P p.1) := by
        rw [List.filter_cons_of_pos]; simpa using h
      rw [hf]
      simpa using hfn
    | succ k =>
      simp only [List.getElem_cons_succ] at h
      have hk' : k < t.length := by simpa using hk
      have hPa : P a.1 = true := hP _ _ (ha _ (List.getElem_mem hk')) h
      have hf : (a :: t).filter (fun p => P p.1) = a :: t.filter (fun p => P p.1) := by
        rw [List.filter_cons_of_pos]; simpa using hPa
      rw [hf, List.take_succ_cons]
      simp only [List.map_cons, List.sum_cons]
      have := ih hs' hwt k hk' h
      linarith

/-- prefix_out: if the score at position k does NOT satisfy the downward closed predicate P, every entry satisfying P
    lies strictly before k, so their total weight is at most the running total of the first k entries. -/
theorem prefix_out (l : List (ℝ × ℝ)) (hs : l.Pairwise (fun a b => a.1 ≤ b.1)) (hw : ∀ p ∈ l, 0 ≤ p.2)
    (P : ℝ → Bool) (hP : ∀ a b : ℝ, b ≤ a → P a = true → P b = true)
    (k : ℕ) (hk : k < l.length) (h : P (l[k]).1 = false) :
    ((l.filter (fun p => P p.1)).map Prod.snd).sum ≤ ((l.take k).map Prod.snd).sum := by
  induction l generalizing k with
  | nil => simp at hk
  | cons a t ih =>
    rw [List.pairwise_cons] at hs
    obtain ⟨ha, hs'⟩ := hs
    have hwt : ∀ p ∈ t, 0 ≤ p.2 := fun p hp => hw p (List.mem_cons_of_mem _ hp)
    have hwa : 0 ≤ a.2 := hw a List.mem_cons_self
    cases k with
    | zero =>
      simp only [List.getElem_cons_zero] at h
      have hft : t.filter (fun p => P p.1) = [] := by
        rw [List.filter_eq_nil_iff]
        intro p hp hpx
        have hpx' : P p.1 = true := by simpa using hpx
        have h1 : P a.1 = true := hP _ _ (ha p hp) hpx'
        rw [h] at h1
        exact Bool.false_ne_true h1
      have hf : (a :: t).filter (fun p => P p.1) = [] := by
        rw [List.filter_cons_of_neg, hft]; simpa using h
      rw [hf]
      simp
    | succ k =>
      simp only [List.getElem_cons_succ] at h
      have hk' : k < t.length := by simpa using hk
      have hih := ih hs' hwt k hk' h
      rw [List.take_succ_cons]
      simp only [List.map_cons, List.sum_cons]
      cases hPa : P a.1 with
      | true =>
        have hf : (a :: t).filter (fun p => P p.1) = a :: t.filter (fun p => P p.1) := by
          rw [List.filter_cons_of_pos]; simpa using hPa
        rw [hf]
        simp only [List.map_cons, List.sum_cons]
        linarith
      | false =>
        have hf : (a :: t).filter (fun p => P p.1) = t.filter (fun p => P p.1) := by
          rw [List.filter_cons_of_neg]; simpa using hPa
        rw [hf]
        linarith

/-- perm_filter_sum: the total weight of the entries satisfying a predicate does not depend on the order of the list. -/
theorem perm_filter_sum (l l' : List (ℝ × ℝ)) (h : l.Perm l') (q : ℝ × ℝ → Bool) :
    ((l.filter q).map Prod.snd).sum = ((l'.filter q).map Prod.snd).sum := by
  exact ((h.filter q).map Prod.snd).sum_eq

/-- cumsum_total: the running total over the whole list is the total. -/
theorem cumsum_total (l : List (ℝ × ℝ)) :
    ((l.take l.length).map Prod.snd).sum = (l.map Prod.snd).sum := by
  rw [List.take_length]

/-- sum_mono_dom: a sum of non-negative terms over a smaller row set is at most the sum over a larger one
    (pyvc.sums.lemma_sum_mono_dom). -/
theorem sum_mono_dom (s : Finset U) (A B : U → Prop) [DecidablePred A] [DecidablePred B] (f : U → ℝ)
    (hAB : ∀ u ∈ s, A u → B u) (hf : ∀ u ∈ s, B u → 0 ≤ f u) :
    ∑ u ∈ s.filter A, f u ≤ ∑ u ∈ s.filter B, f u := by
  apply Finset.sum_le_sum_of_subset_of_nonneg
  · intro u hu
    rw [Finset.mem_filter] at hu ⊢
    exact ⟨hu.1, hAB u hu.1 hu.2⟩
  · intro u hu _
    rw [Finset.mem_filter] at hu
    exact hf u hu.1 hu.2


/-! ## L-WM (C05): what "the intercept-only quantile regression at tau = 1/2" computes
    proved by an independent session working only from the statement -/

/-! L-WM: a minimiser of the weighted absolute loss is a weighted median.
    (The intercept-only quantile regression at tau = 1/2 minimises  Σ w_i * (1/2) * |y_i - m|  over m, which has the same
    minimisers as  Σ w_i * |y_i - m| .)  Prove the theorem (no sorry, no axioms); keep the statement exactly as it is. -/

lemma wmedian_aux {ι : Type} [DecidableEq ι] (s : Finset ι) (w y : ι → ℝ)
    (hw : ∀ i ∈ s, 0 ≤ w i) (m : ℝ)
    (hmin : ∀ m' : ℝ, ∑ i ∈ s, w i * |y i - m| ≤ ∑ i ∈ s, w i * |y i - m'|) :
    ∑ i ∈ s.filter (fun i => y i < m), w i ≤ (∑ i ∈ s, w i) / 2 := by
  by_contra h
  rw [not_le] at h
  have hW : 0 ≤ ∑ i ∈ s, w i := Finset.sum_nonneg hw
  have hne : (s.filter (fun i => y i < m)).Nonempty := by
    by_contra hne
    rw [Finset.not_nonempty_iff_eq_empty] at hne
    rw [hne] at h
    simp at h
    linarith
  obtain ⟨j, hj, hmax⟩ := Finset.exists_max_image _ y hne
  have hjm : y j < m := (Finset.mem_filter.mp hj).2
  have key : ∀ i ∈ s, w i * |y i - y j| ≤
      w i * |y i - m| + (m - y j) * (w i - 2 * (if y i < m then w i else 0)) := by
    intro i hi
    by_cases hlt : y i < m
    · have h1 : y i ≤ y j := hmax i (Finset.mem_filter.mpr ⟨hi, hlt⟩)
      rw [if_pos hlt, abs_of_nonpos (by linarith), abs_of_nonpos (by linarith)]
      apply le_of_eq
      ring
    · have h1 : m ≤ y i := not_lt.mp hlt
      rw [if_neg hlt, abs_of_nonneg (by linarith), abs_of_nonneg (by linarith)]
      apply le_of_eq
      ring
  have hsum := Finset.sum_le_sum key
  rw [Finset.sum_add_distrib, ← Finset.mul_sum, Finset.sum_sub_distrib, ← Finset.mul_sum,
    ← Finset.sum_filter] at hsum
  have h2 := hmin (y j)
  have hδ : 0 < m - y j := by linarith
  nlinarith [mul_pos hδ (show (0:ℝ) < 2 * (∑ i ∈ s.filter (fun i => y i < m), w i) - ∑ i ∈ s, w i by linarith)]

theorem wmedian_of_minimiser {ι : Type} [DecidableEq ι] (s : Finset ι) (w y : ι → ℝ)
    (hw : ∀ i ∈ s, 0 ≤ w i) (m : ℝ)
    (hmin : ∀ m' : ℝ, ∑ i ∈ s, w i * |y i - m| ≤ ∑ i ∈ s, w i * |y i - m'|) :
    ∑ i ∈ s.filter (fun i => y i < m), w i ≤ (∑ i ∈ s, w i) / 2 ∧
    ∑ i ∈ s.filter (fun i => m < y i), w i ≤ (∑ i ∈ s, w i) / 2 := by
  refine ⟨wmedian_aux s w y hw m hmin, ?_⟩
  have h := wmedian_aux s w (fun i => - y i) hw (-m) (by
    intro m'
    have e1 : ∀ i, |(-y i) - (-m)| = |y i - m| := by
      intro i
      rw [← abs_neg]
      congr 1
      ring
    have e2 : ∀ i, |(-y i) - m'| = |y i - (-m')| := by
      intro i
      rw [← abs_neg]
      congr 1
      ring
    simp only [e1, e2]
    exact hmin (-m'))
  simpa only [neg_lt_neg_iff] using h

/-- count_gt_one_iff: a value occurs more than once among the rows iff two DIFFERENT rows carry it
    (contracts/C14.py: Series.value_counts() > 1). -/
theorem count_gt_one_iff (s : Finset U) (A : U → Prop) [DecidablePred A] :
    1 < (s.filter A).card ↔ ∃ a ∈ s, ∃ b ∈ s, A a ∧ A b ∧ a ≠ b := by
  rw [Finset.one_lt_card_iff]
  constructor
  · rintro ⟨a, b, ha, hb, hab⟩
    rw [Finset.mem_filter] at ha hb
    exact ⟨a, ha.1, b, hb.1, ha.2, hb.2, hab⟩
  · rintro ⟨a, ha, b, hb, hA, hB, hab⟩
    exact ⟨a, b, Finset.mem_filter.mpr ⟨ha, hA⟩, Finset.mem_filter.mpr ⟨hb, hB⟩, hab⟩
